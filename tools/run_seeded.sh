#!/bin/bash
# applies every seeded (sub-agent) change to /repo, runs the check of the property it breaks, expects exit 1; reverts.
# developer aid: VERIF_REPO=<scratch worktree> SEEDED_GLOB='S1[0-4]*' runs a slice against a scratch copy (several slices in parallel)
cd ${VERIF_REPO:-/repo} || exit 2
bad=0
for d in /verif/seeded/${SEEDED_GLOB:-*}/; do
  id=$(basename $d); prop=$(python3 -c "import json;print(json.load(open('$d/meta.json'))['property'])" 2>/dev/null)
  expected=$(python3 -c "import json;print(json.load(open('$d/meta.json')).get('expected','caught'))" 2>/dev/null)
  git apply $d/patch.diff || { echo "cannot apply $id"; bad=1; continue; }
  o=$(cd /verif && ./check $prop --tier quick 2>&1); r=$?
  git checkout -- .
  if [ $r -eq 1 ]; then echo "caught   $id by $prop: $(echo "$o" | grep -m1 -oE 'rule [^ ]+ violated in [^ ]+')";
  elif [ "$expected" = "missed" ] && [ $r -eq 0 ]; then echo "expected miss $id ($prop exit 0: documented blind spot, see meta.json)";
  else echo "MISSED   $id ($prop exit $r)"; bad=1; fi
done
exit $bad
