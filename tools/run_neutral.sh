#!/bin/bash
# applies each behaviour-preserving refactor of /verif/neutral to /repo, runs the given checks (default: all, quick),
# expects exit 0 everywhere (false-alarm regression), reverts.
# developer aid: VERIF_REPO=<scratch worktree> NEUTRAL_GLOB='N[0-2]*' runs a slice against a scratch copy (several slices in parallel)
cd ${VERIF_REPO:-/repo} || exit 2
checks=${@:-C02 C03 C04 C05 C06 C07 C08 C09 C10 C11 C12 C13 C14 C15 C16 C17 C18 C19 C20}
bad=0
for d in /verif/neutral/${NEUTRAL_GLOB:-*}.diff; do
  git apply "$d" || { echo "cannot apply $d"; bad=1; continue; }
  # must still compile
  for p in $checks; do
    o=$(cd /verif && ./check $p --tier quick 2>&1); r=$?
    if [ $r -ne 0 ]; then bad=1; echo "FALSE ALARM? $(basename $d) -> $p exit $r"; echo "$o" | grep -E "violated|BROKEN" | head -3 | cut -c1-300; fi
  done
  git checkout -- .
  echo "done $(basename $d)"
done
exit $bad
