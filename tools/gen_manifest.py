#!/usr/bin/python3
"""Regenerates /verif/MANIFEST.json from the table below (kept in one place so it stays valid)."""
import json, os, sys
HERE = os.path.dirname(os.path.dirname(os.path.abspath(__file__)))
sys.path.insert(0, os.path.join(HERE, "lib"))
from vf.manifest_table import CHECKS, NOT_APPLICABLE  # noqa

TRUST = ("Trusted base: clang-14 front end + mem2reg (the -O0 SSA IR is taken as a faithful model of the C source for the "
         "configured x86-64 build), LLVM dominator/loop/SCEV analyses, the libc effect models and the reviewed instance "
         "tables in DESIGN.md. Assembly units (.S) and non-x86 / Windows #if arms are not analysed. Loops: each back edge "
         "followed once with loop-carried values havocked.")

man = {
    "version": 1,
    "setup_cmd": "make -C /verif/tools",
    "hooks": {"guard": "SODIUM_VERIF", "enable": "none needed: the analyses read /repo's sources as they are (no instrumentation)",
              "baseline_off_cmd": "make -C /repo check", "source_commits": [], "add_only": True},
    "engines": [
        {"name": "irx", "path": "tools/irx.cc", "serves_properties": sorted(CHECKS), "kind_free_text": "LLVM-14 IR fact extractor (C++), run on every unit recompiled from /repo's working tree"},
        {"name": "PathAI (E1)", "path": "lib/vf/pathai.py", "serves_properties": sorted(CHECKS), "kind_free_text": "path-sensitive abstract interpretation over the SSA CFG: symbolic terms, interval/zero facts, ordered effect events"},
        {"name": "callgraph/effects (E2)", "path": "lib/vf/callgraph.py", "serves_properties": sorted(CHECKS), "kind_free_text": "whole-library call graph with slot-resolved indirect calls, writer and global-store summaries"},
        {"name": "taint (E3)", "path": "lib/vf/taint.py", "serves_properties": ["C11"], "kind_free_text": "interprocedural secret-taint analysis over all dispatch-slot combinations, contextual / full-object declassification"},
        {"name": "hazard (E8) + SCEV coverage (E9)", "path": "lib/vf/hazard.py", "serves_properties": ["C05", "C09", "C13", "C14"], "kind_free_text": "read-after-write hazards with linear symbolic bases (walking pointers), callee extents; byte coverage of scan loops from scalar evolution"},
        {"name": "bitflow (E11) / known-bits (E12)", "path": "lib/vf/bitflow.py", "serves_properties": ["C02", "C03", "C04", "C05", "C07", "C10", "C14", "C16"], "kind_free_text": "forward bit-mask influence analysis on -O2 IR; known-zero-bits abstract interpretation (dead carries, select idiom, or-packing)"},
        {"name": "dead stores (E13), lane provenance (E14), stuck reads (E15), static state (E16)", "path": "lib/vf/lanes.py", "serves_properties": ["C02", "C04", "C05", "C16"], "kind_free_text": "overwritten-before-read stores on peeled paths; byte provenance through vector shuffles; loop-invariant input reads; writes to static storage"},
        {"name": "asm string ops (E17), finite-domain evaluation (E18)", "path": "lib/vf/finite.py", "serves_properties": ["C03", "C15"], "kind_free_text": "rep stos/movs coverage in .S units; exact evaluation of branch-free single-block table functions over their finite input domain"},
    ],
    "checks": [],
    "not_applicable": [{"property_id": k, "reason": v} for k, v in sorted(NOT_APPLICABLE.items())],
    "notes": "All checks are static analyses of the IR rebuilt from /repo's current working tree on every run; exit 2 = analysis broken (anchor vanished / instance floor not met).",
}
for pid in sorted(CHECKS):
    c = CHECKS[pid]
    man["checks"].append({
        "property_id": pid,
        "quick_cmd": "./check %s --tier quick" % pid,
        "thorough_cmd": "./check %s --tier thorough" % pid,
        "evidence_file": "evidence/%s.json" % pid,
        "replay_cmd_template": "./check %s --replay {path}" % pid,
        "engine": c["engine"],
        "level_claimed": {"category": "other", "text": c["text"], "design_ref": "DESIGN.md §4 " + pid},
        "level_note": TRUST + " " + c.get("note", ""),
        "technique": c["technique"],
    })
json.dump(man, open(os.path.join(HERE, "MANIFEST.json"), "w"), indent=1)
print("wrote MANIFEST.json with %d checks, %d not_applicable" % (len(man["checks"]), len(man["not_applicable"])))
