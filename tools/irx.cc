// irx — LLVM-IR fact extractor for the /verif static analyses.
//
// usage: irx [--no-mem2reg] [--scev] in.bc out.json
//
// Reads one bitcode module, (by default) promotes allocas to SSA (mem2reg),
// and dumps a JSON description of globals, struct layouts and every function:
// blocks, instructions with resolved operands, constant GEP offsets, access
// sizes, debug locations, dominator / post-dominator trees and loop info.
// With --scev it also attaches the scalar-evolution expression of every
// load/store address and the backedge-taken count of each loop.
//
// Value encoding (JSON arrays):
//   ["v",id] instruction   ["a",n] argument   ["i",value,bits] integer
//   ["g",name] global/function   ["b",idx] block   ["null"] ["undef"] ["fp"]
//   ["zero"] zeroinitializer   ["agg",[..]] aggregate   ["bytes","hex",eltbytes]
//   ["ce",opcode,[ops],{extras}] constant expression   ["asm",text,constraints,sideeffect]
//   ["md"] metadata

#include "llvm/ADT/SmallString.h"
#include "llvm/Analysis/LoopInfo.h"
#include "llvm/Analysis/PostDominators.h"
#include "llvm/Analysis/ScalarEvolution.h"
#include "llvm/Analysis/ScalarEvolutionExpressions.h"
#include "llvm/Analysis/AssumptionCache.h"
#include "llvm/Analysis/TargetLibraryInfo.h"
#include "llvm/IR/CFG.h"
#include "llvm/IR/Constants.h"
#include "llvm/IR/DataLayout.h"
#include "llvm/IR/DebugInfoMetadata.h"
#include "llvm/IR/Dominators.h"
#include "llvm/IR/GetElementPtrTypeIterator.h"
#include "llvm/IR/InlineAsm.h"
#include "llvm/IR/Instructions.h"
#include "llvm/IR/IntrinsicInst.h"
#include "llvm/IR/LLVMContext.h"
#include "llvm/IR/Module.h"
#include "llvm/IR/Operator.h"
#include "llvm/IR/PassManager.h"
#include "llvm/IRReader/IRReader.h"
#include "llvm/Passes/PassBuilder.h"
#include "llvm/Support/SourceMgr.h"
#include "llvm/Support/raw_ostream.h"
#include "llvm/Transforms/Utils/Mem2Reg.h"

#include <map>
#include <string>
#include <vector>

using namespace llvm;

static std::string jstr(StringRef s) {
    std::string o = "\"";
    for (unsigned char c : s) {
        switch (c) {
        case '"': o += "\\\""; break;
        case '\\': o += "\\\\"; break;
        case '\n': o += "\\n"; break;
        case '\r': o += "\\r"; break;
        case '\t': o += "\\t"; break;
        default:
            if (c < 0x20 || c >= 0x7f) {
                char b[8];
                snprintf(b, sizeof b, "\\u%04x", c);
                o += b;
            } else {
                o += (char) c;
            }
        }
    }
    o += "\"";
    return o;
}

static std::string tystr(Type *t) {
    std::string s;
    raw_string_ostream os(s);
    t->print(os, false, true);
    os.flush();
    return jstr(s);
}

struct FnCtx {
    std::map<const Value *, int>      ids;
    std::map<const BasicBlock *, int> bids;
};

static const DataLayout *DL;

static std::string apstr(const APInt &v) {
    if (v.getBitWidth() <= 64) {
        return std::to_string(v.getZExtValue());
    }
    SmallString<64> s;
    v.toStringUnsigned(s);
    return jstr(s.str());
}

static std::string constJson(const Constant *c, int depth);

static std::string gepExtras(const GEPOperator *gep) {
    // constant part of the offset and variable (operand index, scale) pairs
    int64_t     off = 0;
    std::string vars = "[";
    bool        firstv = true;
    std::string idxs = "[";
    bool        firsti = true;
    unsigned    opi = 1;
    for (gep_type_iterator gi = gep_type_begin(gep), ge = gep_type_end(gep);
         gi != ge; ++gi, ++opi) {
        Value *idx = gi.getOperand();
        if (!firsti) idxs += ",";
        firsti = false;
        if (StructType *st = gi.getStructTypeOrNull()) {
            unsigned fi = cast<ConstantInt>(idx)->getZExtValue();
            off += DL->getStructLayout(st)->getElementOffset(fi);
            idxs += std::to_string(fi);
        } else {
            uint64_t sz = DL->getTypeAllocSize(gi.getIndexedType());
            if (auto *ci = dyn_cast<ConstantInt>(idx)) {
                off += ci->getSExtValue() * (int64_t) sz;
                idxs += std::to_string(ci->getSExtValue());
            } else {
                if (!firstv) vars += ",";
                firstv = false;
                vars += "[" + std::to_string(opi) + "," + std::to_string(sz) + "]";
                idxs += "null";
            }
        }
    }
    vars += "]";
    idxs += "]";
    // per-level shape: ["p",elemsize] pointer-level, ["s",fieldoff,fieldsize] struct field, ["a",elemsize,count] array
    std::string lv = "[";
    {
        bool firstl = true;
        Type *cur = gep->getSourceElementType();
        unsigned k = 0;
        for (auto it = gep->idx_begin(); it != gep->idx_end(); ++it, ++k) {
            if (!firstl) lv += ",";
            firstl = false;
            if (k == 0) {
                lv += "[\"p\"," + std::to_string(DL->getTypeAllocSize(cur).getFixedSize()) + "]";
                continue;
            }
            if (StructType *st = dyn_cast<StructType>(cur)) {
                unsigned fi = cast<ConstantInt>(it->get())->getZExtValue();
                lv += "[\"s\"," + std::to_string(DL->getStructLayout(st)->getElementOffset(fi)) + "," +
                      std::to_string(DL->getTypeAllocSize(st->getElementType(fi)).getFixedSize()) + "]";
                cur = st->getElementType(fi);
            } else if (ArrayType *at = dyn_cast<ArrayType>(cur)) {
                lv += "[\"a\"," + std::to_string(DL->getTypeAllocSize(at->getElementType()).getFixedSize()) + "," +
                      std::to_string(at->getNumElements()) + "]";
                cur = at->getElementType();
            } else if (FixedVectorType *vt = dyn_cast<FixedVectorType>(cur)) {
                lv += "[\"a\"," + std::to_string(DL->getTypeAllocSize(vt->getElementType()).getFixedSize()) + "," +
                      std::to_string(vt->getNumElements()) + "]";
                cur = vt->getElementType();
            } else {
                lv += "[\"p\",1]";
            }
        }
    }
    lv += "]";
    std::string s = "\"off\":" + std::to_string(off) + ",\"var\":" + vars + ",\"lv\":" + lv +
                    ",\"idx\":" + idxs +
                    ",\"sty\":" + tystr(gep->getSourceElementType()) +
                    ",\"inb\":" + (gep->isInBounds() ? "1" : "0");
    return s;
}

static std::string constJson(const Constant *c, int depth) {
    if (auto *ci = dyn_cast<ConstantInt>(c)) {
        return "[\"i\"," + apstr(ci->getValue()) + "," +
               std::to_string(ci->getBitWidth()) + "]";
    }
    if (isa<ConstantPointerNull>(c)) return "[\"null\"]";
    if (isa<UndefValue>(c)) return "[\"undef\"]";
    if (isa<ConstantFP>(c)) return "[\"fp\"]";
    if (isa<ConstantAggregateZero>(c)) return "[\"zero\"]";
    if (auto *gv = dyn_cast<GlobalValue>(c)) {
        return "[\"g\"," + jstr(gv->getName()) + "]";
    }
    if (auto *cds = dyn_cast<ConstantDataSequential>(c)) {
        if (cds->getElementType()->isIntegerTy()) {
            std::string s = "[\"ints\",[";
            for (unsigned i = 0; i < cds->getNumElements(); i++) {
                if (i) s += ",";
                s += apstr(cds->getElementAsAPInt(i));
            }
            s += "]," + std::to_string(cds->getElementByteSize()) + "]";
            return s;
        }
        return "[\"fp\"]";
    }
    if (isa<ConstantAggregate>(c)) {
        std::string s = "[\"agg\",[";
        for (unsigned i = 0; i < c->getNumOperands(); i++) {
            if (i) s += ",";
            s += constJson(cast<Constant>(c->getOperand(i)), depth + 1);
        }
        s += "]]";
        return s;
    }
    if (auto *ce = dyn_cast<ConstantExpr>(c)) {
        std::string s = "[\"ce\"," + jstr(ce->getOpcodeName()) + ",[";
        for (unsigned i = 0; i < ce->getNumOperands(); i++) {
            if (i) s += ",";
            s += constJson(ce->getOperand(i), depth + 1);
        }
        s += "],{";
        if (auto *gep = dyn_cast<GEPOperator>(ce)) {
            s += gepExtras(gep);
        } else if (ce->isCompare()) {
            s += "\"pred\":" +
                 jstr(CmpInst::getPredicateName((CmpInst::Predicate) ce->getPredicate()));
        }
        s += "}]";
        return s;
    }
    if (isa<BlockAddress>(c)) return "[\"blockaddr\"]";
    return "[\"unk\"]";
}

static std::string valJson(const Value *v, FnCtx &fc) {
    if (auto *c = dyn_cast<Constant>(v)) return constJson(c, 0);
    if (auto *a = dyn_cast<Argument>(v)) {
        return "[\"a\"," + std::to_string(a->getArgNo()) + "]";
    }
    if (auto *bb = dyn_cast<BasicBlock>(v)) {
        return "[\"b\"," + std::to_string(fc.bids[bb]) + "]";
    }
    if (auto *i = dyn_cast<Instruction>(v)) {
        return "[\"v\"," + std::to_string(fc.ids[i]) + "]";
    }
    if (auto *ia = dyn_cast<InlineAsm>(v)) {
        return "[\"asm\"," + jstr(ia->getAsmString()) + "," +
               jstr(ia->getConstraintString()) + "," +
               (ia->hasSideEffects() ? "1" : "0") + "]";
    }
    if (isa<MetadataAsValue>(v)) return "[\"md\"]";
    return "[\"unk\"]";
}

static std::string scevStr(const SCEV *s) {
    std::string o;
    raw_string_ostream os(o);
    s->print(os);
    os.flush();
    return jstr(o);
}

int main(int argc, char **argv) {
    bool        mem2reg = true, scev = false;
    const char *in = nullptr, *out = nullptr;
    for (int i = 1; i < argc; i++) {
        std::string a = argv[i];
        if (a == "--no-mem2reg") mem2reg = false;
        else if (a == "--scev") scev = true;
        else if (!in) in = argv[i];
        else out = argv[i];
    }
    if (!in || !out) {
        errs() << "usage: irx [--no-mem2reg] [--scev] in.bc out.json\n";
        return 2;
    }
    LLVMContext ctx;
    SMDiagnostic err;
    std::unique_ptr<Module> M = parseIRFile(in, err, ctx);
    if (!M) {
        err.print("irx", errs());
        return 2;
    }
    DL = &M->getDataLayout();

    PassBuilder             PB;
    LoopAnalysisManager     LAM;
    FunctionAnalysisManager FAM;
    CGSCCAnalysisManager    CGAM;
    ModuleAnalysisManager   MAM;
    PB.registerModuleAnalyses(MAM);
    PB.registerCGSCCAnalyses(CGAM);
    PB.registerFunctionAnalyses(FAM);
    PB.registerLoopAnalyses(LAM);
    PB.crossRegisterProxies(LAM, FAM, CGAM, MAM);
    if (mem2reg) {
        FunctionPassManager FPM;
        FPM.addPass(PromotePass());
        ModulePassManager MPM;
        MPM.addPass(createModuleToFunctionPassAdaptor(std::move(FPM)));
        MPM.run(*M, MAM);
    }

    std::error_code ec;
    raw_fd_ostream  os(out, ec);
    if (ec) {
        errs() << "irx: cannot open " << out << "\n";
        return 2;
    }
    os << "{\"source\":" << jstr(M->getSourceFileName())
       << ",\"triple\":" << jstr(M->getTargetTriple()) << ",\n";

    // struct layouts
    os << "\"structs\":{";
    {
        bool first = true;
        for (StructType *st : M->getIdentifiedStructTypes()) {
            if (st->isOpaque()) continue;
            if (!first) os << ",";
            first = false;
            const StructLayout *sl = DL->getStructLayout(st);
            os << "\n" << jstr(st->getName()) << ":{\"size\":" << sl->getSizeInBytes()
               << ",\"align\":" << sl->getAlignment().value() << ",\"offs\":[";
            for (unsigned i = 0; i < st->getNumElements(); i++) {
                if (i) os << ",";
                os << sl->getElementOffset(i);
            }
            os << "],\"tys\":[";
            for (unsigned i = 0; i < st->getNumElements(); i++) {
                if (i) os << ",";
                os << tystr(st->getElementType(i));
            }
            os << "]}";
        }
    }
    os << "},\n";

    // globals
    os << "\"globals\":[";
    {
        bool first = true;
        for (GlobalVariable &g : M->globals()) {
            if (!first) os << ",";
            first = false;
            os << "\n{\"name\":" << jstr(g.getName())
               << ",\"const\":" << (g.isConstant() ? 1 : 0)
               << ",\"tls\":" << (g.isThreadLocal() ? 1 : 0)
               << ",\"decl\":" << (g.isDeclaration() ? 1 : 0)
               << ",\"internal\":" << (g.hasLocalLinkage() ? 1 : 0)
               << ",\"hidden\":" << (g.hasHiddenVisibility() ? 1 : 0)
               << ",\"ty\":" << tystr(g.getValueType())
               << ",\"size\":" << (g.getValueType()->isSized() ? DL->getTypeAllocSize(g.getValueType()).getFixedSize() : 0)
               << ",\"align\":" << (g.getAlign() ? g.getAlign()->value() : DL->getABITypeAlignment(g.getValueType()));
            if (g.hasInitializer()) {
                os << ",\"init\":" << constJson(g.getInitializer(), 0);
            }
            SmallVector<DIGlobalVariableExpression *, 1> dbg;
            g.getDebugInfo(dbg);
            if (!dbg.empty()) {
                auto *dv = dbg[0]->getVariable();
                os << ",\"srcname\":" << jstr(dv->getName())
                   << ",\"file\":" << jstr(dv->getFilename())
                   << ",\"line\":" << dv->getLine();
                if (auto *sc = dyn_cast_or_null<DISubprogram>(dv->getScope())) {
                    os << ",\"scope_fn\":" << jstr(sc->getName());
                }
            }
            os << "}";
        }
    }
    os << "],\n";

    // functions
    os << "\"functions\":[";
    bool firstF = true;
    for (Function &F : *M) {
        if (!firstF) os << ",";
        firstF = false;
        os << "\n{\"name\":" << jstr(F.getName())
           << ",\"decl\":" << (F.isDeclaration() ? 1 : 0)
           << ",\"internal\":" << (F.hasLocalLinkage() ? 1 : 0)
           << ",\"hidden\":" << (F.hasHiddenVisibility() ? 1 : 0)
           << ",\"noreturn\":" << (F.doesNotReturn() ? 1 : 0)
           << ",\"intrinsic\":" << (F.isIntrinsic() ? 1 : 0)
           << ",\"vararg\":" << (F.isVarArg() ? 1 : 0)
           << ",\"ret\":" << tystr(F.getReturnType());
        if (F.hasFnAttribute("target-features")) {
            os << ",\"features\":"
               << jstr(F.getFnAttribute("target-features").getValueAsString());
        }
        os << ",\"params\":[";
        for (Argument &a : F.args()) {
            if (a.getArgNo()) os << ",";
            os << "{\"name\":" << jstr(a.getName()) << ",\"ty\":" << tystr(a.getType());
            if (a.getType()->isPointerTy()) {
                if (auto al = a.getParamAlign()) os << ",\"align\":" << al->value();
                if (a.hasByValAttr()) os << ",\"byval\":1";
                if (a.hasStructRetAttr()) os << ",\"sret\":1";
            }
            os << "}";
        }
        os << "]";
        if (DISubprogram *sp = F.getSubprogram()) {
            os << ",\"srcname\":" << jstr(sp->getName())
               << ",\"file\":" << jstr(sp->getFilename())
               << ",\"dir\":" << jstr(sp->getDirectory())
               << ",\"line\":" << sp->getLine();
        }
        if (F.isDeclaration()) {
            os << "}";
            continue;
        }

        FnCtx fc;
        int   nb = 0, ni = 0;
        for (BasicBlock &bb : F) {
            fc.bids[&bb] = nb++;
            for (Instruction &I : bb) {
                if (isa<DbgInfoIntrinsic>(&I)) continue;
                fc.ids[&I] = ni++;
            }
        }
        DominatorTree     &DT = FAM.getResult<DominatorTreeAnalysis>(F);
        PostDominatorTree &PDT = FAM.getResult<PostDominatorTreeAnalysis>(F);
        LoopInfo          &LI = FAM.getResult<LoopAnalysis>(F);
        ScalarEvolution   *SE = scev ? &FAM.getResult<ScalarEvolutionAnalysis>(F) : nullptr;

        os << ",\"blocks\":[";
        for (BasicBlock &bb : F) {
            int b = fc.bids[&bb];
            if (b) os << ",";
            os << "\n {\"name\":" << jstr(bb.getName());
            auto *dn = DT.getNode(&bb);
            int   idom = -1;
            if (dn && dn->getIDom()) idom = fc.bids[dn->getIDom()->getBlock()];
            os << ",\"reach\":" << (dn ? 1 : 0) << ",\"idom\":" << idom;
            auto *pn = PDT.getNode(&bb);
            int   ipdom = -1;
            if (pn && pn->getIDom() && pn->getIDom()->getBlock())
                ipdom = fc.bids[pn->getIDom()->getBlock()];
            os << ",\"ipdom\":" << ipdom;
            Loop *L = LI.getLoopFor(&bb);
            os << ",\"loopdepth\":" << LI.getLoopDepth(&bb)
               << ",\"loophdr\":" << (LI.isLoopHeader(&bb) ? 1 : 0);
            if (L) os << ",\"loop\":" << fc.bids[L->getHeader()];
            if (SE && L && LI.isLoopHeader(&bb)) {
                const SCEV *bt = SE->getBackedgeTakenCount(L);
                os << ",\"btc\":" << scevStr(bt);
            }
            os << ",\"preds\":[";
            {
                bool f = true;
                for (BasicBlock *p : predecessors(&bb)) {
                    if (!f) os << ",";
                    f = false;
                    os << fc.bids[p];
                }
            }
            os << "],\"succs\":[";
            {
                bool f = true;
                for (BasicBlock *s : successors(&bb)) {
                    if (!f) os << ",";
                    f = false;
                    os << fc.bids[s];
                }
            }
            os << "],\"insts\":[";
            {
                bool f = true;
                for (Instruction &I : bb) {
                    if (isa<DbgInfoIntrinsic>(&I)) continue;
                    if (!f) os << ",";
                    f = false;
                    os << fc.ids[&I];
                }
            }
            os << "]}";
        }
        os << "],\n\"insts\":[";
        bool firstI = true;
        for (BasicBlock &bb : F) {
            for (Instruction &I : bb) {
                if (isa<DbgInfoIntrinsic>(&I)) continue;
                if (!firstI) os << ",";
                firstI = false;
                os << "\n {\"op\":" << jstr(I.getOpcodeName())
                   << ",\"b\":" << fc.bids[&bb]
                   << ",\"ty\":" << tystr(I.getType());
                if (!I.getName().empty()) os << ",\"name\":" << jstr(I.getName());
                if (const DebugLoc &dl = I.getDebugLoc()) {
                    os << ",\"ln\":" << dl.getLine();
                    if (auto *sc = dyn_cast_or_null<DIScope>(dl.getScope())) {
                        if (F.getSubprogram() &&
                            sc->getFilename() != F.getSubprogram()->getFilename()) {
                            os << ",\"fl\":" << jstr(sc->getFilename());
                        }
                    }
                    if (dl.getInlinedAt()) os << ",\"inl\":1";
                }
                if (auto *br = dyn_cast<BranchInst>(&I)) {
                    if (br->isConditional()) {
                        os << ",\"cond\":" << valJson(br->getCondition(), fc);
                    }
                    os << ",\"succ\":[";
                    for (unsigned s = 0; s < br->getNumSuccessors(); s++) {
                        if (s) os << ",";
                        os << fc.bids[br->getSuccessor(s)];
                    }
                    os << "]}";
                    continue;
                }
                if (auto *sw = dyn_cast<SwitchInst>(&I)) {
                    os << ",\"cond\":" << valJson(sw->getCondition(), fc)
                       << ",\"default\":" << fc.bids[sw->getDefaultDest()]
                       << ",\"cases\":[";
                    bool f = true;
                    for (auto &c : sw->cases()) {
                        if (!f) os << ",";
                        f = false;
                        os << "[" << apstr(c.getCaseValue()->getValue()) << ","
                           << fc.bids[c.getCaseSuccessor()] << "]";
                    }
                    os << "]}";
                    continue;
                }
                if (auto *phi = dyn_cast<PHINode>(&I)) {
                    os << ",\"inc\":[";
                    for (unsigned k = 0; k < phi->getNumIncomingValues(); k++) {
                        if (k) os << ",";
                        os << "[" << valJson(phi->getIncomingValue(k), fc) << ","
                           << fc.bids[phi->getIncomingBlock(k)] << "]";
                    }
                    os << "]}";
                    continue;
                }
                os << ",\"ops\":[";
                unsigned nops = I.getNumOperands();
                if (auto *cb = dyn_cast<CallBase>(&I)) nops = cb->arg_size();
                for (unsigned k = 0; k < nops; k++) {
                    if (k) os << ",";
                    os << valJson(I.getOperand(k), fc);
                }
                os << "]";
                if (auto *cb = dyn_cast<CallBase>(&I)) {
                    os << ",\"callee\":" << valJson(cb->getCalledOperand(), fc)
                       << ",\"fty\":" << tystr(cb->getFunctionType());
                    if (cb->doesNotReturn()) os << ",\"noreturn\":1";
                } else if (auto *cmp = dyn_cast<CmpInst>(&I)) {
                    os << ",\"pred\":" << jstr(CmpInst::getPredicateName(cmp->getPredicate()));
                } else if (auto *ld = dyn_cast<LoadInst>(&I)) {
                    os << ",\"vol\":" << (ld->isVolatile() ? 1 : 0)
                       << ",\"align\":" << ld->getAlign().value()
                       << ",\"size\":" << DL->getTypeStoreSize(ld->getType()).getFixedSize();
                    if (ld->isAtomic()) os << ",\"atomic\":1";
                    if (SE && SE->isSCEVable(ld->getPointerOperand()->getType()))
                        os << ",\"scev\":" << scevStr(SE->getSCEV(ld->getPointerOperand()));
                } else if (auto *st = dyn_cast<StoreInst>(&I)) {
                    os << ",\"vol\":" << (st->isVolatile() ? 1 : 0)
                       << ",\"align\":" << st->getAlign().value()
                       << ",\"size\":" << DL->getTypeStoreSize(st->getValueOperand()->getType()).getFixedSize();
                    if (st->isAtomic()) os << ",\"atomic\":1";
                    if (SE && SE->isSCEVable(st->getPointerOperand()->getType()))
                        os << ",\"scev\":" << scevStr(SE->getSCEV(st->getPointerOperand()));
                } else if (auto *al = dyn_cast<AllocaInst>(&I)) {
                    os << ",\"aty\":" << tystr(al->getAllocatedType())
                       << ",\"align\":" << al->getAlign().value();
                    if (auto sz = al->getAllocationSizeInBits(*DL))
                        os << ",\"size\":" << (sz->getFixedSize() / 8);
                } else if (auto *gep = dyn_cast<GetElementPtrInst>(&I)) {
                    os << "," << gepExtras(cast<GEPOperator>(gep));
                } else if (auto *ev = dyn_cast<ExtractValueInst>(&I)) {
                    os << ",\"idx\":[";
                    for (unsigned k = 0; k < ev->getNumIndices(); k++) {
                        if (k) os << ",";
                        os << ev->getIndices()[k];
                    }
                    os << "]";
                } else if (auto *iv = dyn_cast<InsertValueInst>(&I)) {
                    os << ",\"idx\":[";
                    for (unsigned k = 0; k < iv->getNumIndices(); k++) {
                        if (k) os << ",";
                        os << iv->getIndices()[k];
                    }
                    os << "]";
                } else if (auto *sv = dyn_cast<ShuffleVectorInst>(&I)) {
                    os << ",\"mask\":[";
                    bool f = true;
                    for (int mk : sv->getShuffleMask()) {
                        if (!f) os << ",";
                        f = false;
                        os << mk;
                    }
                    os << "]";
                } else if (auto *ci = dyn_cast<CastInst>(&I)) {
                    Type *st = ci->getSrcTy();
                    if (st->isIntegerTy()) os << ",\"srcbits\":" << st->getIntegerBitWidth();
                }
                os << "}";
            }
        }
        os << "]}";
    }
    os << "]}\n";
    os.close();
    return 0;
}
