#!/bin/bash
# usage: mk_scratch.sh <dir>  — scratch git worktree of /repo (HEAD) with the generated autotools files, configured and built
set -e
d=$1
[ -d "$d" ] || git -C /repo worktree add -q "$d" HEAD
cd /repo
for f in configure aclocal.m4 Makefile.in build-aux m4/libtool.m4 m4/ltoptions.m4 m4/ltsugar.m4 m4/ltversion.m4 "m4/lt~obsolete.m4" \
         builds/Makefile.in dist-build/Makefile.in src/Makefile.in src/libsodium/Makefile.in src/libsodium/include/Makefile.in \
         test/Makefile.in test/default/Makefile.in; do
  mkdir -p "$d/$(dirname "$f")"; cp -a "$f" "$d/$f"
done
cd "$d"
CFLAGS=' -Wno-error' ./configure -q >/dev/null 2>&1
make -j8 >/dev/null 2>&1
echo "scratch ready: $d"
