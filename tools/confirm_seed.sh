#!/bin/bash
# usage: confirm_seed.sh <worktree> <seed-id> <property>
# Confirms a sub-agent's seeded change myself (build, make check, demo fails with / passes without), stores it under
# /verif/seeded/<seed-id>/ and runs every quick check against /repo with the patch applied (reverted afterwards).
wt=$1; id=$2; prop=$3
out=/verif/seeded/$id; mkdir -p $out
cd $wt || exit 2
[ -s demo/patch.diff ] || git diff -- src > demo/patch.diff
git checkout -q -- src 2>/dev/null; git apply demo/patch.diff || { echo "patch does not apply"; exit 2; }
make -j8 >/dev/null 2>&1 || { echo "BUILD FAILED with patch"; exit 2; }
pass=$(make check -j8 2>&1 | grep -E "^# PASS:" | awk '{print $3}')
echo "make check with patch: PASS=$pass"
demo_build() { if [ -x demo/build.sh ]; then (cd demo && ./build.sh) >/dev/null 2>&1; else cc -w -I$wt/src/libsodium/include demo/demo.c $wt/src/libsodium/.libs/libsodium.a -lpthread -o demo/demo_bin >/dev/null 2>&1; fi; }
demo_run() { if [ -x demo/run.sh ]; then (cd demo && timeout 600 ./run.sh) > $1 2>&1; else timeout 600 demo/demo_bin > $1 2>&1; fi; echo $?; }
demo_build; with=$(demo_run /tmp/demo_with_$id.txt)
git checkout -q -- src; make -j8 >/dev/null 2>&1
demo_build; without=$(demo_run /tmp/demo_without_$id.txt)
git apply demo/patch.diff; make -j8 >/dev/null 2>&1
echo "demo exit: with patch=$with, without patch=$without"
cp demo/patch.diff $out/patch.diff; cp -r demo/* $out/ 2>/dev/null; rm -f $out/demo_bin $out/*.o
tail -5 /tmp/demo_with_$id.txt > $out/demo_output_with_patch.txt; tail -5 /tmp/demo_without_$id.txt > $out/demo_output_without_patch.txt
# run the checks against /repo with the patch
cd /repo && git apply $out/patch.diff || { echo "patch does not apply to /repo"; exit 2; }
fired=""
for p in C02 C03 C04 C05 C06 C07 C08 C09 C10 C11 C12 C13 C14 C15 C16 C17 C18 C19 C20; do
  o=$(cd /verif && ./check $p --tier quick 2>&1); r=$?
  if [ $r -ne 0 ]; then fired="$fired $p($r)"; echo "$o" | grep -E "rule .* violated|ANALYSIS-BROKEN" | head -3 | cut -c1-400 > $out/fired_$p.txt; fi
done
git -C /repo checkout -- .
echo "checks firing:$fired"
cat > $out/meta.json <<EOM
{"seed": "$id", "property": "$prop", "make_check_pass_with_patch": "$pass", "demo_exit_with_patch": $with, "demo_exit_without_patch": $without,
 "checks_firing_quick": "$(echo $fired)", "confirmed_by": "tools/confirm_seed.sh in the sub-agent's scratch worktree (build, make check, demo with/without), then all quick checks on /repo with the patch applied and reverted"}
EOM
(cd /verif && git -C /repo status --short | head -3)
