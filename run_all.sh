#!/bin/bash
# developer aid: run every registered check (quick by default) and summarise
tier=${1:-quick}
cd "$(dirname "$0")"
rc=0
for p in C02 C03 C04 C05 C06 C07 C08 C09 C10 C11 C12 C13 C14 C15 C16 C17 C18 C19 C20; do
  out=$(./check $p --tier $tier 2>&1); r=$?
  echo "$out" | grep -E "^$p |^KNOWN|^VIOLATION|^ANALYSIS" | cut -c1-200
  [ $r -ne 0 ] && rc=1 && echo "  -> exit $r"
done
exit $rc
