/* F3 (properties C03, C12): crypto_stream_chacha20_ietf_xor_ic() does not refuse requests longer than
 * the 32-bit block counter allows. Its guard
 *     ic > (64 * 2^32) / 64 - (mlen + 63) / 64
 * is computed in unsigned 64-bit arithmetic; for mlen > 2^38 the right-hand side wraps to a huge
 * value, so the misuse handler is NOT called and the backend starts processing (the 32-bit counter
 * would carry into the nonce word after 2^32 blocks).
 *   cc -I/repo/src/libsodium/include F3_c03_ietf_counter_guard.c /repo/src/libsodium/.libs/libsodium.a -lpthread -o f3 && ./f3
 * A correct library prints "refused through the misuse handler" for both requests. */
#include <signal.h>
#include <sodium.h>
#include <stdio.h>
#include <string.h>
#include <sys/mman.h>
#include <unistd.h>

static const char *what;
static void on_misuse(void) { printf("%s: refused through the misuse handler\n", what); fflush(stdout); _exit(0); }
static void on_segv(int s) { (void) s; printf("%s: NOT refused - the backend started processing and ran off the test buffer\n", what); fflush(stdout); _exit(1); }

static int try_len(unsigned long long mlen, unsigned int ic, const char *label)
{
    pid_t pid = fork();
    if (pid == 0) {
        unsigned char n[crypto_stream_chacha20_ietf_NONCEBYTES] = { 0 }, k[crypto_stream_chacha20_ietf_KEYBYTES] = { 0 };
        unsigned char *buf = mmap(NULL, 2 * 4096, PROT_READ | PROT_WRITE, MAP_ANON | MAP_PRIVATE, -1, 0);
        mprotect(buf + 4096, 4096, PROT_NONE);
        what = label;
        sodium_set_misuse_handler(on_misuse);
        signal(SIGSEGV, on_segv);
        crypto_stream_chacha20_ietf_xor_ic(buf, buf, mlen, n, ic, k);
        printf("%s: returned normally\n", label);
        _exit(2);
    }
    int st = 0;
    waitpid(pid, &st, 0);
    return WEXITSTATUS(st);
}

#include <sys/wait.h>
int main(void)
{
    int a, b;
    if (sodium_init() < 0) return 2;
    /* 2^38 bytes with ic = 1 needs block 2^32: must be refused (and is) */
    a = try_len(1ULL << 38, 1U, "mlen=2^38, ic=1");
    /* 2^38 + 64 bytes with ic = 0 needs 2^32 + 1 blocks: must be refused (and is not) */
    b = try_len((1ULL << 38) + 64ULL, 0U, "mlen=2^38+64, ic=0");
    return (a == 0 && b == 0) ? 0 : 1;
}
