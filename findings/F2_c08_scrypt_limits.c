/* F2 (property C08): crypto_pwhash_scryptsalsa208sha256() does not refuse cost parameters outside
 * the documented [OPSLIMIT_MIN, OPSLIMIT_MAX] x [MEMLIMIT_MIN, MEMLIMIT_MAX]: pickparams() clamps /
 * derives (N, r, p) from any value and always returns 0.
 *   cc -I/repo/src/libsodium/include F2_c08_scrypt_limits.c /repo/src/libsodium/.libs/libsodium.a -lpthread -o f2 && ./f2
 * prints rc=0 for opslimit=0, memlimit=0 (both below the documented minima). */
#include <sodium.h>
#include <stdio.h>
int main(void)
{
    unsigned char out[32], salt[crypto_pwhash_scryptsalsa208sha256_SALTBYTES] = { 0 };
    int rc;
    if (sodium_init() < 0) return 2;
    rc = crypto_pwhash_scryptsalsa208sha256(out, sizeof out, "pw", 2, salt, 0ULL, (size_t) 0);
    printf("opslimit=0 (min %llu) memlimit=0 (min %zu): rc=%d\n",
           (unsigned long long) crypto_pwhash_scryptsalsa208sha256_opslimit_min(),
           crypto_pwhash_scryptsalsa208sha256_memlimit_min(), rc);
    return rc == 0 ? 1 : 0;
}
