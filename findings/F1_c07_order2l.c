/* F1 (property C07): crypto_core_ed25519_is_valid_point accepted points of order 2*l.
 * Concrete replay used once to tell a genuine defect from an engine artefact; not part of any check.
 *   cc -I/repo/src/libsodium/include F1_c07_order2l.c /repo/src/libsodium/.libs/libsodium.a -o f1 && ./f1
 * prints "valid(B)=1 valid(T2)=0 valid(B+T2)=0" on a correct library (was ...=1 before the fix). */
#include <sodium.h>
#include <stdio.h>
#include <string.h>
int main(void)
{
    unsigned char B[32], T2[32], r[32];
    if (sodium_init() < 0) return 2;
    memset(B, 0x66, 32); B[0] = 0x58;                   /* base point      */
    memset(T2, 0xff, 32); T2[0] = 0xec; T2[31] = 0x7f;  /* (0,-1), order 2 */
    if (crypto_core_ed25519_add(r, B, T2) != 0) return 2;
    printf("valid(B)=%d valid(T2)=%d valid(B+T2)=%d\n", crypto_core_ed25519_is_valid_point(B),
           crypto_core_ed25519_is_valid_point(T2), crypto_core_ed25519_is_valid_point(r));
    return crypto_core_ed25519_is_valid_point(r) ? 1 : 0;
}
