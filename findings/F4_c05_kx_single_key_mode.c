/* F4 (C05): key-exchange session keys are not cross-equal when one side asks for a single key.
 *
 * crypto_kx_client_session_keys(rx, NULL, ...) aliases tx to rx and then runs
 *     rx[i] = keys[i]; tx[i] = keys[i + 32];
 * so the buffer the caller passed as rx ends up holding keys[32..64] - the client's *tx* key.
 * A server that asked for both keys has tx = keys[0..32]: client rx != server tx.
 * Symmetrically crypto_kx_server_session_keys(NULL, tx, ...) returns the server's rx key in tx.
 *
 * build: cc -I/repo/src/libsodium/include F4_c05_kx_single_key_mode.c /repo/src/libsodium/.libs/libsodium.a -lpthread
 * exit 1 = the property's cross-equality fails (observed on the pinned tree), exit 0 = holds.
 */
#include <sodium.h>
#include <stdio.h>
#include <string.h>

int main(void)
{
    unsigned char cpk[32], csk[32], spk[32], ssk[32];
    unsigned char crx[32], ctx[32], srx[32], stx[32], crx1[32], stx1[32];
    int bad = 0;

    if (sodium_init() < 0) return 2;
    crypto_kx_keypair(cpk, csk);
    crypto_kx_keypair(spk, ssk);
    if (crypto_kx_client_session_keys(crx, ctx, cpk, csk, spk) != 0 ||
        crypto_kx_server_session_keys(srx, stx, spk, ssk, cpk) != 0 ||
        crypto_kx_client_session_keys(crx1, NULL, cpk, csk, spk) != 0 ||
        crypto_kx_server_session_keys(NULL, stx1, spk, ssk, cpk) != 0) return 2;
    if (memcmp(crx, stx, 32) != 0 || memcmp(ctx, srx, 32) != 0) {
        printf("two-key mode: not cross-equal\n"); bad++;
    }
    if (memcmp(crx1, stx, 32) != 0) {
        printf("client asked for rx only: its rx != server tx (it %s the client's tx key)\n",
               memcmp(crx1, ctx, 32) == 0 ? "is" : "is not even"); bad++;
    }
    if (memcmp(stx1, crx, 32) != 0) {
        printf("server asked for tx only: its tx != client rx (it %s the server's rx key)\n",
               memcmp(stx1, srx, 32) == 0 ? "is" : "is not even"); bad++;
    }
    return bad ? 1 : 0;
}
