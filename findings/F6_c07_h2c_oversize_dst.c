/* F6 (C07): hash-to-group with a context longer than 255 bytes is not RFC 9380 expand_message_xmd.
 *
 * core_h2c_string_to_hash_sha{256,512}() hash an oversize context into the local `u0` and point `ctx` at it
 * (DST = H("H2C-OVERSIZE-DST-" || ctx), RFC 9380 5.3.3). The very next hash, b_0, is written into the same
 * `u0` (crypto_hash_*_final(&st, u0)), so every b_i (i >= 1) is computed with b_0 in the place of DST'.
 *
 * This program implements expand_message_xmd (SHA-512) from the RFC on top of the public one-shot hash and feeds
 * its 64-byte output to the public crypto_core_ristretto255_from_hash(); it must equal
 * crypto_core_ristretto255_from_string(). It does for contexts up to 255 bytes and does not above; a second
 * reference that deliberately substitutes b_0 for DST' reproduces the library's oversize output exactly.
 *
 * build: cc -I/repo/src/libsodium/include F6_c07_h2c_oversize_dst.c /repo/src/libsodium/.libs/libsodium.a -lpthread
 * exit 1 = deviation from RFC 9380 observed, 0 = conforms. */
#include <sodium.h>
#include <stdio.h>
#include <stdlib.h>
#include <string.h>

/* expand_message_xmd with SHA-512, len_in_bytes = 64 (one block). b0_as_dst: reproduce the defect. */
static void xmd512(unsigned char out[64], const unsigned char *msg, size_t msg_len, const char *ctx, int b0_as_dst)
{
    unsigned char  dst[64];
    const unsigned char *d = (const unsigned char *) ctx;
    size_t         dlen = strlen(ctx);
    unsigned char  b0[64], b1in[64 + 1 + 255 + 1];
    unsigned char *buf;
    size_t         n = 0;
    unsigned char  dl;

    if (dlen > 255) {
        buf = malloc(17 + dlen);
        memcpy(buf, "H2C-OVERSIZE-DST-", 17);
        memcpy(buf + 17, ctx, dlen);
        crypto_hash_sha512(dst, buf, 17 + dlen);
        free(buf);
        d = dst; dlen = 64;
    }
    dl = (unsigned char) dlen;
    buf = malloc(128 + msg_len + 3 + dlen + 1);
    memset(buf, 0, 128); n = 128;                       /* Z_pad */
    memcpy(buf + n, msg, msg_len); n += msg_len;
    buf[n++] = 0; buf[n++] = 64; buf[n++] = 0;           /* l_i_b_str || I2OSP(0, 1) */
    memcpy(buf + n, d, dlen); n += dlen; buf[n++] = dl;  /* DST_prime */
    crypto_hash_sha512(b0, buf, n);
    free(buf);
    if (b0_as_dst && strlen(ctx) > 255) {
        d = b0;                                          /* what the library does */
    }
    n = 0;
    memcpy(b1in, b0, 64); n = 64; b1in[n++] = 1;
    memcpy(b1in + n, d, dlen); n += dlen; b1in[n++] = dl;
    crypto_hash_sha512(out, b1in, n);
}

int main(void)
{
    static const size_t lens[] = { 0, 1, 100, 254, 255, 256, 300, 499 };
    char           ctx[512];
    unsigned char  h[64], p_ref[32], p_bug[32], p_lib[32];
    const unsigned char msg[] = "msg";
    size_t         i;
    int            bad = 0;

    if (sodium_init() < 0) return 2;
    for (i = 0; i < sizeof lens / sizeof lens[0]; i++) {
        memset(ctx, 'X', lens[i]); ctx[lens[i]] = 0;
        xmd512(h, msg, 3, ctx, 0); crypto_core_ristretto255_from_hash(p_ref, h);
        xmd512(h, msg, 3, ctx, 1); crypto_core_ristretto255_from_hash(p_bug, h);
        if (crypto_core_ristretto255_from_string(p_lib, ctx, msg, 3, 2 /* SHA-512 */) != 0) return 2;
        if (memcmp(p_lib, p_ref, 32) != 0) {
            printf("context of %zu bytes: crypto_core_ristretto255_from_string() != RFC 9380 expand_message_xmd + map%s\n",
                   lens[i], memcmp(p_lib, p_bug, 32) == 0 ? " (equals the variant that uses b_0 as DST' for b_1)" : "");
            bad++;
        }
    }
    printf("%d context length(s) deviate from RFC 9380\n", bad);
    return bad ? 1 : 0;
}
