/* F7 (C15): sodium_base642bin() accepts every byte >= 0x80 as the Base64 digit 63.
 *
 * The text byte is read into a (signed) `char` and handed to b64_char_to_byte(int) / b64_urlsafe_char_to_byte(int) sign-extended.
 * For a negative c the branch-free EQ(c, y) = ((((0U - ((unsigned) c ^ (unsigned) y)) >> 8) & 0xFF) ^ 0xFF) sees
 * 0U - 0xFFFFFFzz = 0x100 - zz, whose bits 8..15 are zero, and reports "equal": EQ(c, 0x2b) and EQ(c, 0x2f) are both true, so the
 * byte is decoded as 62 | 63 = 63. "AAA\x80" .. "AAA\xff" decode to 00 00 3f in all four variants.
 *
 * build: cc -I/repo/src/libsodium/include F7_c15_base64_high_bytes.c /repo/src/libsodium/.libs/libsodium.a -lpthread
 * exit 1 = some byte >= 0x80 was accepted as a digit, 0 = none. */
#include <sodium.h>
#include <stdio.h>
#include <string.h>
int main(void){ unsigned char bin[8]; size_t n=99; const char *end; int v, bad=0, c;
 if (sodium_init()<0) return 2;
 for (v=1; v<=7; v+=2) { if (v!=1 && v!=3 && v!=5 && v!=7) continue;
  for (c=128;c<256;c++){ char t[5]="AAA?"; t[3]=(char)c; n=99;
   int r=sodium_base642bin(bin,sizeof bin,t,4,NULL,&n,&end,v);
   if (r==0 && n==3) { if (bad<3) printf("variant %d: \"AAA\\x%02x\" accepted -> %02x %02x %02x\n",v,c,bin[0],bin[1],bin[2]); bad++; } } }
 printf("%d (variant, byte >= 0x80) pairs accepted as a Base64 digit\n", bad); return bad?1:0; }
