/* F5 (C17): "oversized requests fail with ENOMEM" - sodium_malloc() reports EINVAL for 14 sizes.
 *
 * _sodium_malloc() refuses size >= SIZE_MAX - 4*page with ENOMEM. For
 *     SIZE_MAX - 4*page - 14 <= size <= SIZE_MAX - 4*page - 1
 * the test passes, size + 16 (canary) rounds up to 2^64 - 3*page and total_size = 3*page + that wraps to 0;
 * mmap(NULL, 0, ...) fails with EINVAL, so the caller gets NULL with errno == EINVAL instead of ENOMEM.
 *
 * build: cc -I/repo/src/libsodium/include F5_c17_malloc_errno.c /repo/src/libsodium/.libs/libsodium.a -lpthread
 * exit 1 = some oversized request did not fail with ENOMEM, exit 0 = all did. */
#include <errno.h>
#include <sodium.h>
#include <stdint.h>
#include <stdio.h>
#include <unistd.h>

int main(void)
{
    const size_t page = (size_t) sysconf(_SC_PAGESIZE);
    size_t       k;
    int          bad = 0;

    if (sodium_init() < 0) return 2;
    for (k = 0; k < 5 * page; k++) {
        const size_t size = (size_t) SIZE_MAX - k;
        void        *p;

        errno = 0;
        p = sodium_malloc(size);
        if (p != NULL || errno != ENOMEM) {
            if (bad < 20) {
                printf("sodium_malloc(SIZE_MAX - %zu [= SIZE_MAX - 4*page - %ld]) -> %p, errno=%d (want NULL, ENOMEM=%d)\n",
                       k, (long) k - (long) (4 * page), p, errno, ENOMEM);
            }
            bad++;
            if (p != NULL) sodium_free(p);
        }
    }
    printf("%d oversized size(s) did not fail with ENOMEM\n", bad);
    return bad ? 1 : 0;
}
