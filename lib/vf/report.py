"""Obligation bookkeeping, evidence / replay files, known findings, exit codes."""
import json
import os
import sys
import time

from .build import VERIF, AnalysisBroken

KNOWN_FILE = os.path.join(VERIF, "known_findings.txt")


def load_known():
    """known: property=<id> key=<rule function construct> :: <what fails>   -> KNOWN-FINDING, exit 0
       fixed: property=<id> <commit> <text>                               -> suppresses nothing
    A known finding is identified by the exact violation key (rule, function, construct), so any
    other violation of the same rule or property is still reported."""
    known = []
    if os.path.exists(KNOWN_FILE):
        for line in open(KNOWN_FILE):
            line = line.strip()
            if not line.startswith("known:"):
                continue
            rest = line[len("known:"):].strip()
            pid = rest.split()[0].split("=", 1)[1]
            body = rest.split(None, 1)[1] if len(rest.split(None, 1)) > 1 else ""
            if not body.startswith("key=") or "::" not in body:
                continue
            key, text = body[4:].split("::", 1)
            known.append((pid, key.strip(), text.strip()))
    return known


class Check:
    def __init__(self, pid, tier="quick"):
        self.pid = pid
        self.tier = tier
        self.t0 = time.time()
        self.obligations = 0
        self.discharged = 0
        self.violations = []
        self.samples = []
        self.notes = []
        self.suppressions = []
        self.rule_counts = {}       # rule -> [obligations, discharged]
        self.functions = set()
        self.assumptions = []
        self.analysed = {}
        self.explanation = ""
        self.not_decided = ""
        self.configs = []
        self.known_hits = []
        self.relaxed = False

    # ---- obligations -------------------------------------------------------------
    def ob(self, rule, fn, what, ok, loc=None, detail=None, path=None, key=None):
        """record one obligation. fn: Function or name. ok False => violation."""
        self.obligations += 1
        rc = self.rule_counts.setdefault(rule, [0, 0])
        rc[0] += 1
        fname = fn if isinstance(fn, str) else fn.name
        self.functions.add(fname)
        if ok:
            self.discharged += 1
            rc[1] += 1
            # keep a few samples per rule, evenly
            per_rule = [s for s in self.samples if s["rule"] == rule]
            if len(per_rule) < 3:
                s = {"rule": rule, "function": fname, "obligation": what,
                     "at": loc or (fn.loc() if not isinstance(fn, str) else ""), "result": "discharged"}
                if detail:
                    s["by"] = detail
                self.samples.append(s)
            return True
        at = loc or (fn.loc() if not isinstance(fn, str) else "")
        for v0 in self.violations:
            if v0["key"] == (key or ("%s %s" % (rule, fname))) and v0["at"] == at and v0["obligation"] == what:
                v0["count"] = v0.get("count", 1) + 1
                return False
        v = {"rule": rule, "function": fname, "obligation": what,
             "at": loc or (fn.loc() if not isinstance(fn, str) else ""),
             "detail": detail or "", "key": key or ("%s %s" % (rule, fname))}
        if path is not None:
            v["path"] = path.describe() if hasattr(path, "describe") else path
        self.violations.append(v)
        return False

    def floor(self, rule, what, count, minimum):
        """instance-count floor: fewer instances than confirmed by hand => analysis broken"""
        self.analysed["%s: %s%s" % (rule, what, " [portable]" if self.relaxed else "")] = count
        if count < minimum and not self.relaxed and not any(v["rule"] == rule for v in self.violations):
            # (a short count next to a violation of the same rule is the violation's consequence and is reported as such)
            raise AnalysisBroken("%s: %s matched %d instance(s), expected at least %d — the rule "
                                 "would pass vacuously" % (rule, what, count, minimum))

    def note(self, text):
        self.notes.append(text)

    def suppress(self, rule, symbol, reason):
        self.suppressions.append({"rule": rule, "symbol": symbol, "reason": reason})

    # ---- output ---------------------------------------------------------------------
    def finish(self):
        wall = time.time() - self.t0
        known = [k for k in load_known() if k[0] == self.pid]
        new_v = []
        for v in self.violations:
            hit = None
            for _pid, key, text in known:
                if key == v["key"]:
                    hit = "%s :: %s" % (key, text)
                    break
            if hit:
                self.known_hits.append((v, hit))
            else:
                new_v.append(v)
        os.makedirs(os.path.join(VERIF, "evidence"), exist_ok=True)
        ev = {
            "property_id": self.pid,
            "tier": self.tier,
            "seed": int(os.environ.get("VERIF_SEED", "0") or 0),
            "level": "other",
            "coverage": {
                "explanation": self.explanation + ("  NOT DECIDED: " + self.not_decided if self.not_decided else ""),
                "evaluations": self.obligations,
                "distinct_nontrivial": len(self.functions),
                "rule": "one obligation = (rule, function, path-exit or sink) evaluated on the IR of the "
                        "current tree; non-trivial = the obligation had at least one matching construct; "
                        "distinct_nontrivial counts distinct functions carrying such obligations",
                "obligations": self.obligations,
                "discharged": self.discharged,
                "per_rule": {r: {"obligations": c[0], "discharged": c[1]} for r, c in sorted(self.rule_counts.items())},
                "samples": self.samples[:40],
                "analysed": self.analysed,
                "configurations": self.configs,
                "suppressions": self.suppressions,
                "notes": self.notes[:60],
                "known_findings_reported": sorted({h for _v, h in self.known_hits}),
                "exhaustive": True,
            },
            "assumptions": self.assumptions,
            "wall_s": round(wall, 2),
            "violations": len(new_v),
        }
        with open(os.path.join(VERIF, "evidence", "%s.json" % self.pid), "w") as f:
            json.dump(ev, f, indent=1)
        for hit in sorted({h for _v, h in self.known_hits}):
            print("KNOWN-FINDING: property=%s %s" % (self.pid, hit))
        print("%s [%s]: %d obligations, %d discharged, %d violation(s), %d known finding(s), %.1fs"
              % (self.pid, self.tier, self.obligations, self.discharged, len(new_v), len(self.known_hits), wall))
        for r, c in sorted(self.rule_counts.items()):
            print("  %-8s %4d obligations, %4d discharged" % (r, c[0], c[1]))
        for k, n in sorted(self.analysed.items()):
            print("  analysed %s = %s" % (k, n))
        if new_v:
            os.makedirs(os.path.join(VERIF, "replays"), exist_ok=True)
            for i, v in enumerate(new_v):
                rp = os.path.join(VERIF, "replays", "%s-%d.json" % (self.pid, i))
                with open(rp, "w") as f:
                    json.dump(v, f, indent=1)
                if i < 12:
                    print("  rule %s violated in %s at %s: %s %s" % (v["rule"], v["function"], v["at"],
                                                                   v["obligation"], v["detail"][:700]))
                    for line in (v.get("path") or [])[:60]:
                        print("    " + line)
                elif i == 12:
                    print("  ... %d more violation(s): see the replay files" % (len(new_v) - 12))
                print("VIOLATION property=%s replay=%s" % (self.pid, rp))
            return 1
        return 0
