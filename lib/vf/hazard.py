"""E8 — read-after-write hazards between an output and an input buffer that may be the same buffer.

For a function with an output pointer parameter DST and an input pointer parameter SRC that callers
may legitimately pass as the same pointer (in-place operation), every access is reduced to
(symbolic base, constant lower bound, constant upper bound or None) relative to its parameter, where
the symbolic base is a linear form over loop-carried SSA values (`i`, `i + 112`, `pi + 16*j` ...).
A hazard is a write W through DST and a read R through SRC such that
  * W can execute before R without passing the header of a loop that defines one of the base
    variables (same "generation" of the index), and
  * with the same symbolic base, the byte ranges overlap.
With DST == SRC the read would see data the function itself has already overwritten. Extents of
callee accesses come from scalar evolution on the -O2 IR (constant trip counts); accesses whose extent
or base cannot be established are not judged."""
from . import e9


class Lin:
    def __init__(self, fn):
        self.fn = fn
        self.insts = fn.insts

    def value(self, o, depth=0):
        """integer operand -> (const, {vid: scale}) or None"""
        if o[0] == "i" and isinstance(o[1], int):
            v = o[1]
            bits = o[2] if len(o) > 2 else 64
            if v >= 1 << (bits - 1):
                v -= 1 << bits
            return v, {}
        if o[0] != "v" or depth > 12:
            return None
        ins = self.insts[o[1]]
        op = ins["op"]
        if op in ("zext", "sext", "trunc"):
            return self.value(ins["ops"][0], depth + 1)
        if op in ("add", "sub"):
            a = self.value(ins["ops"][0], depth + 1)
            b = self.value(ins["ops"][1], depth + 1)
            if a is None or b is None:
                return 0, {o[1]: 1}
            sgn = 1 if op == "add" else -1
            d = dict(a[1])
            for k, v in b[1].items():
                d[k] = d.get(k, 0) + sgn * v
            return a[0] + sgn * b[0], {k: v for k, v in d.items() if v}
        if op in ("mul", "shl"):
            a = self.value(ins["ops"][0], depth + 1)
            b = self.value(ins["ops"][1], depth + 1)
            if a is not None and b is not None and not b[1]:
                k = b[0] if op == "mul" else (1 << b[0])
                return a[0] * k, {x: v * k for x, v in a[1].items()}
            if op == "mul" and a is not None and b is not None and not a[1]:
                return b[0] * a[0], {x: v * a[0] for x, v in b[1].items()}
        return 0, {o[1]: 1}

    def addr(self, o, depth=0):
        """pointer operand -> (root, const, {vid: scale}) or None"""
        const, var = 0, {}
        while o[0] == "v" and depth < 64:
            ins = self.insts[o[1]]
            if ins["op"] == "getelementptr":
                if ins.get("off") is None:
                    return None
                const += ins["off"]
                for oi, scale in ins.get("var") or ():
                    v = self.value(ins["ops"][oi])
                    if v is None:
                        return None
                    const += v[0] * scale
                    for k, s in v[1].items():
                        var[k] = var.get(k, 0) + s * scale
                o = ins["ops"][0]
            elif ins["op"] in ("bitcast", "addrspacecast"):
                o = ins["ops"][0]
            elif ins["op"] == "phi" and len(ins.get("inc", ())) == 2 and depth < 60:
                # a pointer that walks a buffer: p = phi(base + k, p + stride). Its current position is named by (loop header,
                # stride), so that two pointers advancing in lockstep (`c += 64; m += 64`) get the same symbolic offset.
                me = o[1]
                step = init = None
                for v, _b in ins["inc"]:
                    q, acc, plain = v, 0, True
                    for _ in range(8):
                        if q[0] != "v":
                            break
                        d = self.insts[q[1]]
                        if d["op"] == "getelementptr" and not d.get("var") and d.get("off") is not None:
                            acc += d["off"]
                            q = d["ops"][0]
                        elif d["op"] == "bitcast":
                            q = d["ops"][0]
                        else:
                            break
                    if q[0] == "v" and q[1] == me:
                        step = acc
                    else:
                        init = v
                if step is None or init is None or not step:
                    break
                a0 = self.addr(init, depth + 1)
                if a0 is None or a0[2]:
                    break
                key = ("pp", ins["b"], step)
                var[key] = var.get(key, 0) + 1
                return a0[0], const + a0[1], {k: v for k, v in var.items() if v}
            else:
                break
            depth += 1
        return tuple(o[:2]), const, {k: v for k, v in var.items() if v}


def const_extent(f, pname, kind, fns=None, depth=0):
    """(lo, hi) constant byte hull of the loads ('load') / stores ('store') a -O2 function makes through parameter
    pname, or None when there are none or one of them is not constant"""
    loops = {b["name"]: b.get("btc") for b in f["blocks"] if b.get("loophdr")}
    lo = hi = None
    pidx = [i for i, q in enumerate(f["params"]) if q["name"] == pname]
    pidx = pidx[0] if pidx else -1

    def poff(o, depth=0):
        off = 0
        while o[0] == "v" and depth < 16:
            d = f["insts"][o[1]]
            if d["op"] == "getelementptr" and not d.get("var") and d.get("off") is not None:
                off += d["off"]
                o = d["ops"][0]
            elif d["op"] == "bitcast":
                o = d["ops"][0]
            else:
                return None
            depth += 1
        return off if o[0] == "a" and o[1] == pidx else None

    for ins in f["insts"]:
        if ins["op"] == "call":
            cal = ins.get("callee")
            name = cal[1] if cal and cal[0] == "g" else ""
            k = None
            if name.startswith(("llvm.memcpy", "llvm.memmove")):
                k = 0 if kind == "store" else 1
            elif name.startswith("llvm.memset") and kind == "store":
                k = 0
            if k is not None:
                off = poff(ins["ops"][k])
                if off is not None:
                    n = ins["ops"][2]
                    if n[0] != "i":
                        return None
                    lo = off if lo is None else min(lo, off)
                    hi = off + n[1] if hi is None else max(hi, off + n[1])
                continue
            if name.startswith("llvm."):
                continue
            # a helper of the same unit (store32_le(out + 4, x) ...): its own constant extent, shifted
            for k2, o in enumerate(ins.get("ops", [])):
                off = poff(o) if o[0] in ("v", "a") else None
                if off is None:
                    continue
                g = (fns or {}).get(name)
                if g is None or depth >= 3 or k2 >= len(g["params"]):
                    if kind == "store" or g is None:
                        return None      # handed to code we cannot see: extent unknown
                    continue
                sub = const_extent(g, g["params"][k2]["name"], kind, fns, depth + 1)
                if sub is None:
                    # the helper does not touch it in this way (None is also "not constant": check the other kind to tell)
                    other = const_extent(g, g["params"][k2]["name"], "load" if kind == "store" else "store", fns, depth + 1)
                    if other is None:
                        return None
                    continue
                lo = off + sub[0] if lo is None else min(lo, off + sub[0])
                hi = off + sub[1] if hi is None else max(hi, off + sub[1])
            continue
        if ins["op"] != kind or "scev" not in ins:
            continue
        sc = ins["scev"]
        if ("%" + pname) not in sc:
            continue
        pa = e9.parse_addr(sc)
        if pa is None:
            return None
        st, stride, loop = pa
        if st.get(pname, 0) != 1 or any(v for k, v in st.items() if k not in ("", pname)):
            return None
        a = st.get("", 0)
        b = a
        if loop is not None:
            try:
                n = int(loops.get(loop))
            except (TypeError, ValueError):
                return None
            b = a + n * stride
        l, h = min(a, b), max(a, b) + ins["size"]
        lo = l if lo is None else min(lo, l)
        hi = h if hi is None else max(hi, h)
    return None if lo is None else (lo, hi)


class Hazards:
    def __init__(self, ctx, prog):
        self.ctx, self.prog = ctx, prog
        self.o2 = {}

    def callee_extent(self, g, k, kind):
        if g.decl:
            return None
        if g.unit not in self.o2:
            try:
                self.o2[g.unit] = e9.O2Unit(self.ctx, g.unit)
            except Exception:
                self.o2[g.unit] = None
        u = self.o2[g.unit]
        if u is None or g.name not in u.fns:
            return None
        f = u.fns[g.name]
        if k >= len(f["params"]):
            return None
        return const_extent(f, f["params"][k]["name"], kind, u.fns)

    LEN_NAMES = ("mlen", "clen", "inlen", "len", "adlen", "outlen")

    def length_extent(self, fn, g, k, ops, kind):
        """extent of a (buffer, length) access of a callee whose byte count is an explicit argument: `stream_xor_ic(c, m, mlen, ...)`
        writes c[0..mlen) and reads m[0..mlen), `poly1305_update(st, in, inlen)` reads in[0..inlen). Constant length: exact extent;
        otherwise open-ended from 0."""
        if k >= len(g.params) or g.params[k]["ty"] != "i8*":
            return None
        pname = g.params[k]["name"]
        lens = [j for j, q in enumerate(g.params) if q["name"] in self.LEN_NAMES and q["ty"] in ("i64", "i32")]
        if len(lens) != 1 or pname not in ("c", "m", "in", "out", "ad"):
            return None
        if kind == "store" and pname not in ("c", "out", "m"):
            return None
        if kind == "store" and not (k == 0):
            return None                     # by the library's convention the output comes first
        if kind == "load" and k == 0 and pname in ("c", "out", "m") and any(q["name"] in ("c", "m", "in") for q in g.params[1:]):
            return None                     # first of two buffers: that is the output
        j = lens[0]
        if j >= len(ops):
            return None
        n = ops[j]
        if n[0] == "i":
            return (0, n[1])
        return (0, None)

    def accesses(self, fn, dst, src):
        """[(inst id, 'W'|'R', base frozenset, lo, hi|None, text)]"""
        ln = Lin(fn)
        out = []

        def norm(a, size_lo, size_hi):
            root, const, var = a
            base = {}
            lo = const
            openend = False
            for v, s in var.items():
                if isinstance(v, tuple):
                    base[v] = s            # walking pointer: (loop header, stride)
                    continue
                ins = fn.insts[v]
                if ins["op"] == "phi" and s > 0:
                    # inner counter: starts at a constant (folded into lo), grows upwards
                    inits = [ln.value(o) for o, _b in ins["inc"]]
                    cs = [x[0] for x in inits if x is not None and not x[1]]
                    dep = [x for x in inits if x is not None and x[1] and set(x[1]) != {v}]
                    if cs and not dep and len(cs) == 1 and cs[0] >= 0 and fn.blocks[ins["b"]].get("loopdepth", 0) >= 2:
                        lo += cs[0] * s
                        openend = True
                        continue
                base[v] = s
            return frozenset(base.items()), lo + size_lo, None if (openend or size_hi is None) else lo + size_hi

        for i, ins in enumerate(fn.insts):
            op = ins["op"]
            if op in ("load", "store"):
                a = ln.addr(ins["ops"][0 if op == "load" else 1])
                if a is None:
                    continue
                if a[0] == ("a", dst) and op == "store":
                    out.append((i, "W") + norm(a, 0, ins["size"]) + ("store",))
                elif a[0] == ("a", src) and op == "load":
                    out.append((i, "R") + norm(a, 0, ins["size"]) + ("load",))
            elif op == "call":
                cal = ins.get("callee")
                name = cal[1] if cal and cal[0] == "g" else None
                if not name:
                    continue
                ops = ins.get("ops", [])
                if name.startswith(("llvm.memcpy", "llvm.memmove")):
                    n = ops[2][1] if ops[2][0] == "i" else None
                    for k, kind in ((0, "W"), (1, "R")):
                        a = ln.addr(ops[k])
                        if a and n is not None and a[0] == ("a", dst if kind == "W" else src):
                            out.append((i, kind) + norm(a, 0, n) + (name,))
                    continue
                if name.startswith("llvm."):
                    continue
                r = self.prog.resolve_callee(fn, cal)
                if r[0] != "fn":
                    continue
                g = r[1]
                for k, o in enumerate(ops):
                    if o[0] not in ("v", "a"):
                        continue
                    a = ln.addr(o)
                    if a is None:
                        continue
                    if a[0] == ("a", dst):
                        ex = self.callee_extent(g, k, "store") or self.length_extent(fn, g, k, ops, "store")
                        if ex:
                            out.append((i, "W") + norm(a, ex[0], ex[1]) + (g.sname,))
                    if a[0] == ("a", src):
                        ex = self.callee_extent(g, k, "load") or self.length_extent(fn, g, k, ops, "load")
                        if ex:
                            out.append((i, "R") + norm(a, ex[0], ex[1]) + (g.sname,))
        return out

    def reach(self, fn, w, r, blocked):
        """can instruction w execute before instruction r without passing a blocked block?"""
        bw, br = fn.insts[w]["b"], fn.insts[r]["b"]
        if bw == br and w < r:
            return True
        seen, stack = set(), [s for s in fn.blocks[bw].get("succs", []) if s not in blocked]
        while stack:
            b = stack.pop()
            if b in seen:
                continue
            seen.add(b)
            if b == br:
                return True
            stack.extend(s for s in fn.blocks[b].get("succs", []) if s not in blocked)
        return False

    def hazards(self, fn, dst, src):
        acc = self.accesses(fn, dst, src)
        ws = [a for a in acc if a[1] == "W"]
        rs = [a for a in acc if a[1] == "R"]
        out = []
        for w in ws:
            for r in rs:
                if w[2] != r[2]:
                    continue
                wlo, whi, rlo, rhi = w[3], w[4], r[3], r[4]
                if whi is None or not (rlo < whi and (rhi is None or wlo < rhi)):
                    continue
                blocked = {fn.insts[v]["b"] for v, _s in w[2] if not isinstance(v, tuple) and fn.insts[v]["op"] == "phi"} | \
                    {v[1] for v, _s in w[2] if isinstance(v, tuple)}
                if self.reach(fn, w[0], r[0], blocked):
                    out.append((w, r))
        return acc, out
