"""E9 — byte coverage of scan loops from LLVM's scalar-evolution (add-recurrences + trip counts).

The -O2 IR (no unrolling / vectorisation) of the unit is built from the current tree; irx attaches
to every load its address SCEV and to every loop header the backedge-taken count. For a parameter
p and a length L (another parameter name, or a constant) `coverage()` decides whether the loads
through p cover exactly the byte interval [0, L)."""
import json
import re

from . import build
from .build import AnalysisBroken


def _lin(expr):
    """'(-1 + %len + %b1_)<nuw>' -> {'': -1, 'len': 1, 'b1_': 1}; None if not a plain sum"""
    expr = re.sub(r"<[a-z]+>", "", expr).strip()
    if expr.startswith("(") and expr.endswith(")"):
        expr = expr[1:-1]
    out = {}
    for part in expr.split(" + "):
        part = part.strip()
        m = re.fullmatch(r"(-?\d+)", part)
        if m:
            out[""] = out.get("", 0) + int(m.group(1))
            continue
        m = re.fullmatch(r"%([\w.]+)", part)
        if m:
            out[m.group(1)] = out.get(m.group(1), 0) + 1
            continue
        m = re.fullmatch(r"\((-?\d+) \* %([\w.]+)\)", part)
        if m:
            out[m.group(2)] = out.get(m.group(2), 0) + int(m.group(1))
            continue
        return None
    return out


def parse_addr(scev):
    """-> (start linear dict, stride int, loop name or None) or None"""
    s = scev.strip()
    m = re.fullmatch(r"\{(.*),\+,(-?\d+)\}(?:<[a-z]+>)*<%([\w.]+)>", s)
    if m:
        st = _lin(m.group(1))
        if st is None:
            return None
        return st, int(m.group(2)), m.group(3)
    st = _lin(s)
    if st is None:
        return None
    return st, 0, None


class O2Unit:
    def __init__(self, ctx, unit, opt="O2"):
        cfg = getattr(ctx, "default_config", "native")
        res, _asm, _db = build.build_ir(ctx.wd, config=cfg, opt=opt, only={unit}, tag="%s-%s-%s" % (opt, cfg, unit.replace("/", "_")))
        if unit not in res:
            raise AnalysisBroken("E9: unit %s not built" % unit)
        self.j = json.load(open(res[unit]))
        self.fns = {f["name"]: f for f in self.j["functions"] if not f["decl"]}

    def fn(self, name):
        f = self.fns.get(name)
        if f is None:
            raise AnalysisBroken("E9: function %s vanished from the -O2 IR (inlined away or renamed)" % name)
        return f


def coverage(f, pname, length):
    """(ok, description). length: int constant or parameter name. Loads through parameter `pname`
    must cover exactly [0, length)."""
    loops = {b["name"]: b.get("btc") for b in f["blocks"] if b.get("loophdr")}
    pieces = []     # (lo dict, hi dict) linear over {'' : const, length-name: coeff}
    for ins in f["insts"]:
        if ins["op"] != "load" or "scev" not in ins:
            continue
        pa = parse_addr(ins["scev"])
        if pa is None:
            continue
        st, stride, loop = pa
        if st.get(pname, 0) != 1:
            continue
        st = dict(st)
        del st[pname]
        size = ins["size"]
        if loop is None:
            lo = st
            hi = dict(st)
            hi[""] = hi.get("", 0) + size
            pieces.append((lo, hi))
            continue
        btc = loops.get(loop)
        if btc is None:
            return False, "loop %s has no computable trip count" % loop
        bt = _lin(btc)
        if bt is None:
            return False, "trip count %s is not affine" % btc
        if abs(stride) != size:
            return False, "stride %d != access size %d in loop %s (bytes skipped or re-read)" % (stride, size, loop)
        # addresses start + k*stride, k = 0..btc
        end = dict(st)
        for k, v in bt.items():
            end[k] = end.get(k, 0) + v * stride
        if stride > 0:
            lo, hi = st, dict(end)
        else:
            lo, hi = end, dict(st)
        hi[""] = hi.get("", 0) + size
        pieces.append((lo, hi))
    if not pieces:
        return False, "no load through %s found" % pname

    def norm(d):
        return {k: v for k, v in d.items() if v}
    want_hi = {"": length} if isinstance(length, int) else {length: 1}
    # merge pieces that are constant-offset contiguous
    pieces = [(norm(a), norm(b)) for a, b in pieces]
    cur_lo, cur_hi = None, None
    # sort by constant part of lo
    pieces.sort(key=lambda ab: (sorted(ab[0].items()) != [], ab[0].get("", 0)))
    for lo, hi in pieces:
        if cur_lo is None:
            cur_lo, cur_hi = lo, hi
        elif lo == cur_hi:
            cur_hi = hi
        elif lo == cur_lo and hi == cur_hi:
            continue
        else:
            # allow overlap only for identical pieces
            symb_lo = {k: v for k, v in lo.items() if k}
            symb_hi = {k: v for k, v in cur_hi.items() if k}
            if symb_lo == symb_hi and lo.get("", 0) <= cur_hi.get("", 0):
                if {k: v for k, v in hi.items() if k} == symb_hi and hi.get("", 0) > cur_hi.get("", 0):
                    cur_hi = hi
                continue
            return False, "loads through %s are not contiguous: %s then %s" % (pname, (cur_lo, cur_hi), (lo, hi))
    ok = norm(cur_lo) == {} and norm(cur_hi) == norm(want_hi)
    return ok, "loads through %s cover [%s, %s)" % (pname, fmt(cur_lo), fmt(cur_hi))


def fmt(d):
    if not d:
        return "0"
    parts = []
    for k, v in sorted(d.items()):
        if k == "":
            parts.append(str(v))
        else:
            parts.append(k if v == 1 else "%d*%s" % (v, k))
    return " + ".join(parts)
