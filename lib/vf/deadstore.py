"""E13 — overwritten-before-read stores on peeled paths.

On every path of a function (E1 with the first iteration of each loop peeled, so that the first store of
a fill loop keeps its concrete index) a store S1 to address A followed by a store S2 to the *same address
term* with no possible read of those bytes in between makes S1 dead. In padding / finalisation code every
store is part of the padded block, so a dead one is a lost byte (e.g. the 0x01 terminator of the last
Poly1305 block overwritten by the zero fill that should start one byte later)."""
from . import terms as T
from .build import AnalysisBroken
from .rules import common as cm


def _lo(addr):
    """(root, smallest possible byte offset or None) assuming unsigned index terms"""
    co, k = T.linear(addr)
    r = T.root(addr)
    rest = {a: n for a, n in co.items() if a != r}
    if co.get(r, 0) != 1 or any(n < 0 for n in rest.values()):
        return r, None
    return r, k


def may_read(e, addr, size, prog, p):
    """may event e read the bytes [addr, addr+size)?"""
    r, lo = _lo(addr)
    if e.kind == "load":
        if T.root(e.addr) != r:
            return False
        if e.addr == addr:
            return True
        co, k = T.linear(e.addr)
        if set(co) == {r} and lo is not None and k + e.size <= lo:
            return False            # a constant-offset field entirely below the smallest possible store offset
        co2, k2 = T.linear(addr)
        if set(co) == {r} and set(co2) == {r} and (k + e.size <= k2 or k2 + size <= k):
            return False
        return True
    if e.kind == "call":
        for a in e.args:
            if T.root(a) == r:
                return True
        if r[0] == "g":
            return True
    return False


def dead_stores(prog, fn, max_paths=600):
    """[(first store event, overwriting store event, path)] (one per static pair)"""
    ps = cm.paths(prog, fn, peel=True, max_paths=max_paths)
    out, seen = [], set()
    for p in ps:
        live = {}
        for e in p.events:
            if e.kind == "store":
                prev = live.get(e.addr)
                if prev is not None and prev.size == e.size and (prev.iid, e.iid) not in seen and prev.val != e.val:
                    seen.add((prev.iid, e.iid))
                    out.append((prev, e, p))
                live[e.addr] = e
            elif e.kind in ("load", "call"):
                for a in [a for a, s in live.items() if may_read(e, a, s.size, prog, p)]:
                    del live[a]
            elif e.kind == "loophead":
                live.clear()
    return out, len(ps)


def dead_store_rule(prog, chk, rule, unit_prefixes, floor=10, max_paths=300):
    nf = 0
    skipped = []
    for f in sorted(prog.functions(), key=lambda f: (f.unit, f.name)):
        if f.decl or not f.unit.startswith(tuple(unit_prefixes)):
            continue
        try:
            ds, _np = dead_stores(prog, f, max_paths=max_paths)
        except AnalysisBroken:
            skipped.append(f.sname)
            continue
        nf += 1
        for a, b, p in ds:
            chk.ob(rule, f, "no store is overwritten before it can be read", False, loc=f.loc(a.iid),
                   detail="the store of %s to %s at %s is overwritten at %s (by %s) with no possible read in between: that byte "
                   "never takes part in the computation" % (T.show(a.val, f), T.show(a.addr, f), f.loc(a.iid), f.loc(b.iid),
                                                            T.show(b.val, f)), path=p, key="%s %s dead-store" % (rule, f.sname))
    chk.ob(rule, unit_prefixes[0], "peeled-path scan of %d functions in %s: no overwritten-before-read store" % (nf, ", ".join(unit_prefixes)),
           True, key="%s scan" % rule)
    if skipped:
        chk.note("%s: %d function(s) exceed the peeled path budget and were not scanned: %s" % (rule, len(skipped), ", ".join(skipped[:12])))
    chk.floor(rule, "functions scanned for dead stores", nf, floor)
