"""E1 — path-sensitive abstract interpretation of one function ("PathAI").

Enumerates the paths of a function's SSA CFG (each back edge at most `backedge_limit` times,
loop-header phis havocked), evaluating every SSA value to a symbolic term (terms.py), pruning
branches whose condition is decided by the facts already on the path, and recording an ordered
event list per path: branch facts, calls (resolved callee, argument terms), stores and loads.
Rules (rules/*.py) state obligations over these paths; nothing here executes library code.
"""
from . import terms as T
from .build import AnalysisBroken
from .terms import C, Facts

MEM_INTRINSICS = {"llvm.memcpy": "memcpy", "llvm.memmove": "memmove", "llvm.memset": "memset"}
IGNORED_INTRINSICS = ("llvm.lifetime.", "llvm.dbg.", "llvm.assume", "llvm.experimental.noalias",
                      "llvm.donothing", "llvm.prefetch", "llvm.stacksave", "llvm.stackrestore")

# externals that never write through their pointer arguments
PURE_EXT = {"strlen", "memcmp", "strchr", "strrchr", "bcmp", "strcmp", "strncmp", "getpid",
            "sysconf", "getauxval", "__errno_location", "time", "abort", "raise"}


class Ev:
    __slots__ = ("kind", "iid", "occ", "callee", "args", "res", "addr", "val", "size", "term",
                 "truth", "vol", "idx")

    def __init__(self, kind, iid, occ):
        self.kind = kind
        self.iid = iid
        self.occ = occ
        self.callee = self.args = self.res = self.addr = self.val = self.term = None
        self.size = 0
        self.truth = None
        self.vol = False
        self.idx = -1

    def callee_name(self):
        c = self.callee
        if c is None:
            return None
        if c[0] == "fn":
            return c[1].sname
        if c[0] == "ext":
            return c[1]
        return None

    def __repr__(self):
        if self.kind == "call":
            return "<call %s @%d>" % (self.callee_name() or self.callee[0], self.iid)
        if self.kind == "fact":
            return "<fact %s=%s>" % (T.show(self.term), self.truth)
        return "<%s @%d>" % (self.kind, self.iid)


class Path:
    __slots__ = ("fn", "kind", "ret", "events", "facts", "trace", "env", "end_iid")

    def __init__(self, fn, kind, ret, events, facts, trace, env, end_iid):
        self.fn = fn
        self.kind = kind            # 'ret' | 'noreturn' | 'unreachable'
        self.ret = ret
        self.events = events
        self.facts = facts
        self.trace = trace
        self.env = env
        self.end_iid = end_iid

    # -- convenience for rules ----------------------------------------------
    def calls(self, *names):
        for e in self.events:
            if e.kind == "call" and (not names or e.callee_name() in names):
                yield e

    def stores(self):
        return (e for e in self.events if e.kind == "store")

    def facts_before(self, idx):
        """Facts object containing only the branch facts established before event index idx"""
        f = Facts()
        for e in self.events[:idx]:
            if e.kind == "fact":
                f.add(e.term, e.truth)
        return f

    def ret_zeroness(self):
        if self.kind != "ret" or self.ret is None:
            return None
        return self.facts.zeroness(self.ret)

    def may_return_zero(self):
        return self.kind == "ret" and self.ret is not None and self.ret_zeroness() != "NZ"

    def may_return_nonzero(self):
        return self.kind == "ret" and self.ret is not None and self.ret_zeroness() != "Z"

    def describe(self, maxev=40):
        fn = self.fn
        out = []
        for e in self.events:
            if e.kind == "fact":
                out.append("  [%s] assume %s is %s" % (fn.loc(e.iid), T.show(e.term, fn), e.truth))
            elif e.kind == "call":
                out.append("  [%s] call %s(%s)" % (fn.loc(e.iid), e.callee_name() or e.callee[0],
                                                   ", ".join(T.show(a, fn) for a in e.args)))
            elif e.kind == "store":
                out.append("  [%s] store %s <- %s" % (fn.loc(e.iid), T.show(e.addr, fn), T.show(e.val, fn)))
        if len(out) > maxev:
            out = out[:maxev // 2] + ["  ..."] + out[-maxev // 2:]
        end = "return %s" % T.show(self.ret, fn) if self.kind == "ret" and self.ret is not None else self.kind
        out.append("  [%s] %s" % (fn.loc(self.end_iid), end))
        return out


class PathAI:
    def __init__(self, prog, fn, max_paths=4096, backedge_limit=1, writers=None, record_loads=True,
                 assume=None, unroll=False, peel=False):
        self.prog = prog
        self.fn = fn
        self.max_paths = max_paths
        self.backedge_limit = backedge_limit
        self.writers = writers          # optional callgraph effect summaries
        self.record_loads = record_loads
        self.paths = []
        self.dropped = 0
        self.assume = assume or []      # [(term, truth)] preconditions (e.g. config facts)
        # unroll=True: counted loops whose bounds fold to constants under `assume` are followed
        # iteration by iteration (conditional constant propagation) instead of being havocked
        self.arg_consts = {}
        for t, v in self.assume:
            if v and t[0] == "icmp" and t[1] == "eq" and t[2][0] == "arg" and t[3][0] == "c":
                self.arg_consts[t[2][1]] = t[3]
        self.unroll = unroll
        # peel=True: the first visit of a loop header keeps the initial values of its phis (first iteration concrete);
        # visits through the back edge are havocked as usual
        self.peel = peel
        if unroll and backedge_limit == 1:
            self.backedge_limit = 130
        self._dom_cache = {}
        self._loopw = None

    # ---- dominance -----------------------------------------------------------
    def dominates(self, a, b):
        """block a dominates block b"""
        blocks = self.fn.blocks
        while b != -1:
            if a == b:
                return True
            b = blocks[b]["idom"]
        return False

    def is_backedge(self, u, v):
        k = (u, v)
        r = self._dom_cache.get(k)
        if r is None:
            r = self.dominates(v, u)
            self._dom_cache[k] = r
        return r

    _PURE = ("add", "sub", "mul", "and", "or", "xor", "shl", "lshr", "ashr", "udiv", "urem", "icmp", "zext", "sext",
             "trunc", "bitcast", "ptrtoint", "inttoptr", "getelementptr", "select")

    def _first_test(self, blk, ids, nphi, pred, env, facts):
        """On the first visit of a loop header the generic (havocked) state is analysed, but the
        loop test itself is evaluated once more on the *initial* values: if that decides it, the
        result says which edge the first visit really takes."""
        insts = self.fn.insts
        sh = dict(env)
        for iid in ids[:nphi]:
            t = None
            for v, pb in insts[iid]["inc"]:
                if pb == pred:
                    t = self.val(v, env)
            if t is None:
                return None
            sh[iid] = t
        for iid in ids[nphi:]:
            ins = insts[iid]
            op = ins["op"]
            if op == "br":
                if "cond" not in ins:
                    return None
                tv = facts.truth(self.val(ins["cond"], sh))
                return tv
            if op not in self._PURE:
                return None
            t = self._eval(ins, iid, 0, sh, facts, [], frozenset())
            if t is not None:
                sh[iid] = t
        return None

    # ---- loops: memory written inside a loop is unknown at its head -----------------------
    def loop_written(self):
        """{header block: (set of alloca ids stored to / passed to calls inside the loop, other?)}"""
        if self._loopw is not None:
            return self._loopw
        fn = self.fn
        blocks = fn.blocks
        res = {}
        for h, blk in enumerate(blocks):
            if not blk["loophdr"]:
                continue
            body = {h}
            work = [u for u in blk["preds"] if self.dominates(h, u)]
            while work:
                u = work.pop()
                if u in body:
                    continue
                body.add(u)
                work.extend(blocks[u]["preds"])
            allocas, other = set(), False
            for b in body:
                for iid in blocks[b]["insts"]:
                    ins = fn.insts[iid]
                    if ins["op"] == "store":
                        r = self._static_root(ins["ops"][1])
                        if r is None:
                            other = True
                        else:
                            allocas.add(r)
                    elif ins["op"] == "call":
                        c = ins["callee"]
                        if c[0] == "g" and (c[1].startswith("llvm.dbg") or c[1].startswith("llvm.lifetime")):
                            continue
                        for o in ins["ops"]:
                            r = self._static_root(o)
                            if r is not None:
                                allocas.add(r)
                        other = True
            res[h] = (allocas, other)
        self._loopw = res
        return res

    def _static_root(self, o, depth=0):
        """alloca instruction id an operand is derived from (syntactically), else None"""
        while o[0] == "v" and depth < 32:
            d = self.fn.insts[o[1]]
            if d["op"] == "alloca":
                return o[1]
            if d["op"] in ("getelementptr", "bitcast"):
                o = d["ops"][0]
                depth += 1
                continue
            return None
        return None

    # ---- operand evaluation -----------------------------------------------------
    def val(self, o, env):
        k = o[0]
        if k == "v":
            t = env.get(o[1])
            if t is None:
                return ("undef",)
            return t
        if k == "a":
            if o[1] in self.arg_consts:
                return self.arg_consts[o[1]]
            return ("arg", o[1])
        if k == "i":
            v = o[1]
            if isinstance(v, str):
                v = int(v)
            return C(v, o[2])
        if k == "null":
            return C(0, 64)
        if k == "g":
            return ("g", o[1])
        if k == "undef":
            return ("undef",)
        if k == "ce":
            return self.const_expr(o, env)
        if k == "zero":
            return C(0, 64)
        return ("op", k)

    def const_expr(self, o, env):
        op, ops, ex = o[1], o[2], o[3]
        a = [self.val(x, env) for x in ops]
        if op == "getelementptr":
            vars_ = [(a[i], sc) for i, sc in ex.get("var", [])]
            return T.mk_gep(a[0], ex.get("off", 0), vars_)
        if op in ("bitcast", "ptrtoint", "inttoptr", "addrspacecast"):
            return a[0]
        if op == "icmp":
            return T.mk_icmp(ex["pred"], a[0], a[1])
        if op in ("add", "sub", "mul", "and", "or", "xor", "shl", "lshr", "ashr"):
            return T.mk_bin(op, a[0], a[1], 64)
        return ("op", op) + tuple(a)

    # ---- main loop ---------------------------------------------------------------
    def run(self):
        fn = self.fn
        if fn.decl or not fn.blocks:
            raise AnalysisBroken("PathAI on a declaration: %s" % fn.name)
        facts0 = Facts()
        for t, v in self.assume:
            facts0.add(t, v)
        # state: (block, pred, env, facts, events, occ, backedges, trace, escaped)
        stack = [(0, -1, {}, facts0, [], {}, {}, [], frozenset())]
        insts = fn.insts
        blocks = fn.blocks
        while stack:
            b, pred, env, facts, events, occ, bes, trace, escaped = stack.pop()
            trace = trace + [b]
            blk = blocks[b]
            ids = blk["insts"]
            # phis first (simultaneous)
            newvals = {}
            n = 0
            for iid in ids:
                ins = insts[iid]
                if ins["op"] != "phi":
                    break
                n += 1
                oc = occ.get(iid, 0)
                if blk["loophdr"] and not self.unroll and not (self.peel and pred != -1 and not self.is_backedge(pred, b)):
                    newvals[iid] = ("havoc", iid, oc)
                    for v, pb in ins["inc"]:
                        if pb == pred:
                            # remember what flowed in (data dependence through the loop variable)
                            newvals[("hin", iid, oc)] = self.val(v, env)
                            break
                else:
                    t = None
                    for v, pb in ins["inc"]:
                        if pb == pred:
                            t = self.val(v, env)
                            break
                    if t is None:
                        t = ("havoc", iid, oc)
                    newvals[iid] = t
                occ[iid] = oc + 1
            forced = None
            if blk["loophdr"] and not self.unroll and not self.peel and pred != -1 and not self.is_backedge(pred, b):
                forced = self._first_test(blk, ids, n, pred, env, facts)
            env.update(newvals)
            if blk["loophdr"] and not self.unroll and not (self.peel and pred != -1 and not self.is_backedge(pred, b)):
                be = Ev("loophead", ids[0] if ids else 0, 0)
                be.args = self.loop_written()[b]
                be.idx = len(events)
                events.append(be)
            ended = False
            for iid in ids[n:]:
                ins = insts[iid]
                op = ins["op"]
                oc = occ.get(iid, 0)
                occ[iid] = oc + 1
                if op == "br":
                    succ = ins["succ"]
                    if "cond" in ins:
                        c = self.val(ins["cond"], env)
                        tv = facts.truth(c)
                        outs = []
                        if tv is not False:
                            outs.append((succ[0], True))
                        if tv is not True:
                            outs.append((succ[1], False))
                        if forced is not None and blk["insts"][-1] == iid:
                            # the loop test on entry, evaluated on the initial values, is decided:
                            # the other edge cannot be taken on this first visit
                            outs = [(s_, v_) for s_, v_ in outs if v_ == forced]
                        outs = [(s, v) for s, v in outs
                                if not (self.is_backedge(b, s) and bes.get((b, s), 0) >= self.backedge_limit)]
                        if not outs:
                            self.dropped += 1
                        for k, (s, v) in enumerate(outs):
                            last = k == len(outs) - 1
                            e2 = env if last else dict(env)
                            f2 = facts if last else facts.copy()
                            ev2 = events if last else list(events)
                            o2 = occ if last else dict(occ)
                            if tv is None:
                                f2.add(c, v)
                                fe = Ev("fact", iid, oc)
                                fe.term, fe.truth = c, v
                                fe.idx = len(ev2)
                                ev2.append(fe)
                            b2 = bes
                            if self.is_backedge(b, s):
                                b2 = dict(bes)
                                b2[(b, s)] = b2.get((b, s), 0) + 1
                            stack.append((s, b, e2, f2, ev2, o2, b2, trace, escaped))
                    else:
                        s = succ[0]
                        if self.is_backedge(b, s):
                            if bes.get((b, s), 0) >= self.backedge_limit:
                                self.dropped += 1
                                ended = True
                                break
                            bes = dict(bes)
                            bes[(b, s)] = bes.get((b, s), 0) + 1
                        stack.append((s, b, env, facts, events, occ, bes, trace, escaped))
                    ended = True
                    break
                if op == "switch":
                    c = self.val(ins["cond"], env)
                    bits = T.term_bits(c) or 32
                    taken_any = False
                    default_facts = facts.copy()
                    default_events = list(events)
                    feasible_default = True
                    for cv, s in ins["cases"]:
                        if isinstance(cv, str):
                            cv = int(cv)
                        ct = T.mk_icmp("eq", c, C(cv, bits))
                        tv = facts.truth(ct)
                        if tv is False:
                            continue
                        f2 = facts.copy()
                        ev2 = list(events)
                        if tv is None:
                            f2.add(ct, True)
                            fe = Ev("fact", iid, oc)
                            fe.term, fe.truth = ct, True
                            fe.idx = len(ev2)
                            ev2.append(fe)
                            default_facts.add(ct, False)
                            fe = Ev("fact", iid, oc)
                            fe.term, fe.truth = ct, False
                            fe.idx = len(default_events)
                            default_events.append(fe)
                        stack.append((s, b, dict(env), f2, ev2, dict(occ), bes, trace, escaped))
                        if tv is True:
                            feasible_default = False
                            break
                    if feasible_default:
                        stack.append((ins["default"], b, dict(env), default_facts, default_events,
                                      dict(occ), bes, trace, escaped))
                    ended = True
                    break
                if op == "ret":
                    r = self.val(ins["ops"][0], env) if ins.get("ops") else None
                    self._finish("ret", r, events, facts, trace, env, iid)
                    ended = True
                    break
                if op == "unreachable":
                    self._finish("unreachable", None, events, facts, trace, env, iid)
                    ended = True
                    break
                if op == "call" or op == "invoke":
                    stop, escaped = self._call(ins, iid, oc, env, facts, events, escaped)
                    if stop:
                        self._finish("noreturn", None, events, facts, trace, env, iid)
                        ended = True
                        break
                    continue
                t = self._eval(ins, iid, oc, env, facts, events, escaped)
                if op == "store":
                    vt = self.val(ins["ops"][0], env)
                    r = T.root(vt)
                    if r[0] == "alloca":
                        escaped = escaped | {r}
                if t is not None:
                    env[iid] = t
            if not ended:
                raise AnalysisBroken("block without terminator in %s" % fn.name)
            if len(self.paths) + len(stack) > self.max_paths:
                raise AnalysisBroken("path budget exceeded in %s (> %d paths)" % (fn.name, self.max_paths))
        if not self.paths:
            raise AnalysisBroken("no complete path in %s" % fn.name)
        return self.paths

    def _finish(self, kind, ret, events, facts, trace, env, iid):
        for i, e in enumerate(events):
            e.idx = i
        self.paths.append(Path(self.fn, kind, ret, events, facts, trace, env, iid))

    # ---- instructions ----------------------------------------------------------------
    def _eval(self, ins, iid, oc, env, facts, events, escaped):
        op = ins["op"]
        ops = ins.get("ops", ())
        if op in ("add", "sub", "mul", "and", "or", "xor", "shl", "lshr", "ashr", "udiv", "urem",
                  "sdiv", "srem"):
            bits = T.bits_of(ins["ty"])
            if not bits:
                return ("op", op, self.val(ops[0], env), self.val(ops[1], env))
            return T.mk_bin(op, self.val(ops[0], env), self.val(ops[1], env), bits)
        if op == "icmp":
            return T.mk_icmp(ins["pred"], self.val(ops[0], env), self.val(ops[1], env))
        if op in ("zext", "sext", "trunc"):
            bits = T.bits_of(ins["ty"])
            if not bits:
                return ("op", op, self.val(ops[0], env))
            return T.mk_cast(op, self.val(ops[0], env), bits, ins.get("srcbits", 0))
        if op in ("bitcast", "ptrtoint", "inttoptr", "addrspacecast", "freeze"):
            return self.val(ops[0], env)
        if op == "getelementptr":
            a = [self.val(x, env) for x in ops]
            return T.mk_gep(a[0], ins["off"], [(a[i], sc) for i, sc in ins["var"]])
        if op == "select":
            c = self.val(ops[0], env)
            tv = facts.truth(c)
            if tv is True:
                return self.val(ops[1], env)
            if tv is False:
                return self.val(ops[2], env)
            return T.mk_select(c, self.val(ops[1], env), self.val(ops[2], env))
        if op == "alloca":
            return ("alloca", iid)
        if op == "load":
            return self._load(ins, iid, oc, env, events, escaped)
        if op == "store":
            e = Ev("store", iid, oc)
            e.val = self.val(ops[0], env)
            e.addr = self.val(ops[1], env)
            e.size = ins["size"]
            e.vol = bool(ins.get("vol"))
            e.idx = len(events)
            events.append(e)
            return None
        if op in ("fence",):
            return None
        if op == "extractvalue":
            return ("op", "extractvalue", self.val(ops[0], env), ("c", ins["idx"][0], 32))
        # vector / fp / atomic / anything else: opaque but dependence-preserving
        return ("op", op) + tuple(self.val(x, env) for x in ops)

    def _may_write(self, e, r, escaped, off=None, size=0):
        """may call event e write bytes [off, off+size) of the object rooted at r?"""
        c = e.callee
        name = e.callee_name()
        if c[0] == "ext":
            if name in PURE_EXT:
                return False
            if name and name.startswith("llvm.") and name not in ("memcpy", "memmove", "memset"):
                return False
        if c[0] == "asm":
            from . import asmfx
            fx = asmfx.parse(c[1], self.fn.insts[e.iid]["callee"][2])
            if not fx["opaque"]:
                return any(i < len(e.args) and T.root(e.args[i]) == r for i in fx["writes"])
        targets = None
        if c[0] == "fn":
            targets = [c[1]]
        elif c[0] == "ind" and self.writers is not None:
            tg, complete = self.writers.resolve_indirect(self.fn, self.fn.insts[e.iid])
            if complete:
                targets = tg
        direct = False     # may the callee reach the object through one of its arguments?
        for i, a in enumerate(e.args):
            ra, aoff = _parts(a)
            if ra != r:
                continue
            if targets is None or self.writers is None:
                if c[0] == "ext":
                    from .callgraph import ext_writes
                    w = ext_writes(name)
                    if w is not None and i not in w:
                        continue
                return True
            for t in targets:
                for lo, hi in self.writers.ranges().writes(t, i):
                    if off is None or aoff is None or hi >= (1 << 59):
                        return True
                    if aoff + lo < off + size and off < aoff + hi:
                        return True
        if r[0] == "alloca":
            if r in escaped:
                # reachable through memory the callee may know about
                if targets is not None and self.writers is not None:
                    return any(self.writers.writes_unknown(t) for t in targets)
                return c[0] != "ext" or name not in PURE_EXT
            return False
        if r[0] == "g":
            if targets is not None and self.writers is not None:
                gk = self.writers.gkey(self.fn.unit, r[1])
                return any(self.writers.may_write_global(t, gk) for t in targets)
            return c[0] != "ext"
        # parameter-rooted or unknown memory: any callee that writes through unknown pointers or
        # through pointer arguments that may alias it
        if targets is not None and self.writers is not None:
            for t in targets:
                if self.writers.writes_unknown(t):
                    return True
                wp = self.writers.writes_params(t)
                for i, a in enumerate(e.args):
                    if i in wp:
                        ra = T.root(a)
                        if ra[0] not in ("alloca", "g") and ra != r:
                            return True     # another unknown pointer may alias r
            return False
        if c[0] == "ext":
            from .callgraph import ext_writes
            w = ext_writes(name)
            if w is None:
                return True
            return any(i < len(e.args) and T.root(e.args[i])[0] not in ("alloca", "g") for i in w)
        return True

    def _fresh(self, r):
        if r[0] != "call":
            return False
        c = self.fn.insts[r[1]].get("callee")
        return bool(c) and c[0] == "g" and c[1] in ("malloc", "calloc", "mmap", "aligned_alloc", "__errno_location")

    def _load(self, ins, iid, oc, env, events, escaped):
        addr = self.val(ins["ops"][0], env)
        size = ins["size"]
        r, off = _parts(addr)
        res = None
        # a volatile access must be performed, but a local whose address never escapes still holds
        # the last value stored to it
        if not ins.get("vol") or (r[0] == "alloca" and r not in escaped):
            for e in reversed(events):
                if e.kind == "store":
                    if e.addr == addr and e.size == size:
                        res = e.val
                        break
                    er, eoff = _parts(e.addr)
                    if er == r:
                        if eoff is not None and off is not None and \
                                (eoff + e.size <= off or off + size <= eoff):
                            continue        # disjoint constant ranges of one object
                        break
                    # different roots: distinct named objects never alias; an unescaped local is
                    # not reachable through any other pointer; a fresh heap block is a new object
                    if er[0] in ("alloca", "g") and r[0] in ("alloca", "g"):
                        continue
                    if self._fresh(er) or self._fresh(r):
                        continue
                    if (er[0] == "alloca" and er not in escaped) or (r[0] == "alloca" and r not in escaped):
                        continue
                    break
                elif e.kind == "load":
                    if e.addr == addr and e.size == size and (not e.vol or (r[0] == "alloca" and r not in escaped)):
                        res = e.res
                        break
                elif e.kind == "call":
                    if self._may_write(e, r, escaped, off, size):
                        break
                elif e.kind == "loophead":
                    allocas, other = e.args
                    if r[0] == "alloca":
                        if r[1] in allocas or (other and r in escaped):
                            break
                    elif other or allocas:
                        if r[0] != "g" or other:
                            break
        if res is None:
            res = ("load", iid, oc)
        if self.record_loads:
            e = Ev("load", iid, oc)
            e.addr, e.size, e.res = addr, size, res
            e.vol = bool(ins.get("vol"))
            e.idx = len(events)
            events.append(e)
        return res

    def _call(self, ins, iid, oc, env, facts, events, escaped):
        fn = self.fn
        callee = self.prog.resolve_callee(fn, ins["callee"])
        args = [self.val(x, env) for x in ins["ops"]]
        noret = bool(ins.get("noreturn"))
        if callee[0] == "ext":
            name = callee[1]
            for p in IGNORED_INTRINSICS:
                if name.startswith(p):
                    return False, escaped
            for p, short in MEM_INTRINSICS.items():
                if name.startswith(p):
                    callee = ("ext", short)
                    args = args[:3]
                    break
            decl = self.prog.modules[fn.unit].functions.get(name)
            if decl is not None and decl.noreturn:
                noret = True
        elif callee[0] == "fn":
            if callee[1].noreturn:
                noret = True
        elif callee[0] == "ind":
            callee = ("ind", self.val(callee[1], env))
        e = Ev("call", iid, oc)
        e.callee = callee
        e.args = args
        if callee[0] == "asm":
            e.res = ("call", iid, oc)
        elif ins["ty"] != "void":
            e.res = ("call", iid, oc)
        e.idx = len(events)
        events.append(e)
        for a in args:
            r = T.root(a)
            if r[0] == "alloca" and callee[0] != "ext":
                pass
        if e.res is not None:
            env[iid] = e.res
        return noret, escaped


def _parts(addr):
    """(root object, constant byte offset or None)"""
    if addr[0] == "gep":
        base = addr[1]
        if base[0] in ("alloca", "g", "arg", "call", "load", "havoc"):
            return base, (None if addr[3] else addr[2])
        return T.root(base), None
    if addr[0] in ("alloca", "g", "arg", "call", "load", "havoc"):
        return addr, 0
    return T.root(addr), None


_cache = {}


def paths_of(prog, fn, **kw):
    key = (id(prog), fn.key, tuple(sorted((k, str(v)) for k, v in kw.items() if k != "writers")))
    r = _cache.get(key)
    if r is None:
        ai = PathAI(prog, fn, **kw)
        r = ai.run()
        _cache[key] = r
    return r
