"""Effects of GCC-style inline asm blocks (AT&T syntax, as clang prints them in LLVM IR).

parse(text, constraints) -> dict(writes={arg idx}, reads={arg idx: [(lo,hi)]}, cond_jump=bool,
                                 mnemonics=[...], nargs=int, opaque=bool)
Operands $N / ${N:mod} are numbered outputs first, then inputs; call arguments are the inputs
(plus indirect outputs). The destination is the last operand (AT&T)."""
import re

_NOWRITE = ("cmp", "test", "bt")
_SIZE = {"q": 8, "l": 4, "w": 2, "b": 1}
_JCC = re.compile(r"^(j[a-z]+|loop[a-z]*|call|ret)$")


def _constraints(cons):
    outs, ins, arg_of_operand = [], [], {}
    items = [c for c in cons.split(",") if not c.startswith("~")]
    argi = 0
    for k, c in enumerate(items):
        if c.startswith("="):
            if "*" in c:
                arg_of_operand[k] = argi
                argi += 1
            continue
        arg_of_operand[k] = argi
        argi += 1
    return items, arg_of_operand, argi, "~{memory}" in cons


def parse(text, cons):
    items, argmap, nargs, memclob = _constraints(cons)
    writes, reads = set(), {}
    mnems = []
    cond = False
    opaque = False
    for raw in re.split(r"[\n;]", text):
        line = raw.strip()
        if not line:
            continue
        if line.startswith("."):
            opaque = opaque or line.startswith(".byte")
            mnems.append(line.split()[0])
            continue
        parts = line.split(None, 1)
        mn = parts[0].lower()
        mnems.append(mn)
        if _JCC.match(mn) and mn != "jmp":
            cond = True
        ops = [o.strip() for o in parts[1].split(",")] if len(parts) > 1 else []
        # re-join operands split inside parentheses (none in this code base use index,scale)
        size = _SIZE.get(mn[-1], None)
        for k, o in enumerate(ops):
            m = re.match(r"^(-?\d*)\(\$\{?(\d+)(?::\w)?\}?\)$", o)
            if not m:
                continue
            off = int(m.group(1)) if m.group(1) not in ("", "-") else 0
            opn = int(m.group(2))
            ai = argmap.get(opn)
            if ai is None:
                # tied input ("0".."9") or unknown: cannot attribute
                opaque = True
                continue
            is_dst = (k == len(ops) - 1) and not mn.startswith(_NOWRITE)
            rng = (off, off + size) if size else None
            if is_dst:
                writes.add(ai)
                # read-modify-write for everything but plain moves
                if not mn.startswith("mov"):
                    reads.setdefault(ai, []).append(rng)
            else:
                reads.setdefault(ai, []).append(rng)
    return {"writes": writes, "reads": reads, "cond_jump": cond, "mnemonics": mnems, "nargs": nargs,
            "opaque": opaque, "memclobber": memclob}
