"""Single source for MANIFEST.json (tools/gen_manifest.py)."""
CHECKS = {
    "C02": {
        "engine": "PathAI (E1)",
        "technique": "path-sensitive static analysis (must-pass-through / typestate over LLVM IR paths)",
        "text": "Static, for all inputs: every success exit of every public open/decrypt/verify/pull entry point and of every "
                "function it delegates to (incl. all dispatch-slot targets) is reached only after a full-length constant-time "
                "comparison of the recomputed tag with the caller's tag returned 0; shortened lengths cannot wrap; on every failing "
                "exit the reported length is 0 and every data-dependent output write is followed by a constant fill. This decides the "
                "control/data-flow clauses of C02, not the MAC arithmetic (that a changed bit changes the tag).",
    },
}
_PENDING = "check not built yet in this round (design in DESIGN.md §4); no claim is made"
NOT_APPLICABLE = {
    "C01": "every clause is an equality between computed byte strings and a mathematical specification over all keys/nonces/lengths/backends: "
           "functional equivalence of SIMD/limb arithmetic needs a prover or symbolic execution, not static analysis (DESIGN §4 C01)",
}
for _p in ("C03 C04 C05 C06 C07 C08 C09 C10 C11 C12 C13 C14 C15 C16 C17 C18 C19 C20").split():
    if _p not in CHECKS:
        NOT_APPLICABLE[_p] = _PENDING
