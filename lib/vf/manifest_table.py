"""Single source for MANIFEST.json (tools/gen_manifest.py)."""
CHECKS = {
    "C02": {
        "engine": "PathAI (E1) + dead-store analysis on peeled paths (E13)",
        "technique": "path-sensitive static analysis (must-pass-through / typestate over LLVM IR paths) + overwritten-before-read store analysis",
        "text": "Static, for all inputs: every success exit of every public open/decrypt/verify/pull entry point and of every "
                "function it delegates to (incl. all dispatch-slot targets) is reached only after a full-length constant-time "
                "comparison of the recomputed tag with the caller's tag returned 0; shortened lengths cannot wrap; on every failing "
                "exit the reported length is 0 and every data-dependent output write is followed by a constant fill; in the one-time-authenticator "
                "units no padding store is overwritten before it can be read (R2.7, peeled paths: the 0x01 terminator of the last Poly1305 block). This decides the "
                "control/data-flow clauses of C02, not the MAC arithmetic (that a changed bit changes the tag).",
    },
    "C03": {
        "engine": "PathAI (E1) + call graph (E2) + SSA dependence cones (E6b)",
        "technique": "must-pass-through analysis of the misuse guard + who-may-call on the unguarded entry points + data/control "
                     "dependence analysis of the 64-bit block counter words in every stream backend",
        "text": "Static, for all (ic, length): every path of crypto_stream_chacha20_ietf_xor_ic to the backend crosses a guard whose condition "
                "depends on both ic and mlen and whose refusing arm cannot return (sodium_misuse); the counter-0 IETF forms reach the backend "
                "only with length <= the header MESSAGEBYTES_MAX; the unguarded extended-counter functions are called only from these and "
                "from XChaCha20-Poly1305; the guard threshold is bound to the counter it protects (R3.1-bind). Carry of the 64-bit block counter "
                "(R3.2): in every compiled ChaCha20 / Salsa20 backend (counter words read from the backend's own ivsetup) each write-back of "
                "the high counter word depends - by data or control - on the low word, and no vector operation mixes a value derived from "
                "the high word alone into the cipher state (lanes are consecutive blocks). No lost block (R3.3): on every returning path of every "
                "stream backend, data written into a local bounce buffer is read again before the return; batches are independent (R3.6: no value "
                "produced by the rounds of one batch is carried around a multi-block loop into the next); no carry in the stream units is "
                "identically zero (R3.4) and the byte-wise counters of the portable Salsa20 family carry continuously (R3.5). Keystream bytes, the per-lane arithmetic, offset "
                "equivalence, the byte-wise counter of the portable Salsa20 reference and the arithmetic of the guard threshold are not decided.",
    },
    "C04": {
        "engine": "PathAI (E1) + known-bits (E12)",
        "technique": "interval analysis from branch facts vs header constants; checklist path analysis of MAC verification; "
                     "known-zero-bits abstract interpretation of the limb arithmetic",
        "text": "Static, for all inputs: every success exit and every hand-over to the BLAKE2b/HMAC core of the generic-hash, BLAKE2b, KDF and "
                "HKDF entry points has its output/key/subkey lengths inside the public header limits (R4.1); each MAC verify function returns 0 "
                "only after recomputing the tag over the caller's (in, inlen, k) and a full-length constant-time comparison with the caller's "
                "tag, incl. every dispatch target of the generic front ends (R4.2); in the Poly1305 units no right shift / mask of a non-literal "
                "value is identically zero (R4.4, known-bits: a limb masked to k bits before `>> k` reads its carry cuts the carry chain and "
                "makes the final reduction dead), and branch-free selects choose between a value and the value computed from it (R4.5); no store in the hash / MAC / KDF units is "
                "overwritten before it can be read (R4.6, peeled paths); the BLAKE2b KDF hands (key, salt = LE64(subkey_id) || 0^8, personal = the "
                "caller's 8 context bytes copied verbatim || 0^8, outlen = subkey_len, empty message) to the keyed hash (R4.7). Digest values, chunking associativity, the values of the Poly1305 carries and HKDF chaining "
                "are not decided.",
    },
    "C05": {
        "engine": "PathAI (E1) + scalar-evolution byte coverage (E9) + sibling cross-check",
        "technique": "path-sensitive must-check analysis over all dispatch targets + loop add-recurrence / exact trip-count coverage + "
                     "per-mode byte-provenance of the key-exchange outputs cross-checked between client and server + read-before-write ordering",
        "text": "Static, for all inputs and every ladder the dispatch slot can hold: crypto_scalarmult_curve25519 reports success only if the "
                "ladder returned 0 and the status is computed from an accumulator over exactly bytes [0, 32) of the output with no early exit "
                "(the only failure report for the assembly ladder) (R5.1). Key exchange (R5.2): for every NULL / non-NULL combination of (rx, tx) "
                "both session-key functions either fail with nothing written or hash exactly (q, client_pk, server_pk) with q = X25519(own sk, "
                "peer pk) into 64 bytes, fill each supplied buffer from one half, and the halves are crossed (client rx = server tx, client tx = "
                "server rx) in every mode against every mode - this reports the genuine defect F4 (single-key mode returns the wrong half; "
                "listed in known_findings.txt). In-place calls (R5.3): every ladder entry reads scalar and point completely before the first "
                "write through the output; clamping and the ignored bit 255 by bit-flow (R5.4); `(hi << k) | lo` packings in the X25519 units have "
                "provably bit-disjoint operands, so the loosely reduced ladder output is repacked with `+` (R5.5). RFC 7748 values, the ladder "
                "arithmetic and hash values are not decided.",
    },
    "C06": {
        "engine": "PathAI (E1) + call-graph effects (E2)",
        "technique": "path-sensitive checklist analysis of the verifier + call-graph reachability / global-effect analysis of signing",
        "text": "Static, for all inputs: the Ed25519 verifier can return 0 only on paths where S is canonical, A is canonical, decodes and is not "
                "of small order, R decodes and is not of small order, and the result is the small-order test of p3_sub(R, [h]A+[S]B) with "
                "h = SHA-512(R,A,M) reduced; all public verify/open wrappers inherit it and zero their outputs on failure; signing and seeded "
                "key generation reach no randomness/time source and no mutable global (deterministic), and nothing reachable from the verification "
                "entry points writes or reads mutable process-global state either (R6.2-g: the verdict is a function of its arguments alone). RFC 8032 values and group/scalar "
                "arithmetic are not decided.",
    },
    "C07": {
        "engine": "PathAI (E1) + dependence (E6) + bit-flow (E11)",
        "technique": "path-sensitive checklist analysis + data-dependence slice of predicate results on point coordinates + "
                     "bit-mask taint of every input bit of the canonical-form predicates on the -O2 IR",
        "text": "Static, for all inputs: every success/accepting exit of the Ed25519/Ristretto255 point APIs holds the necessary "
                "decode/canonical/small-order/main-subgroup checks on the right operands (R7.1); scalar multiplications succeed only after "
                "the identity test on the encoded result (R7.2); the subgroup/small-order/on-curve predicates' results depend on every "
                "coordinate they must read (R7.3; reports the genuine defect F1, listed in known_findings.txt); every hash-to-group path "
                "clears the cofactor before encoding and the raw Elligator map is only reachable from such functions (R7.4); the inversion guard "
                "covers the inverted denominator (R7.5); ge25519_is_canonical's verdict cannot depend on bit 255 (the sign of x) and can depend on "
                "each of the other 255 bits, ristretto255_is_canonical, sc25519_is_canonical and the point decoders on all 256 (R7.6); the scalar "
                "arithmetic APIs hand out results whose last writer reduces modulo L (R7.7); no carry in the field / scalar / X25519 limb code is "
                "identically zero (R7.8, known-bits, one confirmed exception); expand_message_xmd hashes the same, unmodified DST_prime bytes into b_0 "
                "and every later block (R7.10 - reports the genuine defect F6 for contexts longer than 255 bytes, listed in known_findings.txt) and "
                "replaces the tag exactly for contexts longer than 255 bytes (R7.11); cmov/cswap-style selects choose between the two values they mix "
                "(R7.9). Field/scalar "
                "arithmetic exactness and RFC vectors are not decided.",
    },
    "C08": {
        "engine": "PathAI (E1) + sibling agreement (E7)",
        "technique": "interval analysis from branch facts vs header constants; tri-state / decode-before-answer path analysis",
        "text": "Static, for all inputs: at every call into an Argon2/scrypt core and at every success exit of the raw and string APIs each "
                "limited parameter lies within the [MIN, MAX] constants folded from sodium.h (Argon2: outlen, passwdlen, opslimit, memlimit; "
                "scrypt: outlen, passwdlen - its cost parameters are mapped, not limited, by design); generic dispatchers only forward arguments to limit-checked "
                "functions; both low-level scrypt backends establish N power of two in [2,2^32-1], r,p != 0, r*p < 2^30 and agree on all "
                "guards; needs_rehash returns exactly -1/0/1, answers 0/1 only after successful decoding, 0 only with an equality fact per "
                "compared parameter, and - for Argon2 strings - only if the decoded parameters passed argon2_validate_inputs() (R8.2-valid); before decoding, needs_rehash "
                "answers -1 only for a requested opslimit / memlimit above the documented maximum, an over-long string or a failed allocation "
                "(R8.2-refuse); the Argon2 block-fill backends agree on their scalar control skeleton (R8.5); the SIMD "
                "Argon2 address generators hand a freshly zero-filled block to the in-place compression function at every use (R8.4); parsed "
                "decimals are narrowed only after they were shown to fit (R8.3). Hash outputs and the rest of the string grammar are not decided.",
    },
    "C09": {
        "engine": "PathAI (E1) + sibling agreement (E7)",
        "technique": "typestate/effect analysis on IR paths + role-normalised effect-signature comparison of push/pull",
        "text": "Static, for all inputs and states: a failing pull performs no write through the state and every state/plaintext write is "
                "preceded by the passed 16-byte MAC comparison (R9.1); push and pull have identical post-MAC state-update signatures incl. "
                "the rekey condition on the REKEY bit and on the wrapped counter, the same Poly1305 transcript, and init_push/init_pull "
                "agree (R9.2); a rekey after a chunk is preceded by the counter increment, also when the common tail lives in a static "
                "helper (R9.2-order; small same-file helpers are inlined before the path analysis); short input refused, *mlen_p = 0 on failure (R9.3). Whole-history delivery/ordering is not decided.",
    },
    "C10": {
        "engine": "ISA-feature / dispatch consistency (E4) + PathAI (E1) + call graph (E2) + known-bits (E12)",
        "technique": "effect analysis of compiler target-features against the runtime-feature guards of every backend selection site",
        "text": "Static, for every CPU-feature subset: each backend function or vtable is selected (stored into a dispatch slot or called "
                "through a conditionally chosen symbol) only under sodium_runtime_has_* tests whose compiler-reported feature closure "
                "covers everything the selected code transitively requires; direct calls into higher-ISA code are guarded; every vtable "
                "slot that is called is non-NULL wherever it can be read; public ISA-specific functions exist only in the AES-NI AES-GCM "
                "unit, whose is_available is exactly the conjunction of the flags its code needs; has_avx/avx2/avx512f are set only under "
                "the CPUID bit test, the XGETBV OS-state test and the next-lower flag; in the limb code of every alternative backend no carry is "
                "identically zero and no branch-free select mixes unrelated values (R10.4: the defect shapes that make one backend differ from "
                "its siblings only for inputs of probability ~2^-128); the four Argon2 block-fill backends have the same role-normalised scalar "
                "control skeleton - every branch condition and every reference-lane / index computation agrees (R10.5, sibling agreement). "
                "These are necessary conditions; byte-identity of "
                "results across backends/configurations is NOT decided.",
    },
    "C11": {
        "engine": "secret-taint analysis (E3)",
        "technique": "interprocedural summary-based taint analysis on SSA IR with byte-range-sensitive memory objects",
        "text": "Static, at LLVM-IR level for clang-14, for all secret values: starting from the secret parameters of 74 operations (comparison "
                "helpers, X25519, Ed25519 key generation / signing, Edwards/Ristretto scalar multiplication and scalar arithmetic, ChaCha20/"
                "Salsa20/Poly1305/SHA-2/HMAC/BLAKE2b/SipHash primitives and AEADs built on them, AES-NI AES-GCM encryption, hex/Base64 "
                "encoding, unpadding) and 7 multi-part API sequences, through every C backend a dispatch slot can select (one consistent "
                "combination at a time), no branch/switch condition, load/store address component, memcpy/memset length, variable-time "
                "libc call or asm conditional jump depends on a secret; status results named by the property are declassified at their "
                "producing call (the all-zero test only inside the four scalar multiplications whose error status it is). The thorough tier repeats this on the portable configuration (no asm/SIMD/128-bit integers). Machine-code "
                "effects of instruction selection and the assembly units are NOT decided.",
        "note": "Two documented variable-time functions are positive controls on every run.",
    },
    "C12": {
        "engine": "PathAI (E1, intervals with backward refinement) + alignment contract (E5)",
        "technique": "interval analysis with call-graph delegation for documented length limits; alignment-contract analysis of vector accesses; "
                     "minimum-length guard analysis against path-wise fixed-extent read summaries",
        "text": "Static, for all lengths: in every family with a reachable documented MESSAGEBYTES_MAX a message/ciphertext length above the "
                "limit cannot reach a successful, output-producing return (directly or through every callee / dispatch target the length is "
                "handed to) - this found the genuine defect F3 (IETF xor_ic guard wraps), repaired by a fix: commit; no vector-aligned "
                "access goes through a pointer derived from a byte-pointer parameter unless every caller passes suitably aligned local / "
                "global storage (loop-carried pointers followed with stride congruence); decoder stores/loads are capacity-dominated "
                "(shared with C15); wherever a function with a (buffer, length) parameter pair reads a constant extent of the buffer (a load at a "
                "constant offset, or a callee reading a fixed number of bytes from buffer + k on every path) the branch facts establish "
                "length >= that extent, and a remainder (buffer + k, length - d) handed on cannot wrap or overrun (R12.4: truncated-input "
                "guards of seal_open / sign_open / secretstream pull / secretbox / AEAD combined modes); no fixed-size read at buffer + (length - r) "
                "with r bounded below the read size by the branch facts (R12.5: whole-word loads at the tail of a word loop); allocation requests "
                "driven by cost parameters fail closed (R12.6: the allocation typestate of C20 over the password-hashing call graph). General absence of out-of-bounds "
                "accesses and arithmetic UB is NOT decided.",
    },
    "C13": {
        "engine": "PathAI (E1) + sibling agreement (E7) + read-after-write hazard analysis (E8) with scalar-evolution extents (E9)",
        "technique": "path-sensitive analysis of overlap normalisation before the first output write; symbolic-offset read-after-write "
                     "hazard analysis of the in-place cores",
        "text": "Static, for all pointer/length combinations: in the four overlap-tolerant detached secretbox functions (the easy and box "
                "forms only delegate to them) the first write through the output is preceded on every path by memmove(out, in, len) with the "
                "input pointer rebound, or by facts excluding both overlap directions; signing moves the message with memmove before any "
                "other write to sm and opening writes m only with memmove / constant fill (R13.1); in the AES-GCM generic encrypt / decrypt loops "
                "their block helpers and the AEGIS-128L / AEGIS-256 block functions no read through the input pointer can follow, within one generation of the loop index, a write through "
                "the output pointer to an overlapping byte range (R13.2; helper extents from scalar evolution) - with in == out such a read sees "
                "the function's own output. Equality of outputs for every overlap offset, the assembly cores and accesses that cannot be put in "
                "linear form are not decided.",
    },
    "C14": {
        "engine": "scalar-evolution byte coverage (E9) + PathAI (E1, conditional constant propagation)",
        "technique": "loop add-recurrence / trip-count coverage; constant-bound unrolling with data-dependence slice",
        "text": "Static, for every length: sodium_memcmp / sodium_is_zero / sodium_compare read exactly [0, len) of each operand with unit "
                "stride and an exact trip count (no early exit), crypto_verify_16/32/64 results depend on exactly bytes [0, N) of both operands "
                "(SSE2 body; byte-wise body in the thorough/portable tier), and sodium_memzero / sodium_stackzero hand exactly the requested "
                "(pointer, length) to a non-elidable wipe; no carry of the C bodies of sodium_increment / add / sub / compare is identically zero "
                "(R14.4, known-bits), the loop-carried carry of each is recomputed from its previous value (R14.5), and in the amd64 inline assembly "
                "every adc / sbb is fed by a carry-producing instruction with only CF-preserving instructions in between (R14.6: `inc; adc` "
                "loses the carry). The ordering value of sodium_compare and the values of the carries of increment/add/sub are not decided.",
    },
    "C15": {
        "engine": "PathAI (E1)",
        "technique": "path-sensitive bounds-fact analysis of every output store / input load in the decoders",
        "text": "Static, for all inputs: every store through the decoders' output is at an index for which index < capacity holds on the "
                "path, every load of the encoded text is below its stated length, capacity exhaustion can only end in a failing return "
                "(never a truncated success), and success without an end pointer requires position == length; sodium_base642bin reports success "
                "only on a path holding W <= 4 and (accumulator & ((1 << W) - 1)) == 0 for the same leftover bit count W (R15.2: all trailing "
                "bits were compared with zero); no sign-extended text byte reaches a classification helper (R15.3 - this found the genuine defect "
                "F7: bytes >= 0x80 accepted as the Base64 digit 63; repaired by a fix: commit); sodium_hex2bin skips an ignored character only "
                "while no high nibble is pending (R15.4). The rest of the accepted language, round-trip and encoder length formulas are not decided.",
    },
    "C16": {
        "engine": "PathAI (E1) + affine evaluation + bit-flow (E11)",
        "technique": "path-sensitive guard-before-write analysis + affine address evaluation + bit-mask taint of the position comparison",
        "text": "Static, for all inputs: sodium_pad writes nothing on any failing path and every write is preceded by blocksize != 0, the "
                "overflow test and marker-index < max_buflen (reported length = that index + 1); every sodium_unpad load is at "
                "buf + padded_buflen - 1 - i with i < blocksize after padded_buflen >= blocksize > 0, i.e. inside the final block; every bit "
                "(0..47) of the constant-time position comparison (i ^ xpadlen) can influence the stored padding bytes (R16.3: a comparison "
                "narrowed to 32 bits treats positions that differ only above bit 31 as equal); each of the 8 bits of the byte scanned by "
                "sodium_unpad can influence the verdict accumulator within its own iteration (R16.4: the marker test is byte == 0x80, not a "
                "test of bit 7). Marker position, round-trip and the rejection "
                "set are not decided.",
    },
    "C17": {
        "engine": "PathAI (E1) + affine layout evaluation (E10)",
        "technique": "affine-relation evaluation of pointer/size arithmetic + path ordering / dominance analysis",
        "text": "Static, for every requested size: in _sodium_malloc user_ptr + size equals base + 2*page + R(16+size), exactly that page is made "
                "inaccessible, the 16-byte canary sits at user_ptr - 16 and the mapping is 3*page + R(16+size) bytes, all before the pointer is "
                "returned; sodium_malloc fills with a non-zero constant; _free_aligned is reached only after the canary comparison returned 0 "
                "and the mismatch arm cannot return; oversize and count*size overflow guards dominate the arithmetic and fail with ENOMEM/NULL, and the "
                "oversize guard's margin covers the canary, the page rounding and the extra pages so the mapping size cannot wrap (R17.4-margin - "
                "this derived the genuine defect F5: 14 sizes wrapped the total to 0 and failed with EINVAL; repaired by a fix: commit); "
                "each sodium_mprotect_* applies its own PROT_* constant to (unprotected_ptr, stored size). That the OS faults on the guard "
                "page is not decided.",
    },
    "C18": {
        "engine": "PathAI (E1) + who-may-call (E2)",
        "technique": "call-site argument analysis against header constants; who-may-call; path-shape analysis of the rejection sampler",
        "text": "Static, for every installed source: each of the library's randombytes_buf call sites requests exactly the public size of the "
                "secret it generates (header constants paired by the public function name; locals/globals filled entirely) and the bytes are "
                "only post-processed by derivations from themselves; entropy/time/pid externals, RDRAND and the implementation slots are used "
                "only inside randombytes/; randombytes_uniform returns 0 for n < 2, else (last draw) mod n on a path holding draw >= a "
                "threshold that depends on n only, earlier draws being discarded only when below it; randombytes_buf_deterministic is one "
                "ChaCha20-IETF call with the constant 'LibsodiumDRG' nonce; the implementation pointer is private to randombytes.c and assigned only "
                "by randombytes_set_implementation (the caller's value) and, when still NULL, by randombytes_init_if_needed (R18.4: no close / "
                "stir path can silently swap the source). The threshold's value (2^32 mod n) is not decided.",
    },
    "C19": {
        "engine": "PathAI (E1 typestate) + whole-library global-effect analysis (E2)",
        "technique": "lock typestate analysis of the initialiser + ownership analysis of every store to process-global state",
        "text": "Static, for every schedule: sodium_init holds the lock around every initialisation step and the initialized flag (set last), "
                "releases it on every exit, and the already-initialised path does no work and returns 1; `locked` is only written with the "
                "mutex held; the inventory of all mutable globals is enumerated from the IR and no public API function other than the "
                "initialiser and four named lifecycle APIs stores to any of them, except through two lazy-init gates whose writes are "
                "dominated by a 'not initialised' flag that sodium_init sets. Races inside libc/OS and sequential-equivalence of results "
                "are not separately proved. randombytes_close() on the default generator resets the stream state only after it really closed the /dev/urandom "
                "descriptor, so on the getrandom() path the lock-free lazy initialiser is never re-armed (R19.5).",
    },
    "C20": {
        "engine": "PathAI (E1) + call-graph effects (E2)",
        "technique": "path-sensitive typestate analysis of allocations (tested-before-use, error propagation, release-once, no leak) over every fault position",
        "text": "Static, for every single allocation/mapping failure position at once: in all functions reachable from the password-hashing and "
                "guarded-allocation APIs, allocator results are tested before any use and their failing arm only reaches failing exits; every "
                "success exit has an established success fact for every fallible step on its path and no fallible result is dropped; the "
                "*_str_verify functions report a match only via hash-succeeded and constant-time compare-equal; each allocation is released "
                "at most once, never used after release, and is released/returned/owned at every exit; a released pointer that is also held in "
                "caller-visible memory is cleared / re-initialised / released with its object before the function returns (R20.5); the owners' "
                "destructors are total - every release they perform on some path is performed on every returning path unless that pointer is NULL "
                "there (R20.6). The thorough tier repeats this for the "
                "posix_memalign and plain-malloc arms (HAVE_MMAP / HAVE_POSIX_MEMALIGN undefined).",
        "note": "libc model: mmap without MAP_FIXED returns MAP_FAILED or non-NULL; errno storage aliases nothing.",
    },
}

# ---- round 5 additions (kept as appendices so the reviewed texts above stay as they were) ------------------------------
_R5 = {
    "C02": ("+ loop-advance analysis of input reads (E15)",
            " Inside every loop that walks an input buffer of the AEAD / MAC / secretbox units, each read through that buffer advances with the "
            "loop (R2.8): an absorber that re-reads the bytes of its first iteration leaves the later associated-data / ciphertext bytes unauthenticated."),
    "C03": ("+ bit-flow (E11) of the initial counter",
            " Every bit of an initial-counter parameter `ic` (64-bit, or 32-bit for IETF) reaches a call argument or a store in every "
            "crypto_stream function that has one (R3.7): a narrowing on the way to the backend aliases counters >= 2^32 with small ones."),
    "C04": ("+ lane provenance of vector shuffles (E14)",
            " The message schedule of the SSSE3 / SSE4.1 / AVX2 BLAKE2b compression functions, read off their shuffles, equals the blake2b_sigma table of "
            "the portable implementation in every round and slot (R4.8; round 0 calibrates the slot layout)."),
    "C05": ("+ static-storage write scan (E16)",
            " No function of the X25519 / box / kx / HSalsa20 units writes a writable static object (R5.6, re-entrancy; the implementation slot is "
            "set only by *_pick_best_implementation)."),
    "C08": ("+ reader/writer table agreement",
            " The scrypt setting-string decoder accepts exactly the encoder's alphabet (R8.6): it searches the very table the encoder indexes, or uses a "
            "reverse table that maps every byte the success path admits to a digit whose character is that byte."),
    "C09": ("+ final-content analysis of the counter region",
            " On every returning path of rekey / init_push / init_pull the counter region (the bytes the wrap test reads) ends as the constants "
            "01 00 00 00 whatever it held before (R9.4)."),
    "C10": ("+ bit-flow (E11) of the soft-AES lane helpers",
            " Every bit of an integer operand of the softaes_block_* helpers reaches the block they build, as it does for the AES-NI intrinsic "
            "they stand for (R10.6)."),
    "C12": ("+ null-contract contradiction rule",
            " When an exported function (small static helpers inlined) compares a pointer parameter with NULL, every access through that parameter sits on "
            "a path that knows it is not NULL (R12.7: tag-only verification with m == NULL, optional out-parameters)."),
    "C15": ("",
            " The output is declared full only for a character that has been read and classified as producing output (R15.5): a capacity test hoisted "
            "above the classification refuses well-formed text of exactly the capacity that continues with an ignored or foreign character."),
    "C18": ("",
            " A generated secret does not depend on the previous content of the output buffer (R18.5): every returning path of a function that draws "
            "into an output parameter draws, and nothing reads the buffer before the first draw."),
    "C20": ("+ computed may-release-parameter summaries",
            " Ownership across calls (R20.7): no exported function may release one of its own pointer parameters, and a pointer handed to a callee that may "
            "release it is not released again - summaries computed over the call graph, no table."),
}
for _p, (_e, _t) in _R5.items():
    if _e:
        CHECKS[_p]["engine"] += " " + _e
    CHECKS[_p]["text"] += _t

# ---- round 6 additions ---------------------------------------------------------------------------------------------------
_R6 = {
    "C02": " Sealed boxes: the nonce derivation hashes (ephemeral public key, recipient public key), each once and completely, and seal / "
           "seal_open hand it these two keys (R2.9) - only the nonce authenticates bit 255 of the ephemeral key.",
    "C03": " In the assembly stream backends every `rep stos` / `rep movs` sequence covers exactly the length register it is given (R3.8, E17) - "
           "the only clause decided for the .S units.",
    "C04": " HMAC key preparation (R4.9): the caller's key is hashed first exactly on the paths with keylen >= B + 1, B being the length of "
           "the ipad / opad block handed to the hash, and used directly only with keylen <= B.",
    "C05": " Who-may-call (R5.7): primitive-specific units of crypto_box / crypto_scalarmult / crypto_kx / crypto_secretbox never call the generic "
           "front end of their own operation (the front end stands for the default primitive, e.g. crypto_box_beforenm is the HSalsa20 derivation).",
    "C07": " Bit 255 of the scalar never reaches ge25519_scalarmult(_base) (R7.12): on every path - with and without clamping - byte 31 of "
           "the working copy handed to them was last written with a value whose bit 7 is known zero.",
    "C08": " Argon2's variable-length hash H' uses a single BLAKE2b call exactly when outlen <= crypto_generichash_blake2b_BYTES_MAX, the chained "
           "construction only for outlen >= BYTES_MAX + 1 (R8.7).",
    "C09": " The authenticated length block is LE64(adlen) || LE64(64 + message length) of the caller's own length parameters, also when the "
           "absorbing steps are factored into helpers (R9.5).",
    "C10": " Every compiled stream backend carries its 64-bit block counter (R10.7 = the R3.2 engine of C03: write-backs of the high word depend "
           "on the low word, no vector operation feeds a value derived from the high word alone into the state).",
    "C12": " Blockwise output writes (R12.8): a write through a pointer parameter at a loop-dependent offset, on a path whose guards relate that "
           "offset to a length parameter, fits the remainder those guards establish (constant extents incl. callees with a fixed or documented "
           "*_BYTES output; variable extents by linear cancellation or a bounding fact).",
    "C13": " R13.2 now covers every (c, m) function of the stream-cipher units; pointers that walk a buffer in lockstep (`c += 64; m += 64`) get "
           "the same symbolic position.",
    "C14": " Limb pairing in the assembly fast paths of sodium_add / sodium_sub (R14.7): every `op %reg, K(out)` uses a register loaded from "
           "K(in) of the other operand with the same width, each limb once, limbs contiguous from 0.",
    "C16": " sodium_unpad remembers what it scanned (R16.5): a loop-carried OR-accumulator receives every bit of every scanned byte and each of "
           "its bits can influence the verdict of later iterations.",
    "C17": " A protection change never touches the region (R17.5): the only memory _sodium_mprotect reads through the caller's pointer or the "
           "recomputed region start is the size word of the header page.",
    "C18": " Every dispatch in randombytes.c fetches the function pointer from the struct `implementation` points to at call time (R18.6).",
    "C19": " The selectable randombytes_internal backend writes process-global generator state only under a zero-test of a process-global "
           "(not thread-local) once-flag; no function in its vtable is an unguarded writer (R19.6; the stored getpid() result is the one named exception).",
}
for _p, _t in _R6.items():
    CHECKS[_p]["text"] += _t

# ---- round 7 additions ---------------------------------------------------------------------------------------------------
_R7 = {
    "C02": " Secretstream header (R2.10 = C09's R9.6 / R9.7 engine): after init the key is HChaCha20 over header[0..16) and the inonce is a verbatim "
           "copy of header[16..24) (byte provenance of the final state).",
    "C03": " Same-named set-up / wrapper functions of sibling stream backends make the same calls with the same role-normalised arguments as the "
           "portable unit (R3.9, E7).",
    "C06": " Combined-mode signing moves the message to sm + 64 first and hands that copy to the detached signer on every path (R6.4).",
    "C08": " Both scrypt cores hand the same role-normalised arguments to their two PBKDF2 calls, and B has the same length when filled and when "
           "it keys the final PBKDF2 (R8.8, E7).",
    "C09": " Byte provenance of the state (last writer per byte, copies tracked with their offset through loops and memcpy): after init the key is the "
           "output of crypto_core_hchacha20(state->k, header, k) and the inonce is header[16..24) (R9.6); rekey transforms state[0..32) || inonce - "
           "not the counter - and writes both back (R9.7); init_push and init_pull leave the same final provenance (R9.2-init).",
    "C10": " The SIMD crypto_verify_n combines per-position differences with OR only and depends on every byte (R10.8 = C14's engine on this "
           "configuration).",
    "C16": " sodium_pad / sodium_unpad write no static object (R16.6, E16).",
    "C17": " Detection terminates unconditionally (R17.6): _out_of_bounds() ends in abort() itself and nothing it calls can reach an indirect call.",
    "C18": " A delegating generator calls a generator whose public size constant has the same value (R18.1-deleg).",
    "C19": " No thread-local object is written only under sodium_init() and read by other functions (R19.7).",
}
for _p, _t in _R7.items():
    CHECKS[_p]["text"] += _t

# ---- round 8 additions ---------------------------------------------------------------------------------------------------
_R8 = {
    "C02": " The length block of the portable AEGIS backends carries every bit of mlen and adlen (R2.11 = C10's R10.6 engine).",
    "C03": " One cipher per stream function: all crypto_core_* calls inside one function of the stream units name the same permutation (R3.10).",
    "C04": " HKDF-Expand feeds back the block just before the one being produced, in the loop and in the tail, also when the previous block is "
           "kept in a loop-carried pointer (R4.10).",
    "C05": " No carry of the field arithmetic behind the portable ladder is identically zero (R5.8, E12).",
    "C09": " The transcript padding has the documented lengths - (-adlen) mod 16 after the AD, (mlen - 48) mod 16 after the ciphertext - compared as "
           "affine forms modulo 16 (R9.8).",
    "C10": " Every X25519 ladder entry reads scalar and point before its first write through q (R10.9 = C05's R5.3 per backend).",
    "C11": " The verdict of a constant-time comparison is public only when it covers the whole local authenticator it is compared against "
           "(full-object declassification); the HMAC / Poly1305 verify functions are entry points.",
    "C12": " Siblings that receive the same argument list from a dispatcher agree on which pointer parameters may be NULL (R12.9).",
    "C13": " R13.2 also covers every (m, c) function of the AEAD units; callee extents come from explicit length arguments where the callee has one.",
    "C15": " Reader's and writer's Base64 alphabets agree per variant, by exact finite-domain evaluation of the branch-free table functions (R15.6, E18); "
           "the two variants differ in digits 62 and 63 only.",
}
for _p, _t in _R8.items():
    CHECKS[_p]["text"] += _t
# ---- round 9 additions ---------------------------------------------------------------------------------------------------
_R9 = {
    "C02": " The secretstream MAC covers the caller's AD length itself (R2.12 = C09's R9.5 engine).",
    "C03": " In the portable Salsa20 family the counter bytes are updated by exactly one carry chain that every iteration of the block loop runs (R3.11).",
    "C04": " blake2b_update compresses only under a strict `remaining > K` guard followed by `remaining -= K`: the last block is left to final (R4.11).",
    "C05": " In fe51_pack.S the mask selecting the final subtraction of p depends on all five limbs (R5.9, E17 register dependence).",
    "C06": " The Ed25519 -> X25519 key conversions read their input completely before the first write through the output (R6.5 = C05's R5.3 engine).",
    "C07": " expand_message_xmd never writes its b_0 buffer inside the block loop (R7.13).",
    "C10": " The inline-assembly fast paths of sodium_add / sodium_sub / sodium_increment form one carry chain like the byte loop: only the first "
           "limb operation ignores the carry, no limb is updated twice (R10.10 = C14's R14.8).",
    "C11": " Address taint follows pointer parameters: a pointer the caller computed with a secret index makes every access through it in the callee "
           "a secret-addressed access.",
    "C12": " Assembly fast paths reached under `len == C` touch exactly C bytes (R12.10 = C14's R14.8 extent part).",
    "C14": " Limb structure of every inline-assembly block of sodium/utils.c, helpers included: carry-first, every limb once, widths add up to the "
           "guarded length (R14.8); limb pairing (R14.7) over every two-operand function of the unit.",
    "C15": " Both decoders hand back through *end the position the end-pointer-less form compares with the input length (R15.7, reaching definitions).",
    "C16": " No 64-bit quantity of the padding arithmetic is narrowed unless the dropped bits are known zero (R16.7, E12).",
    "C17": " MAP_FAILED never leaves _alloc_aligned as a pointer (R17.7).",
    "C18": " The pointer to the installed source is a process-global object, not thread-local (R18.7).",
    "C20": " A failed allocation inside a void function is a violation (nothing can report it), and an mmap result forwarded as a pointer needs the "
           "MAP_FAILED test (R20.1-arm, R20.2).",
}
for _p, _t in _R9.items():
    CHECKS[_p]["text"] += _t
# ---- round 10 additions --------------------------------------------------------------------------------------------------
_R10 = {
    "C03": " No function of the stream units writes a static object (R3.12, E16).",
    "C04": " The two Poly1305 update functions (donna, SSE2) have the same buffering skeleton after renaming block size and state offsets (R4.12, E7).",
    "C06": " Every limb sc25519_muladd / sc25519_reduce pack into the scalar bytes, except the top one, is the remainder of its own carry step (R6.6).",
    "C07": " ristretto255_frombytes applies `is negative` to T and `is zero` to Y (R7.14); the packed limbs of sc25519_mul / sc25519_reduce are carry "
           "remainders (R7.15).",
    "C15": " Every decoder function that walks over the encoded text consults the ignore set (R15.8).",
    "C17": " Every function returning the result of _sodium_malloc(n) fills exactly n bytes with a non-zero constant (R17.2).",
}
for _p, _t in _R10.items():
    CHECKS[_p]["text"] += _t
# ---- round 11 additions --------------------------------------------------------------------------------------------------
_R11 = {
    "C05": " has_small_order (ref10) narrows its accumulated differences only where the dropped bits are known zero or folded (R5.10, E12); R5.4 "
           "confirms a leaking ignored bit on a second -O2 build with constant-trip loops unrolled.",
    "C10": " The low-order rejection only the portable X25519 backend performs never narrows with loss (R10.11 = R5.10); assembly limb chains are "
           "reached only under a length equality (R10.10 guard part).",
    "C12": " The four Argon2 generate_addresses helpers fill pseudo_rands with the same index discipline (R12.11, E7).",
    "C13": " In the detached secretbox functions every read of the message precedes the first write through mac (R13.3).",
    "C14": " A chain of assembly limb operations is reached only under `len == C`, directly or at every call site of its helper (R14.8 guard part).",
    "C18": " The internal generator's refill keeps the rekeying material outside the part of the pool it hands out (R18.8).",
}
for _p, _t in _R11.items():
    CHECKS[_p]["text"] += _t
CHECKS["C06"]["text"] += (" In seed_keypair, once the public key is written, sk[32..64) is only written by the copy from pk, so generating the "
                          "key pair in place (pk == sk + 32) works (R6.7).")
CHECKS["C04"]["text"] += " The SipHash absorbing loops read every word of the stride they advance by, once (R4.13)."
CHECKS["C12"]["text"] += " In _needs_rehash the capacities handed to the Argon2 string decoder are covered by the buffers they describe (R12.12)."
_PENDING = "not claimed"
NOT_APPLICABLE = {
    "C01": "every clause is an equality between computed byte strings and a mathematical specification over all keys/nonces/lengths/backends: "
           "functional equivalence of SIMD/limb arithmetic needs a prover or symbolic execution, not static analysis (DESIGN §4 C01)",
}
for _p in ("C03 C04 C05 C06 C07 C08 C09 C10 C11 C12 C13 C14 C15 C16 C17 C18 C19 C20").split():
    if _p not in CHECKS:
        NOT_APPLICABLE[_p] = _PENDING
