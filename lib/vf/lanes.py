"""E14 — byte provenance of vector values (which bytes of an input block does every lane hold?).

Over the -O0+mem2reg IR of one function, every SSA value of vector or integer type gets a tuple with one
entry per byte: the offset of the byte of the buffer a pointer parameter points to that the byte is a
verbatim copy of, or None. Only data *movement* is interpreted:

    load through the parameter at a constant offset      bytes off .. off+size
    bitcast between same-size types                     unchanged
    shufflevector with its constant mask                 lanes permuted (this is what clang emits for
                                                         unpack / alignr / blend / shuffle / permute /
                                                         broadcast intrinsics)
    insertelement / extractelement at a constant index   lane replaced / taken
    anything else (arithmetic, calls, phis)              no provenance

The client rule (BLAKE2b message schedule, C04) asks which message words are added into the state, and in
which order; nothing is executed and no value is computed."""


def _elem_bytes(ty):
    """'<4 x i64>' -> (4, 8); 'i64' -> (1, 8); None for anything else"""
    ty = ty.strip()
    if ty.startswith("<") and ty.endswith(">"):
        n, _x, e = ty[1:-1].partition(" x ")
        e = e.strip()
        if e.startswith("i") and e[1:].isdigit() and int(e[1:]) % 8 == 0:
            return int(n), int(e[1:]) // 8
        return None
    if ty.startswith("i") and ty[1:].isdigit() and int(ty[1:]) % 8 == 0:
        return 1, int(ty[1:]) // 8
    return None


class Lanes:
    def __init__(self, fn, pidx):
        self.fn, self.pidx = fn, pidx
        self.prov = {}
        self._run()

    def _ptr_off(self, o, depth=0):
        off = 0
        while o[0] == "v" and depth < 32:
            ins = self.fn.insts[o[1]]
            if ins["op"] == "getelementptr":
                if ins.get("off") is None or ins.get("var"):
                    return None
                off += ins["off"]
                o = ins["ops"][0]
            elif ins["op"] == "bitcast":
                o = ins["ops"][0]
            else:
                return None
            depth += 1
        if o[0] == "a" and o[1] == self.pidx:
            return off
        return None

    def of(self, o, nbytes):
        if o[0] == "v":
            p = self.prov.get(o[1])
            if p is not None and len(p) == nbytes:
                return p
        return (None,) * nbytes

    def _run(self):
        insts = self.fn.insts
        for i, ins in enumerate(insts):
            op = ins["op"]
            eb = _elem_bytes(ins.get("ty", ""))
            if eb is None:
                continue
            n, w = eb
            size = n * w
            if op == "load":
                off = self._ptr_off(ins["ops"][0])
                if off is not None and not ins.get("vol"):
                    self.prov[i] = tuple(range(off, off + size))
            elif op == "bitcast":
                src = ins["ops"][0]
                if src[0] == "v":
                    p = self.prov.get(src[1])
                    if p is not None and len(p) == size:
                        self.prov[i] = p
            elif op == "shufflevector" and "mask" in ins:
                a, b = ins["ops"][0], ins["ops"][1]
                sa = insts[a[1]].get("ty", "") if a[0] == "v" else None
                ea = _elem_bytes(sa) if sa else None
                if ea is None:
                    sb = insts[b[1]].get("ty", "") if b[0] == "v" else None
                    ea = _elem_bytes(sb) if sb else None
                if ea is None:
                    continue
                na = ea[0]
                pa = self.of(a, na * w)
                pb = self.of(b, na * w)
                out = []
                for mk in ins["mask"]:
                    if mk < 0:
                        out.extend([None] * w)
                    elif mk < na:
                        out.extend(pa[mk * w:(mk + 1) * w])
                    else:
                        out.extend(pb[(mk - na) * w:(mk - na + 1) * w])
                if len(out) == size:
                    self.prov[i] = tuple(out)
            elif op == "insertelement":
                vec, val, idx = ins["ops"]
                if idx[0] != "i":
                    continue
                cur = list(self.of(vec, size))
                cur[idx[1] * w:(idx[1] + 1) * w] = self.of(val, w)
                self.prov[i] = tuple(cur)
            elif op == "extractelement":
                vec, idx = ins["ops"]
                if idx[0] != "i" or vec[0] != "v":
                    continue
                ev = _elem_bytes(insts[vec[1]].get("ty", ""))
                if ev is None:
                    continue
                p = self.of(vec, ev[0] * ev[1])
                self.prov[i] = tuple(p[idx[1] * w:(idx[1] + 1) * w])

    def words(self, vid, wbytes=8):
        """provenance of value vid as aligned word indices of the input buffer, e.g. (15, 6); None when some lane is
        not a whole aligned word of the buffer"""
        p = self.prov.get(vid)
        if p is None or len(p) % wbytes:
            return None
        out = []
        for k in range(0, len(p), wbytes):
            lane = p[k:k + wbytes]
            if lane[0] is None or lane[0] % wbytes or any(lane[j] != lane[0] + j for j in range(wbytes)):
                return None
            out.append(lane[0] // wbytes)
        return tuple(out)


def message_adds(fn, pidx, wbytes=8):
    """[(inst id, word tuple)] — additions, in program order, one operand of which is made of whole words of the input"""
    ln = Lanes(fn, pidx)
    out = []
    for i, ins in enumerate(fn.insts):
        if ins["op"] != "add":
            continue
        ws = []
        for o in ins["ops"]:
            ws.append(ln.words(o[1], wbytes) if o[0] == "v" else None)
        got = [w for w in ws if w is not None]
        if len(got) == 1:
            out.append((i, got[0]))
    return out
