"""E6 — which byte ranges of a designated object does a path's return value depend on?

Forward dependence propagation along one PathAI path. Atoms are byte ranges (lo, hi) of the
designated object; every other object is tracked as a whole (weak updates). A call's result and
every object it may write depend on everything the call may read (callee read-range summaries)
and on its scalar arguments."""
from . import terms as T
from .callgraph import ALL, ReadRanges, ext_writes, _norm_ranges

_RR = {}


def read_ranges(prog):
    return prog.callgraph().ranges()


def ptr_parts(t):
    """(root, const offset or None)"""
    if t[0] == "gep":
        return (T.root(t[1]), None if t[3] or T.root(t[1]) != t[1] else t[2])
    return (T.root(t), 0 if T.root(t) == t else None)


def return_deps(prog, p, obj, after_idx=-1):
    """ranges of object `obj` (a root term) that p.ret may depend on, considering only reads made
    at event index > after_idx (i.e. after the object holds the value of interest)"""
    cg = prog.callgraph()
    rr = read_ranges(prog)
    deps = {}          # root term / call-result term -> set of ranges

    def term_deps(t, depth=0):
        out = set()
        for l in T.leaves(t):
            if l[0] in ("call", "load"):
                out |= deps.get(l, set())
            elif l[0] == "havoc":
                if l in deps:
                    out |= deps[l]
                else:
                    deps[l] = set()
                    hin = p.env.get(("hin", l[1], l[2]))
                    if hin is not None and depth < 50:
                        deps[l] = term_deps(hin, depth + 1)
                    out |= deps[l]
        return out

    for e in p.events:
        if e.kind == "load":
            root, off = ptr_parts(e.addr)
            d = set(term_deps(e.addr))
            if root == obj and e.idx > after_idx:
                d.add(ALL if off is None else (off, off + e.size))
            elif root != obj:
                d |= deps.get(root, set())
            if e.res is not None:
                deps[e.res] = deps.get(e.res, set()) | d
        elif e.kind == "store":
            root, _off = ptr_parts(e.addr)
            if root != obj:
                deps[root] = deps.get(root, set()) | term_deps(e.val)
        elif e.kind == "call":
            c = e.callee
            ins = set()
            targets = []
            if c[0] == "fn":
                targets = [c[1]]
            elif c[0] == "ind":
                targets, _complete = cg.resolve_indirect(p.fn, p.fn.insts[e.iid])
            wr = set()
            for i, a in enumerate(e.args):
                root, off = ptr_parts(a)
                ins |= term_deps(a)
                if root[0] not in ("alloca", "arg", "g"):
                    continue
                if targets:
                    rs = []
                    for t in targets:
                        rs += rr.reads(t, i)
                        if i in cg.writes_params(t):
                            wr.add(root)
                else:
                    nm = c[1] if c[0] == "ext" else ""
                    w = ext_writes(nm) if c[0] == "ext" else None
                    if w is None or i in w:
                        wr.add(root)
                    rs = [ALL] if not (nm in ("memset",) ) else []
                    if nm in ("memcpy", "memmove") and i == 0:
                        rs = []
                if not rs:
                    continue
                if root == obj:
                    if e.idx > after_idx:
                        for lo, hi in rs:
                            if off is None or (lo, hi) == ALL:
                                ins.add(ALL)
                            else:
                                ins.add((off + lo, off + hi))
                else:
                    ins |= deps.get(root, set())
            for r in wr:
                if r != obj:
                    deps[r] = deps.get(r, set()) | ins
            if e.res is not None:
                deps[e.res] = ins
    if p.ret is None:
        return []
    return _norm_ranges(term_deps(p.ret))


def param_deps(prog, p):
    """which pointer/scalar parameters does each local object and each call result on path p depend on?
    (coarse forward dependence: a call's outputs depend on everything it may read)"""
    cg = prog.callgraph()
    rr = read_ranges(prog)
    deps = {}

    def term_deps(t):
        out = set()
        for l in T.leaves(t):
            if l[0] == "arg":
                out.add(l[1])
            elif l[0] in ("call", "load", "havoc", "alloca"):
                out |= deps.get(l, set())
        return out

    for e in p.events:
        if e.kind == "load":
            root, _off = ptr_parts(e.addr)
            d = term_deps(e.addr)
            if root[0] == "arg":
                d.add(root[1])
            else:
                d |= deps.get(root, set())
            if e.res is not None:
                deps[e.res] = deps.get(e.res, set()) | d
        elif e.kind == "store":
            root, _off = ptr_parts(e.addr)
            deps[root] = deps.get(root, set()) | term_deps(e.val)
        elif e.kind == "call":
            c = e.callee
            targets = [c[1]] if c[0] == "fn" else []
            ins, wr = set(), set()
            for i, a in enumerate(e.args):
                root, _off = ptr_parts(a)
                if root[0] not in ("alloca", "arg", "g"):
                    ins |= term_deps(a)
                    continue
                reads = True
                writes = True
                if targets:
                    reads = any(rr.reads(t, i) for t in targets)
                    writes = any(i in cg.writes_params(t) for t in targets)
                if reads:
                    if root[0] == "arg":
                        ins.add(root[1])
                    ins |= deps.get(root, set())
                if writes:
                    wr.add(root)
            for r in wr:
                deps[r] = deps.get(r, set()) | ins
            if e.res is not None:
                deps[e.res] = ins
    return deps
