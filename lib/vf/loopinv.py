"""E15 — input reads that do not advance with the loop that consumes the input.

An absorbing loop (`for (i = 0; i + K <= len; i += K) ... in + i + j * 16 ...`) must read a different part
of the input on every iteration. For a pointer parameter P, every read through P (a load, or P + offset handed
to a callee / memcpy) that sits inside a natural loop L is put in linear form over SSA values
(E8's `Lin`): const + sum(scale * value). If none of those values is defined inside L the address is the same
on every iteration of L: the loop re-reads the bytes of its first iteration and the bytes it was supposed to
consume are never read (for a MAC: they are not authenticated). Only byte-pointer parameters the function
never stores through are inputs in this sense (state structures and work arrays are re-read legitimately). Reads whose address cannot be linearised are
not judged. The rule is only armed when some other read through P in the same function *does* advance with L
(so L is a loop over the input, not e.g. a loop over rounds re-reading a fixed header)."""
from .hazard import Lin
from .model import inst_operands


def natural_loops(fn):
    """header block id -> set of block ids of the natural loop (back edges found with the dominator tree)"""
    blocks = fn.blocks
    n = len(blocks)

    def dominates(a, b):
        while b != -1 and b is not None:
            if a == b:
                return True
            b = blocks[b].get("idom", -1)
        return False
    loops = {}
    for b in range(n):
        if not blocks[b].get("reach", 1):
            continue
        for h in blocks[b].get("succs", []):
            if dominates(h, b):
                body = loops.setdefault(h, {h})
                stack = [b]
                while stack:
                    x = stack.pop()
                    if x in body:
                        continue
                    body.add(x)
                    stack.extend(blocks[x].get("preds", []))
    return loops


def _reads(prog, fn, pidx, ln):
    """[(inst id, block, {vid: scale}, text)] reads through parameter pidx with a linear address"""
    out = []
    for i, ins in enumerate(fn.insts):
        op = ins["op"]
        if op == "load":
            a = ln.addr(ins["ops"][0])
            if a is not None and a[0] == ("a", pidx):
                out.append((i, ins["b"], a[2], "load"))
        elif op == "call":
            cal = ins.get("callee")
            name = cal[1] if cal and cal[0] == "g" else ""
            if name.startswith(("llvm.lifetime", "llvm.dbg", "llvm.prefetch")):
                continue
            for k, o in enumerate(ins.get("ops", [])):
                if o[0] not in ("v", "a"):
                    continue
                if name.startswith(("llvm.memcpy", "llvm.memmove", "memcpy", "memmove")) and k != 1:
                    continue
                a = ln.addr(o)
                if a is not None and a[0] == ("a", pidx):
                    out.append((i, ins["b"], a[2], name or "indirect call"))
    return out


def stuck_reads(prog, fn, pidx):
    """-> (number of reads judged, [(inst id, loop header block, text)] reads that do not advance with an enclosing
    loop over the input)"""
    ln = Lin(fn)
    loops = natural_loops(fn)
    reads = _reads(prog, fn, pidx, ln)
    memo = {}

    def advances(v, h, body):
        """may SSA value v differ between iterations of the loop (h, body)? True when it (transitively, staying inside the
        loop) depends on a phi of the loop header or on something opaque (a load, a call) evaluated inside the loop; an inner
        counter that restarts from a constant on every iteration of the outer loop does not."""
        if isinstance(v, tuple):            # a walking pointer of E8's Lin: ("pp", header block, stride)
            return v[1] in body
        key = (v, h)
        if key in memo:
            return memo[key]
        memo[key] = False
        seen, stack, res = set(), [v], False
        while stack and not res:
            x = stack.pop()
            if x in seen:
                continue
            seen.add(x)
            ins = fn.insts[x]
            if ins["b"] not in body:
                continue                  # defined before the loop: the same on every iteration
            if ins["op"] == "phi" and ins["b"] == h:
                res = True
            elif ins["op"] in ("load", "call", "invoke"):
                res = True
            else:
                stack.extend(o[1] for o in inst_operands(ins) if o[0] == "v")
        memo[key] = res
        return res
    # loops over the input: some read through P advances with them
    over_input = set()
    for _i, b, var, _t in reads:
        for h, body in loops.items():
            if b in body and any(advances(v, h, body) for v in var):
                over_input.add(h)
    bad = []
    judged = 0
    for i, b, var, text in reads:
        for h, body in loops.items():
            if b not in body or h not in over_input:
                continue
            judged += 1
            if not any(advances(v, h, body) for v in var):
                bad.append((i, h, text))
    return judged, bad


def _written(fn, pidx):
    ln = Lin(fn)
    for ins in fn.insts:
        if ins["op"] == "store":
            a = ln.addr(ins["ops"][1])
            if a is not None and a[0] == ("a", pidx):
                return True
    return False


def stuck_read_rule(prog, chk, rule, unit_prefixes, floor=1, params=None):
    n = nf = 0
    for fn in sorted(prog.functions(), key=lambda f: (f.unit, f.name)):
        if not any(fn.unit.startswith(u) for u in unit_prefixes):
            continue
        for k, p in enumerate(fn.params):
            if p["ty"] != "i8*" or (params is not None and p["name"] not in params):
                continue
            if _written(fn, k):
                continue                  # a work buffer, not an input
            judged, bad = stuck_reads(prog, fn, k)
            if not judged:
                continue
            nf += 1
            n += judged
            for i, h, text in bad:
                chk.ob(rule, fn, "reads through the input advance with the loop that consumes it", False, loc=fn.loc(i),
                       detail="%s through %s at %s has the same address on every iteration of the loop headed by %s (other reads through %s "
                       "advance with that loop): the bytes of the later iterations are never read"
                       % (text, p["name"], fn.loc(i), fn.blocks[h]["name"], p["name"]),
                       key="%s %s %s stuck-read" % (rule, fn.sname, p["name"]))
            chk.ob(rule, fn, "%d reads through %s inside loops over it: all advance with the loop" % (judged, p["name"]), not bad,
                   key="%s %s %s summary" % (rule, fn.sname, p["name"]))
    chk.floor(rule, "input reads inside consuming loops", n, floor)
