"""E3 — secret-taint analysis on the SSA IR (constant-time at IR level).

Interprocedural, summary-based (one summary per function and input-taint configuration),
flow-insensitive inside a function, byte-range sensitive on memory objects.

* objects: every alloca, every global, and the pointee of every pointer parameter ("P<i>");
  each object carries a set of tainted byte ranges; an access whose offset is a compile-time
  constant touches [off, off+size); a variable index into an array field touches that field's
  extent; anything else touches the whole object.
* values: an SSA value is tainted if any operand is (loads: if the touched range of any pointed-to
  object is tainted; calls: per callee summary; inline asm: if any input is).
* sinks: tainted branch/switch conditions; tainted address components (GEP indices / pointers
  loaded from tainted memory) of loads and stores; tainted arguments of variable-time externals;
  inline asm containing a conditional jump with a tainted input. udiv/urem on tainted operands
  are recorded as notes.
* declassification: the result of the functions in `declass_ret` is public in the caller (for every
  caller, or - when a set of caller names is given - only in those callers).
"""
from . import asmfx
from .build import AnalysisBroken
from .callgraph import ext_writes

import os
_DEBUG = os.environ.get("TAINT_DEBUG")
ALLR = (0, 1 << 60)
VARTIME_EXT = {"memcmp", "bcmp", "strcmp", "strncmp", "strlen", "strchr", "strrchr", "memchr", "strnlen"}
PURE_MATH_PREFIX = ("llvm.x86.", "llvm.fshl", "llvm.fshr", "llvm.bswap", "llvm.ctpop", "llvm.ctlz", "llvm.cttz",
                    "llvm.umin", "llvm.umax", "llvm.smin", "llvm.smax", "llvm.abs", "llvm.uadd", "llvm.usub", "llvm.sadd",
                    "llvm.ssub", "llvm.umul", "llvm.smul", "llvm.vector", "llvm.is.constant", "llvm.expect", "llvm.objectsize")


def norm(rs):
    rs = sorted(rs)
    out = []
    for lo, hi in rs:
        if out and lo <= out[-1][1]:
            out[-1] = (out[-1][0], max(out[-1][1], hi))
        else:
            out.append((lo, hi))
    return tuple(out)


def overlaps(rs, lo, hi):
    for a, b in rs:
        if a < hi and lo < b:
            return True
    return False


class Sink:
    __slots__ = ("fn", "iid", "kind", "detail", "chain", "combo")

    def __init__(self, fn, iid, kind, detail, chain):
        self.fn, self.iid, self.kind, self.detail, self.chain = fn, iid, kind, detail, chain

    def key(self):
        return (self.fn.key, self.iid, self.kind)


class Taint:
    def __init__(self, prog, declass_ret=(), max_depth=40, choose=None):
        self.prog = prog
        self.cg = prog.callgraph()
        # name -> None (public everywhere) | set of immediate callers in which the result is public
        self.declass_ret = dict(declass_ret) if isinstance(declass_ret, dict) else {n: None for n in declass_ret}
        self.memo = {}
        self.sinks = {}
        self.notes = {}
        self.visited = set()
        self.unknown_calls = {}
        self.max_depth = max_depth
        self.choose = choose or {}          # struct type -> chosen vtable global (one backend at a time)
        self.slots_seen = set()

    # ---- public entry ---------------------------------------------------------------------
    def run_entry(self, fn, secret_values=(), secret_pointees=()):
        cfg = []
        for i, p in enumerate(fn.params):
            cfg.append((i in secret_values, (ALLR,) if i in secret_pointees else (), None))
        return self.analyze(fn, tuple(cfg), (fn.sname,))

    def run_sequence(self, steps):
        """multi-part API: steps = [(fn, state parameter index, secret pointee indices)] executed in
        order on one shared state object; each step is repeated until the state's taint is stable
        (so `update` may be called any number of times)."""
        state = ()
        for fn, si, pts in steps:
            for _round in range(8):
                cfg = []
                for i, p in enumerate(fn.params):
                    if i == si:
                        cfg.append((False, state, None))
                    else:
                        cfg.append((False, (ALLR,) if i in pts else (), None))
                _r, outp = self.analyze(fn, tuple(cfg), (fn.sname,))
                new = norm(set(state) | set(outp[si]))
                if new == state:
                    break
                state = new
        return state

    # ---- per function ----------------------------------------------------------------------
    def analyze(self, fn, cfg, chain):
        key = (fn.key, cfg)
        r = self.memo.get(key)
        if r is not None:
            return r
        if len(chain) > self.max_depth:
            raise AnalysisBroken("E3: call depth exceeded at %s" % fn.name)
        self.memo[key] = (False, tuple(() for _ in fn.params))     # recursion guard
        self.visited.add(fn.key)
        r = self._analyze(fn, cfg, chain)
        self.memo[key] = r
        return r

    def _analyze(self, fn, cfg, chain):
        insts = fn.insts
        n = len(insts)
        vt = [False] * n                       # value taint
        arg_t = [c[0] for c in cfg]
        obj = {}                               # object -> set of ranges
        for i, c in enumerate(cfg):
            if c[1]:
                obj[("P", i)] = set(c[1])
        dbg_cur = [None]
        ptrmem = {}                            # (obj, offset) -> pointer info stored there
        grow = {}
        ptr = [None] * n                       # pointer info per instruction: list of (obj, lo, hi, rlo, rhi) or None
        ptr_t = [False] * n                    # address-taint of pointer values (tainted index / loaded from tainted memory)

        def opt(o):
            """taint of an operand value"""
            k = o[0]
            if k == "v":
                return vt[o[1]]
            if k == "a":
                return arg_t[o[1]]
            return False

        def addr_t(o):
            """address-taint of a pointer operand: a pointer computed with a secret index, or a pointer *parameter* whose value the
            caller derived from a secret (`&w[bit]` handed to a helper: the helper's accesses through it are secret-addressed)"""
            if o[0] == "v":
                return ptr_t[o[1]]
            if o[0] == "a":
                return bool(arg_t[o[1]]) and o[1] < len(fn.params) and fn.params[o[1]]["ty"].endswith("*")
            return False

        def pinfo(o, depth=0):
            """points-to of an operand: list of (obj, lo, hi, rlo, rhi); None = unknown"""
            k = o[0]
            if k == "v":
                return ptr[o[1]]
            if k == "a":
                return [(("P", o[1]), 0, 0, 0, cfg[o[1]][2] if o[1] < len(cfg) else None)]
            if k == "g":
                gd = self.prog.global_def(fn, o[1])
                size = gd[1]["size"] if gd else None
                return [(("G", self.cg.gkey(fn.unit, o[1])), 0, 0, 0, size)]
            if k == "ce":
                if o[1] in ("bitcast", "addrspacecast"):
                    return pinfo(o[2][0], depth + 1)
                if o[1] == "getelementptr":
                    base = pinfo(o[2][0], depth + 1)
                    return gep_apply(base, o[3], None)
                return None
            if k in ("null", "undef", "i"):
                return []
            return None

        def const_of(o, depth=0):
            """compile-time value of an operand (through loads of constant tables), else None"""
            if o[0] == "i":
                v = int(o[1])
                return v - (1 << o[2]) if v >> (o[2] - 1) and o[2] > 1 else v
            if o[0] != "v" or depth > 6:
                return None
            d = insts[o[1]]
            op_ = d["op"]
            if op_ in ("sext", "zext", "trunc"):
                return const_of(d["ops"][0], depth + 1)
            if op_ in ("add", "sub", "mul"):
                a, b = const_of(d["ops"][0], depth + 1), const_of(d["ops"][1], depth + 1)
                if a is None or b is None:
                    return None
                return a + b if op_ == "add" else (a - b if op_ == "sub" else a * b)
            if op_ == "load":
                a = d["ops"][0]
                off = None
                gname = None
                if a[0] == "g":
                    gname, off = a[1], 0
                elif a[0] == "ce" and a[1] == "getelementptr" and a[2][0][0] == "g" and not a[3].get("var"):
                    gname, off = a[2][0][1], a[3].get("off", 0)
                elif a[0] == "v" and insts[a[1]]["op"] == "getelementptr":
                    g2 = insts[a[1]]
                    if g2["ops"][0][0] == "g":
                        gname = g2["ops"][0][1]
                        off = g2["off"]
                        for (oi, sc) in g2["var"]:
                            c = const_of(g2["ops"][oi], depth + 1)
                            if c is None:
                                return None
                            off += c * sc
                if gname is None:
                    return None
                gd = self.prog.global_def(fn, gname)
                if gd is None or not gd[1]["const"]:
                    return None
                init = gd[1].get("init")
                if not init or init[0] != "ints":
                    return None
                es = init[2]
                if off % es or off // es >= len(init[1]) or d["size"] != es:
                    return None
                v = int(init[1][off // es])
                return v - (1 << (8 * es)) if v >> (8 * es - 1) else v
            return None

        def gep_apply(base, g, gops):
            if base is None:
                return None
            out = []
            lv = g.get("lv", [])
            idxs = list(g.get("idx", []))
            if gops is not None:
                # variable indices that are in fact compile-time constants (constant tables, folded casts)
                for (oi, _sc) in g.get("var", []):
                    c = const_of(gops[oi])
                    if c is not None and oi - 1 < len(idxs):
                        idxs[oi - 1] = c
            for (ob, lo, hi, rlo, rhi) in base:
                if lo is None:
                    out.append((ob, None, None, rlo, rhi))
                    continue
                clo, chi, crlo, crhi = lo, hi, rlo, rhi
                bad = False
                for k, lvl in enumerate(lv):
                    ix = idxs[k] if k < len(idxs) else None
                    if lvl[0] == "p":
                        if ix is not None:
                            clo += ix * lvl[1]
                            chi += ix * lvl[1]
                        else:
                            # variable pointer-level index: stays inside the current region
                            if crhi is None:
                                bad = True
                                break
                            clo, chi = crlo, max(crlo, crhi - lvl[1])
                    elif lvl[0] == "s":
                        clo += lvl[1]
                        chi += lvl[1]
                        crlo, crhi = clo, clo + lvl[2]
                    else:   # array
                        ext = lvl[1] * lvl[2]
                        if ix is not None:
                            crlo, crhi = clo, chi + ext
                            clo += ix * lvl[1]
                            chi += ix * lvl[1]
                        else:
                            crlo, crhi = clo, chi + ext
                            chi += (lvl[2] - 1) * lvl[1]
                if bad:
                    out.append((ob, None, None, rlo, rhi))
                else:
                    out.append((ob, clo, chi, crlo, crhi))
            return out

        def touched(pi, size):
            """[(obj, lo, hi)] byte ranges an access of `size` bytes through pointer info may touch"""
            if pi is None:
                return [(("UNKNOWN",), 0, ALLR[1])]
            out = []
            for (ob, lo, hi, rlo, rhi) in pi:
                if lo is None:
                    if rlo is not None and rhi is not None:
                        out.append((ob, rlo, rhi))      # somewhere inside the known (sub)object
                    else:
                        out.append((ob, 0, ALLR[1]))
                else:
                    out.append((ob, lo, hi + size))
            return out

        def obj_tainted(ob, lo, hi):
            rs = obj.get(ob)
            return bool(rs) and overlaps(rs, lo, hi)

        def taint_obj(ob, lo, hi):
            rs = obj.setdefault(ob, set())
            for a, b in rs:
                if a <= lo and hi <= b:
                    return False
            if _DEBUG and fn.sname == _DEBUG and ob[0] == "P":
                import traceback
                print("TAINT", fn.sname, ob, (lo, hi), "at inst", dbg_cur[0], fn.loc(dbg_cur[0]) if dbg_cur[0] is not None else "")
            rs.add((lo, hi))
            nr = norm(rs)
            rs.clear()
            rs.update(nr)
            return True

        changed = True
        rounds = 0
        ret_t = False
        local_sinks = {}
        call_results = {}
        while changed:
            changed = False
            rounds += 1
            if rounds > 60:
                raise AnalysisBroken("E3: no fixed point in %s" % fn.name)
            for iid, ins in enumerate(insts):
                dbg_cur[0] = iid
                op = ins["op"]
                if op == "alloca":
                    if ptr[iid] is None:
                        ptr[iid] = [(("A", iid), 0, 0, 0, ins.get("size"))]
                        changed = True
                    continue
                if op == "phi":
                    t = False
                    pis = []
                    unknown = False
                    pt = False
                    for v, _b in ins["inc"]:
                        t = t or opt(v)
                        if ins["ty"].endswith("*"):
                            pi = pinfo(v)
                            if pi is None:
                                if v[0] == "v" and insts[v[1]]["op"] in ("phi", "select", "getelementptr", "bitcast") and ptr[v[1]] is None:
                                    continue    # not yet computed
                                unknown = True
                            else:
                                pis += pi
                            pt = pt or addr_t(v)
                    if ins["ty"].endswith("*"):
                        # widening: one object reached at different offsets (loop-carried pointer) => unknown offset
                        byobj = {}
                        for (ob, lo, hi, rlo, rhi) in pis:
                            byobj.setdefault(ob, set()).add((lo, hi, rlo, rhi))
                        pis = []
                        for ob, vs in byobj.items():
                            if len(vs) == 1:
                                lo, hi, rlo, rhi = next(iter(vs))
                                pis.append((ob, lo, hi, rlo, rhi))
                            else:
                                # hull of a few distinct offsets (pointer switching between sibling fields);
                                # a pointer that keeps growing (loop-carried) is widened to "anywhere"
                                grow[iid] = grow.get(iid, 0) + 1
                                los = [l for (l, _h, _a, _b) in vs]
                                his = [h for (_l, h, _a, _b) in vs]
                                rls = [a for (_l, _h, a, _b) in vs]
                                rhs = [b for (_l, _h, _a, b) in vs]
                                if grow[iid] <= 6 and None not in los and None not in his and None not in rls and None not in rhs:
                                    pis.append((ob, min(los), max(his), min(rls), max(rhs)))
                                else:
                                    regs = {(rlo, rhi) for (_l, _h, rlo, rhi) in vs}
                                    rlo, rhi = next(iter(regs)) if len(regs) == 1 else (0, None)
                                    pis.append((ob, None, None, rlo, rhi))
                        newp = None if (unknown and not pis) else sorted(set(pis), key=str)
                        if newp != ptr[iid]:
                            ptr[iid] = newp
                            changed = True
                        if pt and not ptr_t[iid]:
                            ptr_t[iid] = True
                            changed = True
                    if t and not vt[iid]:
                        vt[iid] = True
                        changed = True
                    continue
                if op in ("br", "switch"):
                    if "cond" in ins and opt(ins["cond"]):
                        local_sinks[(iid, "branch")] = "branch condition depends on secret data"
                    continue
                ops = ins.get("ops", ())
                if op == "getelementptr":
                    base = pinfo(ops[0])
                    idx_t = any(opt(o) for o in ops[1:] if const_of(o) is None)
                    newp = gep_apply(base, ins, ops)
                    if newp != ptr[iid]:
                        ptr[iid] = newp
                        changed = True
                    bt = addr_t(ops[0])
                    if (idx_t or bt) and not ptr_t[iid]:
                        ptr_t[iid] = True
                        changed = True
                    continue
                if op in ("bitcast", "addrspacecast", "freeze") and ins["ty"].endswith("*"):
                    newp = pinfo(ops[0])
                    if newp != ptr[iid]:
                        ptr[iid] = newp
                        changed = True
                    if addr_t(ops[0]) and not ptr_t[iid]:
                        ptr_t[iid] = True
                        changed = True
                    if opt(ops[0]) and not vt[iid]:
                        vt[iid] = True
                        changed = True
                    continue
                if op == "inttoptr":
                    if opt(ops[0]):
                        if not vt[iid]:
                            vt[iid] = True
                            changed = True
                        if not ptr_t[iid]:
                            ptr_t[iid] = True
                            changed = True
                    src = ops[0]
                    # integer round-trips of pointers (alignment masks): keep the pointee, forget the offset
                    base = self._int_ptr_origin(fn, src)
                    if base is not None:
                        pi = pinfo(base)
                        if pi is not None:
                            newp = [(ob, None, None, rlo, rhi) for (ob, lo, hi, rlo, rhi) in pi]
                            if newp != ptr[iid]:
                                ptr[iid] = newp
                                changed = True
                    continue
                if op == "select" and ins["ty"].endswith("*"):
                    a, b = pinfo(ops[1]), pinfo(ops[2])
                    newp = None if (a is None or b is None) else sorted(set(a + b), key=str)
                    if newp != ptr[iid]:
                        ptr[iid] = newp
                        changed = True
                    if opt(ops[0]) and not ptr_t[iid]:
                        ptr_t[iid] = True       # which object is accessed depends on a secret
                        changed = True
                    continue
                if op == "load":
                    a = ops[0]
                    pi = pinfo(a)
                    at = addr_t(a)
                    if at:
                        local_sinks[(iid, "address")] = "load address depends on secret data"
                    t = False
                    for ob, lo, hi in touched(pi, ins["size"]):
                        if obj_tainted(ob, lo, hi):
                            t = True
                    if t and not vt[iid]:
                        vt[iid] = True
                        changed = True
                    if ins["ty"].endswith("*"):
                        # pointer loaded from memory: what was stored there (exact cells), else unknown;
                        # tainted memory => tainted address
                        if t and not ptr_t[iid]:
                            ptr_t[iid] = True
                            changed = True
                        got = []
                        known = pi is not None
                        if pi:
                            for (ob, lo, hi, rlo, rhi) in pi:
                                if lo is not None and lo == hi and (ob, lo) in ptrmem:
                                    got += ptrmem[(ob, lo)]
                                elif lo is None or lo != hi:
                                    for (ob2, _o), v in ptrmem.items():
                                        if ob2 == ob:
                                            got += v
                                else:
                                    known = False
                        newp = sorted(set(got), key=str) if (known and got) else None
                        if newp != ptr[iid]:
                            ptr[iid] = newp
                            changed = True
                    continue
                if op == "store":
                    v, a = ops
                    pi = pinfo(a)
                    at = addr_t(a)
                    if at:
                        local_sinks[(iid, "address")] = "store address depends on secret data"
                    if opt(v):
                        for ob, lo, hi in touched(pi, ins["size"]):
                            if taint_obj(ob, lo, hi):
                                changed = True
                    vp = pinfo(v) if v[0] in ("v", "a", "g", "ce") else None
                    if vp and pi:
                        for (ob, lo, hi, rlo, rhi) in pi:
                            if lo is not None and lo == hi:
                                cur = ptrmem.setdefault((ob, lo), [])
                                for x in vp:
                                    if x not in cur:
                                        cur.append(x)
                                        changed = True
                    continue
                if op in ("call", "invoke"):
                    if self._call(fn, iid, ins, cfg, chain, vt, ptr_t, opt, pinfo, touched, obj_tainted, taint_obj,
                                  local_sinks, obj):
                        changed = True
                    continue
                if op == "ret":
                    if ops and opt(ops[0]):
                        ret_t = True
                    continue
                if op in ("udiv", "urem", "sdiv", "srem"):
                    if any(opt(o) for o in ops):
                        self.notes[(fn.key, iid)] = (fn, iid, "%s on secret-dependent operand (variable-latency division)" % op, chain)
                # generic value op
                t = any(opt(o) for o in ops)
                if t and not vt[iid]:
                    vt[iid] = True
                    changed = True
        # record sinks
        for (iid, kind), detail in local_sinks.items():
            s = Sink(fn, iid, kind, detail, chain)
            self.sinks.setdefault(s.key(), s)
        outp = []
        for i in range(len(fn.params)):
            outp.append(norm(obj.get(("P", i), ())))
        # globals tainted by this function are kept in a program-wide object store
        for ob, rs in obj.items():
            if ob[0] in ("G", "UNKNOWN") and rs:
                g = self.__dict__.setdefault("global_taint", {})
                g.setdefault(ob, set()).update(rs)
        return (ret_t, tuple(outp))

    def _slot(self, fn, ins):
        c = ins["callee"]
        if c[0] != "v":
            return None
        d = fn.insts[c[1]]
        if d["op"] != "load":
            return None
        a = d["ops"][0]
        if a[0] == "v":
            g = fn.insts[a[1]]
            if g["op"] == "getelementptr":
                return self.cg._slot_of_gep(fn, g)
        if a[0] == "ce" and a[1] == "getelementptr":
            return self.cg._slot_of_gep(fn, a[3])
        return None

    def _int_ptr_origin(self, fn, o, depth=0):
        while o[0] == "v" and depth < 12:
            d = fn.insts[o[1]]
            if d["op"] == "ptrtoint":
                return d["ops"][0]
            if d["op"] in ("and", "add", "sub", "or"):
                a, b = d["ops"]
                o = a if a[0] == "v" else b
                depth += 1
                continue
            return None
        return None

    # ---- calls ----------------------------------------------------------------------------------
    def _call(self, fn, iid, ins, cfg, chain, vt, ptr_t, opt, pinfo, touched, obj_tainted, taint_obj, local_sinks, obj):
        changed = False
        ops = ins["ops"]
        callee = self.prog.resolve_callee(fn, ins["callee"])
        targets = []
        if callee[0] == "fn":
            targets = [callee[1]]
        elif callee[0] == "ind":
            tg, complete = self.cg.resolve_indirect(fn, ins)
            sl = self._slot(fn, ins)
            if sl is not None:
                self.slots_seen.add(sl[0])
                if sl[0] in self.choose:
                    unit, gname = self.choose[sl[0]]
                    tname = self.cg.global_fnptr.get((unit, gname), {}).get(tuple(sl[1]))
                    t = self.prog.fn(tname, unit) if tname else None
                    tg, complete = ([t] if t is not None else []), True
            if not complete:
                self.unknown_calls[(fn.key, iid)] = (fn, iid)
            targets = tg
            c = ins["callee"]
            if c[0] == "v" and vt[c[1]]:
                local_sinks[(iid, "call-target")] = "indirect call target depends on secret data"
        elif callee[0] == "asm":
            fx = asmfx.parse(callee[1], ins["callee"][2])
            t = any(opt(o) for o in ops)
            pt = False
            for i, o in enumerate(ops):
                pi = pinfo(o) if o[0] in ("v", "a", "g", "ce") else None
                if pi and (fx["opaque"] or i in fx["reads"]):
                    for (ob, lo, hi, rlo, rhi) in pi:
                        if obj_tainted(ob, 0, ALLR[1]):
                            pt = True
            if (t or pt) and fx["cond_jump"]:
                local_sinks[(iid, "asm-branch")] = "inline asm with a conditional jump consumes secret data"
            if (t or pt):
                if ins["ty"] != "void" and not vt[iid]:
                    vt[iid] = True
                    changed = True
                for i in (fx["writes"] if not fx["opaque"] else range(len(ops))):
                    if i < len(ops):
                        pi = pinfo(ops[i])
                        if pi:
                            for (ob, lo, hi, rlo, rhi) in pi:
                                if taint_obj(ob, 0, ALLR[1]):
                                    changed = True
            return changed
        else:
            name = callee[1]
            return self._ext_call(fn, iid, ins, name, vt, opt, pinfo, touched, obj_tainted, taint_obj, local_sinks, obj)

        if not targets:
            return changed
        # build the callee configuration
        ccfg = []
        argp = []
        for i, o in enumerate(ops):
            vtaint = opt(o) or (o[0] == "v" and ptr_t[o[1]])
            prs = ()
            reg = None
            pi = pinfo(o) if (o[0] in ("v", "a", "g", "ce")) else None
            argp.append(pi)
            if pi:
                # extent of the (sub)object the callee receives: the tightest common region of all pointees
                regs = set()
                for (ob, lo, hi, rlo, rhi) in pi:
                    if lo is not None and lo == hi and rhi is not None and rlo is not None and rlo <= lo:
                        regs.add(rhi - lo)
                    else:
                        regs.add(None)
                if len(regs) == 1 and None not in regs:
                    reg = next(iter(regs))
                rs = set()
                for (ob, lo, hi, rlo, rhi) in pi:
                    ors = obj.get(ob)
                    if not ors:
                        continue
                    if lo is None or lo != hi:
                        # inexact base: anything tainted in the region taints the whole view
                        rs.add(ALLR)
                    else:
                        for a, b in ors:
                            if b > lo:
                                rs.add((max(a - lo, 0), b - lo if b < ALLR[1] else ALLR[1]))
                prs = norm(rs)
            ccfg.append((bool(vtaint), prs, reg))
        rt = False
        for t in targets:
            tcfg = tuple(ccfg[:len(t.params)]) + tuple((False, (), None) for _ in range(len(t.params) - len(ccfg)))
            r_t, outp = self.analyze(t, tcfg, chain + (t.sname,))
            if t.sname in self.declass_ret:
                where = self.declass_ret[t.sname]
                if callable(where):
                    if where(fn, ins, t):
                        r_t = False
                elif where is None or (chain and chain[-1] in where):
                    r_t = False
            rt = rt or r_t
            for i, rs in enumerate(outp):
                if not rs or i >= len(argp) or not argp[i]:
                    continue
                for (ob, lo, hi, rlo, rhi) in argp[i]:
                    for a, b in rs:
                        if lo is None or lo != hi or b >= ALLR[1]:
                            if lo is not None and lo == hi and b >= ALLR[1]:
                                if taint_obj(ob, lo + a, ALLR[1]):
                                    changed = True
                            elif rlo is not None and rhi is not None:
                                if taint_obj(ob, rlo, rhi):
                                    changed = True
                            else:
                                if taint_obj(ob, 0, ALLR[1]):
                                    changed = True
                        else:
                            if taint_obj(ob, lo + a, lo + b):
                                changed = True
        if rt and ins["ty"] != "void" and not vt[iid]:
            vt[iid] = True
            changed = True
        return changed

    def _ext_call(self, fn, iid, ins, name, vt, opt, pinfo, touched, obj_tainted, taint_obj, local_sinks, obj):
        changed = False
        ops = ins["ops"]
        if name.startswith("llvm.dbg") or name.startswith("llvm.lifetime") or name.startswith("llvm.assume"):
            return False
        if name.startswith(("llvm.memcpy", "llvm.memmove")):
            dst, src, ln = ops[0], ops[1], ops[2]
            n = int(ln[1]) if ln[0] == "i" else None
            if opt(ln):
                local_sinks[(iid, "length")] = "memcpy length depends on secret data"
            sp, dp = pinfo(src), pinfo(dst)
            t = False
            src_rs = []
            if sp is None:
                t = obj_tainted(("UNKNOWN",), 0, ALLR[1])
            else:
                for (ob, lo, hi, rlo, rhi) in sp:
                    if lo is None or lo != hi or n is None:
                        if obj_tainted(ob, 0 if lo is None else lo, ALLR[1] if n is None else (hi if hi is not None else 0) + n):
                            t = True
                    else:
                        src_rs.append((ob, lo))
            if dp is None:
                dp = [(("UNKNOWN",), None, None, 0, None)]
            for (dob, dlo, dhi, drlo, drhi) in dp:
                if t:
                    if dlo is None:
                        a_, b_ = (drlo, drhi) if (drlo is not None and drhi is not None) else (0, ALLR[1])
                    elif dlo != dhi or n is None:
                        a_ = dlo
                        b_ = drhi if drhi is not None else ALLR[1]
                        if n is not None and dhi is not None:
                            b_ = min(b_, dhi + n)
                    else:
                        a_, b_ = dlo, dlo + n
                    if taint_obj(dob, a_, b_):
                        changed = True
                for (sob, slo) in src_rs:
                    for a, b in list(obj.get(sob, ())):
                        if a < slo + n and slo < b:
                            ra, rb = max(a, slo) - slo, min(b, slo + n) - slo
                            if dlo is None:
                                a_, b_ = (drlo, drhi) if (drlo is not None and drhi is not None) else (0, ALLR[1])
                            elif dlo != dhi:
                                a_, b_ = dlo, (drhi if drhi is not None else ALLR[1])
                            else:
                                a_, b_ = dlo + ra, dlo + rb
                            if taint_obj(dob, a_, b_):
                                changed = True
            return changed
        if name.startswith("llvm.memset"):
            dst, val, ln = ops[0], ops[1], ops[2]
            if opt(ln):
                local_sinks[(iid, "length")] = "memset length depends on secret data"
            if opt(val):
                dp = pinfo(dst) or [(("UNKNOWN",), None, None, 0, None)]
                for (dob, dlo, dhi, drlo, drhi) in dp:
                    if taint_obj(dob, 0 if dlo is None else dlo, ALLR[1]):
                        changed = True
            return changed
        if name.startswith(PURE_MATH_PREFIX):
            if "maskstore" in name or ".store" in name:
                if any(opt(o) for o in ops[1:]):
                    dp = pinfo(ops[0]) or [(("UNKNOWN",), None, None, 0, None)]
                    for (dob, dlo, dhi, drlo, drhi) in dp:
                        if taint_obj(dob, 0 if dlo is None else dlo, ALLR[1]):
                            changed = True
                return changed
            t = any(opt(o) for o in ops)
            if t and ins["ty"] != "void" and not vt[iid]:
                vt[iid] = True
                changed = True
            return changed
        # libc and other externals
        t_val = any(opt(o) for o in ops)
        t_mem = False
        for o in ops:
            if o[0] in ("v", "a", "g", "ce"):
                pi = pinfo(o)
                if pi:
                    for (ob, lo, hi, rlo, rhi) in pi:
                        if obj_tainted(ob, 0, ALLR[1]):
                            t_mem = True
        if name in VARTIME_EXT and (t_val or t_mem):
            local_sinks[(iid, "vartime-call")] = "variable-time %s() is applied to secret data" % name
        if name in ("explicit_bzero", "free", "abort", "__errno_location", "sodium_misuse", "__assert_fail", "raise", "munmap",
                    "mprotect", "madvise", "mlock", "munlock"):
            return False
        w = ext_writes(name)
        if (t_val or t_mem) and ins["ty"] != "void" and name not in ("malloc", "calloc", "mmap"):
            if not vt[iid]:
                vt[iid] = True
                changed = True
        if (t_val or t_mem):
            for i in (w if w is not None else range(len(ops))):
                if i < len(ops):
                    pi = pinfo(ops[i])
                    if pi:
                        for (ob, lo, hi, rlo, rhi) in pi:
                            if taint_obj(ob, 0, ALLR[1]):
                                changed = True
        return changed

