"""Program model over the irx JSON facts: modules, functions, symbol resolution, call graph."""
import json
import os
import re

from .build import AnalysisBroken, SRCDIR


class Function:
    __slots__ = ("name", "unit", "j", "decl", "internal", "hidden", "noreturn", "params",
                 "blocks", "insts", "file", "line", "srcname", "features", "key", "_users",
                 "intrinsic", "ret", "sname", "inl")

    def __init__(self, unit, j):
        self.unit = unit
        self.j = j
        self.name = j["name"]
        self.decl = bool(j["decl"])
        self.internal = bool(j["internal"])
        self.hidden = bool(j["hidden"])
        self.noreturn = bool(j["noreturn"])
        self.intrinsic = bool(j.get("intrinsic"))
        self.params = j["params"]
        self.blocks = j.get("blocks", [])
        self.insts = j.get("insts", [])
        self.file = j.get("file", unit)
        self.line = j.get("line", 0)
        self.srcname = j.get("srcname", self.name)
        self.features = j.get("features", "")
        self.ret = j.get("ret", "void")
        self.key = (unit, self.name) if self.internal else self.name
        self.sname = self.name      # source spelling (private/quirks.h renames undone)
        self._users = None
        self.inl = None             # synthetic twin with static helpers inlined (lib/vf/inline.py)

    @property
    def public(self):
        """exported API symbol (the build uses -fvisibility=hidden; SODIUM_EXPORT = default)"""
        return (not self.decl) and (not self.internal) and (not self.hidden)

    def param_index(self, name):
        for i, p in enumerate(self.params):
            if p["name"] == name:
                return i
        return None

    def loc(self, inst_id=None):
        if inst_id is None:
            return "%s:%d" % (self.file, self.line)
        if inst_id >= len(self.insts) and self.inl is not None:
            return self.inl.loc(inst_id)        # an event of the inlined twin (ids of the original are preserved in it)
        ins = self.insts[inst_id]
        return "%s:%d" % (ins.get("fl", self.file), ins.get("ln", 0))

    def users(self):
        if self._users is None:
            u = {}
            for i, ins in enumerate(self.insts):
                for o in inst_operands(ins):
                    if o[0] == "v":
                        u.setdefault(o[1], []).append(i)
            self._users = u
        return self._users

    def __repr__(self):
        return "<fn %s>" % self.name


def inst_operands(ins):
    """all value operands of an instruction (including phi incomings, conditions, callee)"""
    if "inc" in ins:
        for v, _b in ins["inc"]:
            yield v
        return
    if "cond" in ins:
        yield ins["cond"]
    for o in ins.get("ops", ()):
        yield o
    if "callee" in ins:
        yield ins["callee"]


def walk_const(c):
    """yield every leaf/global reference inside a constant (expression)"""
    yield c
    if c[0] == "ce":
        for o in c[2]:
            yield from walk_const(o)
    elif c[0] == "agg":
        for o in c[1]:
            yield from walk_const(o)


class Module:
    def __init__(self, unit, path):
        self.unit = unit
        with open(path) as f:
            j = json.load(f)
        self.structs = j["structs"]
        self.globals = {g["name"]: g for g in j["globals"]}
        self.functions = {}
        for fj in j["functions"]:
            fn = Function(unit, fj)
            self.functions[fn.name] = fn


class Program:
    def __init__(self, unit_json, asm_units=(), consts=None, config="native"):
        self.modules = {}
        self.config = config
        self.consts = consts or {}
        self.asm_units = list(asm_units)
        for unit, path in sorted(unit_json.items()):
            self.modules[unit] = Module(unit, path)
        self.quirks = {}     # source spelling -> IR symbol, read from private/quirks.h
        qh = os.path.join(SRCDIR, "include", "sodium", "private", "quirks.h")
        if os.path.exists(qh):
            for line in open(qh):
                mm = re.match(r"#define (\w+) (\w+)\s*$", line)
                if mm:
                    self.quirks[mm.group(1)] = mm.group(2)
        rq = {v: k for k, v in self.quirks.items()}
        for m in self.modules.values():
            for fn in m.functions.values():
                fn.sname = rq.get(fn.name, fn.name)
        self.ext = {}        # external-linkage definitions by name
        self.gext = {}       # external-linkage global definitions by name -> (unit, g)
        for m in self.modules.values():
            for fn in m.functions.values():
                if not fn.decl and not fn.internal:
                    if fn.name in self.ext:
                        raise AnalysisBroken("duplicate external definition of %s" % fn.name)
                    self.ext[fn.name] = fn
            for g in m.globals.values():
                if not g["decl"] and not g["internal"]:
                    self.gext[g["name"]] = (m.unit, g)
        self._cg = None

    # ---- lookup ----------------------------------------------------------------
    def functions(self):
        for m in self.modules.values():
            for fn in m.functions.values():
                if not fn.decl:
                    yield fn

    def fn(self, name, unit=None):
        """defined function by IR symbol or source spelling; `unit` needed for internal ones"""
        if name in self.quirks and self.quirks[name] in self.ext:
            name = self.quirks[name]
        if unit is not None:
            f = self.modules[unit].functions.get(name)
            if f is not None and not f.decl:
                return f
        f = self.ext.get(name)
        if f is not None:
            return f
        if unit is None:
            # unique internal definition?
            c = [m.functions[name] for m in self.modules.values()
                 if name in m.functions and not m.functions[name].decl]
            if len(c) == 1:
                return c[0]
        return None

    def need(self, name, unit=None, rule=""):
        f = self.fn(name, unit)
        if f is None:
            raise AnalysisBroken("anchor function %s%s not found in the current tree (%s)"
                                 % (name, " in " + unit if unit else "", rule))
        return f

    def by_srcname(self, srcname):
        return [f for f in self.functions() if f.srcname == srcname]

    def resolve_callee(self, fn, callee):
        """callee operand -> ('fn', Function) | ('ext', name) | ('asm', text) | ('ind', operand)"""
        if callee[0] == "g":
            m = self.modules[fn.unit]
            f = m.functions.get(callee[1])
            if f is not None and not f.decl:
                return ("fn", f)
            f = self.ext.get(callee[1])
            if f is not None:
                return ("fn", f)
            return ("ext", callee[1])
        if callee[0] == "asm":
            return ("asm", callee[1])
        if callee[0] == "ce" and callee[1] == "bitcast":
            return self.resolve_callee(fn, callee[2][0])
        return ("ind", callee)

    def global_def(self, fn_or_unit, name):
        unit = fn_or_unit.unit if isinstance(fn_or_unit, Function) else fn_or_unit
        g = self.modules[unit].globals.get(name)
        if g is not None and not g["decl"]:
            return (unit, g)
        return self.gext.get(name)

    def K(self, name):
        if name not in self.consts:
            raise AnalysisBroken("public constant %s not found in sodium.h" % name)
        return self.consts[name]

    # ---- call graph with slot-resolved indirect calls ---------------------------
    def callgraph(self):
        if self._cg is None:
            from .callgraph import CallGraph
            self._cg = CallGraph(self)
        return self._cg


def load_program(wd, config="native", opt="O0", **kw):
    from . import build
    res, asm, _db = build.build_ir(wd, config=config, opt=opt, **kw)
    consts = build.header_constants(wd)
    return Program(res, asm, consts, config)
