"""IR-level inlining of small static helpers (refactoring robustness for the path rules).

`inlined(prog, fn)` returns a synthetic Function in which every direct call to an *internal* (static),
loop-free, small function of the same unit has been replaced by the callee's body: the calling block is split, the
callee's blocks are appended with renumbered SSA ids and block indices, its parameters are replaced by the call's
operands, its returns become branches to the continuation block, and the call's result becomes a phi over the
returned values (keeping the call's SSA id, so every user stays valid). Dominators, post-dominators and natural-loop
information are recomputed. The rules then see `push()` with its tail factored into a helper exactly as they see the
original `push()`."""
import copy

from .model import Function

MAX_INSTS = 200


def _remap_operand(o, off, boff, args):
    if not isinstance(o, list) or not o:
        return o
    if o[0] == "v":
        return ["v", o[1] + off]
    if o[0] == "a":
        return copy.deepcopy(args[o[1]]) if o[1] < len(args) else ["undef"]
    return copy.deepcopy(o)


def _inline_one(fn_j, k, g, unit_tag):
    insts, blocks = fn_j["insts"], fn_j["blocks"]
    call = insts[k]
    args = call.get("ops", [])
    B = call["b"]
    pos = blocks[B]["insts"].index(k)
    before, after = blocks[B]["insts"][:pos], blocks[B]["insts"][pos + 1:]
    nb = len(blocks)                    # continuation block
    boff = nb + 1                       # callee block offset
    off = len(insts)                    # callee inst offset
    rets = []
    new_insts = []
    for q, ci in enumerate(g.insts):
        ni = copy.deepcopy(ci)
        ni["b"] = ci["b"] + boff
        if "ops" in ni:
            ni["ops"] = [_remap_operand(o, off, boff, args) for o in ni["ops"]]
        if "cond" in ni:
            ni["cond"] = _remap_operand(ni["cond"], off, boff, args)
        if "inc" in ni:
            ni["inc"] = [[_remap_operand(o, off, boff, args), b + boff] for o, b in ni["inc"]]
        if "callee" in ni and isinstance(ni["callee"], list) and ni["callee"] and ni["callee"][0] in ("v", "a"):
            ni["callee"] = _remap_operand(ni["callee"], off, boff, args)
        if "succ" in ni:
            ni["succ"] = [s + boff for s in ni["succ"]]
        if "cases" in ni:
            ni["cases"] = [[cv, s + boff] for cv, s in ni["cases"]]
        if "default" in ni and isinstance(ni["default"], int):
            ni["default"] = ni["default"] + boff
        if ni["op"] == "ret":
            rv = ni["ops"][0] if ni.get("ops") else None
            rets.append((rv, ni["b"]))
            ni = {"op": "br", "b": ni["b"], "ty": "void", "succ": [nb], "ln": ci.get("ln", 0)}
            if "fl" in ci:
                ni["fl"] = ci["fl"]
        new_insts.append(ni)
    insts.extend(new_insts)
    # branch from the calling block into the callee
    jmp = {"op": "br", "b": B, "ty": "void", "succ": [boff], "ln": call.get("ln", 0)}
    if "fl" in call:
        jmp["fl"] = call["fl"]
    insts.append(jmp)
    jid = len(insts) - 1
    blocks[B]["insts"] = before + [jid]
    # the call's result
    if call.get("ty", "void") != "void" and rets:
        insts[k] = {"op": "phi", "b": nb, "ty": call["ty"], "name": call.get("name", "inl"), "ln": call.get("ln", 0),
                    "inc": [[copy.deepcopy(rv) if rv is not None else ["undef"], rb] for rv, rb in rets]}
        if "fl" in call:
            insts[k]["fl"] = call["fl"]
        cont_insts = [k] + after
    else:
        insts[k] = {"op": "bitcast", "b": nb, "ty": "i8*", "ops": [["null"]], "ln": call.get("ln", 0)}
        cont_insts = list(after)
    for i in after:
        insts[i]["b"] = nb
    # phis in the old successors referred to B as predecessor: now the continuation block
    term = insts[after[-1]] if after else None
    succs = []
    if term is not None:
        succs = list(term.get("succ", [])) + [s for _cv, s in term.get("cases", [])] + \
            ([term["default"]] if isinstance(term.get("default"), int) else [])
    for s in set(succs):
        for i in blocks[s]["insts"]:
            if insts[i]["op"] != "phi":
                break
            insts[i]["inc"] = [[o, nb if b == B else b] for o, b in insts[i]["inc"]]
    blocks.append({"name": blocks[B]["name"] + ".cont", "insts": cont_insts})
    for gb in g.blocks:
        blocks.append({"name": "%s.%s" % (unit_tag, gb["name"]), "insts": [i + off for i in gb["insts"]]})


def _recompute(fn_j):
    insts, blocks = fn_j["insts"], fn_j["blocks"]
    n = len(blocks)
    for b, blk in enumerate(blocks):
        t = insts[blk["insts"][-1]] if blk["insts"] else {}
        s = list(t.get("succ", [])) + [x for _cv, x in t.get("cases", [])] + \
            ([t["default"]] if isinstance(t.get("default"), int) else [])
        blk["succs"] = list(dict.fromkeys(s))
        blk["preds"] = []
    for b, blk in enumerate(blocks):
        for s in blk["succs"]:
            blocks[s]["preds"].append(b)
    # reachability
    reach = [False] * n
    stack = [0]
    while stack:
        b = stack.pop()
        if reach[b]:
            continue
        reach[b] = True
        stack.extend(blocks[b]["succs"])
    # dominators (iterative, sets; functions here are small)
    def doms(entry_set, preds_of, nodes):
        full = set(nodes)
        dom = {b: set(full) for b in nodes}
        for e in entry_set:
            dom[e] = {e}
        changed = True
        while changed:
            changed = False
            for b in nodes:
                if b in entry_set:
                    continue
                ps = [p for p in preds_of(b) if p in dom]
                new = set.intersection(*[dom[p] for p in ps]) if ps else set()
                new = new | {b}
                if new != dom[b]:
                    dom[b] = new
                    changed = True
        return dom
    nodes = [b for b in range(n) if reach[b]]
    dom = doms({0}, lambda b: [p for p in blocks[b]["preds"] if reach[p]], nodes)
    for b in range(n):
        blocks[b]["reach"] = 1 if reach[b] else 0
        blocks[b]["idom"] = -1
        if reach[b] and b != 0:
            cands = dom[b] - {b}
            # immediate dominator: the dominator dominated by all other dominators
            for c in cands:
                if all(d in dom[c] for d in cands):
                    blocks[b]["idom"] = c
                    break
    # post-dominators over a virtual exit
    exits = [b for b in nodes if not blocks[b]["succs"]]
    pdom = doms(set(exits), lambda b: blocks[b]["succs"], nodes)
    for b in range(n):
        blocks[b]["ipdom"] = -1
        if reach[b] and b not in exits:
            cands = pdom.get(b, {b}) - {b}
            for c in cands:
                if all(d in pdom[c] for d in cands):
                    blocks[b]["ipdom"] = c
                    break
    # natural loops
    loops = {}
    for u in nodes:
        for h in blocks[u]["succs"]:
            if reach[h] and h in dom[u]:
                body = loops.setdefault(h, {h})
                work = [u]
                while work:
                    x = work.pop()
                    if x in body:
                        continue
                    body.add(x)
                    work.extend(p for p in blocks[x]["preds"] if reach[p])
    for b in range(n):
        blocks[b]["loophdr"] = 1 if b in loops else 0
        inside = [h for h, body in loops.items() if b in body]
        blocks[b]["loopdepth"] = len(inside)
        inner = None
        for h in inside:
            if inner is None or len(loops[h]) < len(loops[inner]):
                inner = h
        blocks[b]["loop"] = (inner + 1) if inner is not None else 0


def _has_loop(g):
    return any(b.get("loophdr") for b in g.blocks)


_memo = {}


def inlined(prog, fn, keep=(), rounds=4):
    key = (id(prog), fn.key, tuple(sorted(keep)))
    if key in _memo:
        return _memo[key]
    j = None
    done = 0
    for _ in range(rounds * 8):
        insts = (j or fn.j)["insts"] if j else fn.insts
        target = None
        for k, ins in enumerate(insts):
            if ins.get("op") != "call":
                continue
            cal = ins.get("callee")
            if not cal or cal[0] != "g":
                continue
            g = prog.fn(cal[1], fn.unit)
            if g is None or g.decl or not g.internal or g.unit != fn.unit or g.name == fn.name:
                continue
            if g.file != fn.file:
                continue        # helpers from shared headers (load64_le, ...) stay calls: rules name them
            if g.sname in keep or g.name in keep or len(g.insts) > MAX_INSTS or _has_loop(g):
                continue
            if any(i.get("op") == "call" and (i.get("callee") or [None, None])[1] == g.name for i in g.insts):
                continue        # recursive
            target = (k, g)
            break
        if target is None:
            break
        if j is None:
            j = copy.deepcopy(fn.j)
        _inline_one(j, target[0], target[1], target[1].name)
        done += 1
    if j is None:
        _memo[key] = fn
        return fn
    _recompute(j)
    nf = Function(fn.unit, j)
    nf.sname = fn.sname
    nf.key = (fn.unit, fn.name + "#inlined")
    nf.internal = fn.internal
    fn.inl = nf
    _memo[key] = nf
    return nf
