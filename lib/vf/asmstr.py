"""E17 — coverage of `rep stos` / `rep movs` fills and copies in the hand-written assembly units (AT&T syntax).

The only thing decided about the .S units: a buffer fill that is split into a wide `rep stos{q,l,w}` part and a
byte remainder must cover exactly the length it was given. Within one straight-line run of instructions (no label,
no jump in between) %rcx is tracked as a function of the register it was copied from:

    mov  %R, %rcx          count = R
    shr  $k, %rcx          count = R >> k
    and  $m, %rcx          count = R & m
    rep stos{b,w,l,q}      stores width * count bytes

For one source register R the fills of a run must add up to R bytes for every R:  either a single
`rep stosb` with count R, or width 2^k with count R >> k followed / preceded by a byte fill with count
R & (2^k - 1). Anything else (`8 * (R >> 3) + (R & 3)`) leaves bytes unfilled - for the Salsa20 keystream form
the caller's old buffer content is then XORed into the keystream. Nothing else about the assembly is analysed
(DESIGN 10.6, seed S97)."""
import os
import re

from .build import SRCDIR

WIDTH = {"b": 1, "w": 2, "l": 4, "q": 8}


def fills(path):
    """[(first line number, [(width, source register, shift, mask or None)])] per straight-line run containing rep stos"""
    out = []
    cur, rcx, start, kind = [], None, None, None
    with open(path) as f:
        lines = f.read().split("\n")
    for ln, raw in enumerate(lines, 1):
        line = raw.split("#")[0].strip() if not raw.lstrip().startswith("#") else ""
        if not line:
            continue
        if line.endswith(":") or re.match(r"^(j[a-z]+|call|ret|loop)\b", line):
            if cur:
                out.append((start, cur))
            cur, rcx, start = [], None, None
            continue
        m = re.match(r"^movq?\s+%(\w+)\s*,\s*%rcx$", line)
        if m:
            rcx = (m.group(1), 0, None)
            continue
        m = re.match(r"^shrq?\s+\$(\d+)\s*,\s*%rcx$", line)
        if m and rcx is not None:
            rcx = (rcx[0], rcx[1] + int(m.group(1)), rcx[2]) if rcx[2] is None else None
            continue
        m = re.match(r"^andq?\s+\$(\d+)\s*,\s*%rcx$", line)
        if m and rcx is not None:
            rcx = (rcx[0], rcx[1], int(m.group(1)) if rcx[2] is None else rcx[2] & int(m.group(1)))
            continue
        m = re.match(r"^rep\s+(stos|movs)([bwlq])$", line)
        if m:
            if cur and kind != m.group(1):
                out.append((start, cur))
                cur, start = [], None
            kind = m.group(1)
            if start is None:
                start = ln
            cur.append((WIDTH[m.group(2)], rcx))
            rcx = None                       # rcx is zero after rep
            continue
        if re.search(r"%[re]?cx\b|%cl\b", line) and not line.startswith(("cmp", "test")):
            rcx = None                       # written or used in a way that is not modelled
    if cur:
        out.append((start, cur))
    return out


def covers_exactly(run):
    """does the run fill exactly R bytes for its source register R? (True / False / None = not decidable here)"""
    if any(c is None for _w, c in run):
        return None
    regs = {c[0] for _w, c in run}
    if len(regs) != 1:
        return None
    if len(run) == 1:
        w, (_r, sh, mask) = run[0]
        return w == 1 and sh == 0 and mask is None
    if len(run) == 2:
        wide = [x for x in run if x[0] > 1]
        byte = [x for x in run if x[0] == 1]
        if len(wide) != 1 or len(byte) != 1:
            return False
        w, (_r, sh, mask) = wide[0]
        _w1, (_r1, sh1, mask1) = byte[0]
        return mask is None and (1 << sh) == w and sh1 == 0 and mask1 == w - 1
    return None


def fill_rule(prog, chk, rule, unit_prefixes, floor=1):
    n = 0
    for src in sorted(prog.asm_units):
        if not src.startswith(tuple(unit_prefixes)):
            continue
        path = os.path.join(SRCDIR, src)
        for start, run in fills(path):
            n += 1
            v = covers_exactly(run)
            desc = " + ".join("%d * (%s)" % (w, "?" if c is None else ("%s%s%s" % (c[0], " >> %d" % c[1] if c[1] else "",
                                                                                  " & %d" % c[2] if c[2] is not None else ""))) for w, c in run)
            chk.ob(rule, "%s (assembly)" % src, "`rep stos / movs` sequence starting at line %d covers exactly the length it is given" % start, v is True,
                   loc="%s:%d" % (src, start), detail="fills %s bytes%s" % (desc, "" if v is True else
                                                                           (": this is not the source length for every value" if v is False
                                                                            else ": count not derived from one length register")),
                   key="%s %s fill@%d" % (rule, src, start))
    chk.floor(rule, "`rep stos` / `rep movs` sequences in the assembly units", n, floor)


# ---- register dependence in a straight-line segment (the freeze decision of fe51_pack.S) ---------------------------------------
_R64 = {"eax": "rax", "ebx": "rbx", "ecx": "rcx", "edx": "rdx", "esi": "rsi", "edi": "rdi", "al": "rax", "bl": "rbx", "cl": "rcx", "dl": "rdx"}


def _reg(tok):
    tok = tok.strip()
    if not tok.startswith("%"):
        return None
    r = tok[1:]
    if re.match(r"r\d+[dwb]$", r):
        r = r[:-1]
    return _R64.get(r, r)


def mask_dependence(path):
    """-> (limb registers loaded from the input at function entry, [(line number, mask register, registers the mask depends on)])
    for every `neg %R` that follows a run of cmp / cmov in a label-free segment. Dependences are tracked through mov, two-operand
    ALU instructions, cmp -> flags and cmov <- flags; every register starts the segment as its own source."""
    with open(path) as f:
        lines = f.read().split("\n")
    limbs = []
    out = []
    deps, flags = None, set()
    entry = True
    for ln, raw in enumerate(lines, 1):
        line = raw.split("#")[0].strip() if not raw.lstrip().startswith(("#", "/*", "*")) else ""
        if not line or line.startswith("."):
            if line.endswith(":"):
                deps, flags, entry = {}, set(), False
            continue
        if line.endswith(":"):
            if not line.startswith(("fe51", "_fe51")):
                entry = False
            deps, flags = {}, set()
            continue
        m = re.match(r"^(\w+)\s*(.*)$", line)
        mn, rest = m.group(1), m.group(2)
        args = [a.strip() for a in re.split(r",(?![^()]*\))", rest)] if rest else []
        if re.match(r"^j[a-z]+$", mn):
            deps, flags, entry = {}, set(), False
            continue
        if deps is None:
            deps = {}

        def d(r):
            return deps.get(r, {r})
        if entry and mn.startswith("mov") and len(args) == 2:
            mm = re.match(r"^(\d+)\(%rsi\)$", args[0])
            if mm and _reg(args[1]):
                limbs.append(_reg(args[1]))
        if mn.startswith("cmov") and len(args) == 2:
            s_, t_ = _reg(args[0]), _reg(args[1])
            if t_:
                deps[t_] = set(d(t_)) | (set(d(s_)) if s_ else set()) | flags
        elif mn.startswith("mov") and len(args) == 2:
            s_, t_ = _reg(args[0]), _reg(args[1])
            if t_:
                deps[t_] = set(d(s_)) if s_ else set()
        elif mn.startswith(("cmp", "test")) and len(args) == 2:
            flags = set()
            for a in args:
                r = _reg(a)
                if r:
                    flags |= d(r)
        elif mn.startswith("neg") and len(args) == 1:
            r = _reg(args[0])
            if r:
                out.append((ln, r, set(d(r))))
                flags = set(d(r))
        elif mn.startswith("lea") and len(args) == 2:
            t_ = _reg(args[1])
            if t_:
                deps[t_] = set().union(*[d(_reg("%" + x)) for x in re.findall(r"%(\w+)", args[0])] or [set()])
        elif len(args) >= 2:
            t_ = _reg(args[-1])
            if t_:
                acc = set(d(t_))
                for a in args[:-1]:
                    r = _reg(a)
                    if r:
                        acc |= d(r)
                deps[t_] = acc
                flags = set(acc)
    return limbs, out


def freeze_rule(prog, chk, rule, unit):
    """the conditional final subtraction of p in fe51_pack (canonical encoding, "non-canonical coordinates reduced") is decided
    by a mask that depends on all five limbs: h >= p needs limb 0 >= 2^51 - 19 and *every* other limb == 2^51 - 1"""
    if not any(u.startswith(os.path.dirname(unit) + "/") for u in prog.asm_units):
        chk.floor(rule, "freeze masks in %s" % unit, 0, 0)           # the assembly backend is not part of this configuration
        return
    limbs, masks = mask_dependence(os.path.join(SRCDIR, unit))
    n = 0
    for ln, r, ds in masks:
        n += 1
        missing = [x for x in limbs if x not in ds]
        ok = len(limbs) == 5 and not missing
        chk.ob(rule, "%s (assembly)" % unit, "the freeze mask %%%s negated at line %d depends on all five limbs (%s)" % (r, ln, ", ".join("%" + x for x in limbs)),
               ok, loc="%s:%d" % (unit, ln), detail="" if ok else "no comparison of %s reaches the mask: values with that limb below 2^51 - 1 and "
               "all compared limbs at their maximum are 'reduced' by subtracting p although they are smaller than p" %
               ", ".join("%" + x for x in missing), key="%s %s freeze-mask" % (rule, unit))
    chk.floor(rule, "freeze masks in %s" % unit, n, 1)
