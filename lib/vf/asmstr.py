"""E17 — coverage of `rep stos` / `rep movs` fills and copies in the hand-written assembly units (AT&T syntax).

The only thing decided about the .S units: a buffer fill that is split into a wide `rep stos{q,l,w}` part and a
byte remainder must cover exactly the length it was given. Within one straight-line run of instructions (no label,
no jump in between) %rcx is tracked as a function of the register it was copied from:

    mov  %R, %rcx          count = R
    shr  $k, %rcx          count = R >> k
    and  $m, %rcx          count = R & m
    rep stos{b,w,l,q}      stores width * count bytes

For one source register R the fills of a run must add up to R bytes for every R:  either a single
`rep stosb` with count R, or width 2^k with count R >> k followed / preceded by a byte fill with count
R & (2^k - 1). Anything else (`8 * (R >> 3) + (R & 3)`) leaves bytes unfilled - for the Salsa20 keystream form
the caller's old buffer content is then XORed into the keystream. Nothing else about the assembly is analysed
(DESIGN 10.6, seed S97)."""
import os
import re

from .build import SRCDIR

WIDTH = {"b": 1, "w": 2, "l": 4, "q": 8}


def fills(path):
    """[(first line number, [(width, source register, shift, mask or None)])] per straight-line run containing rep stos"""
    out = []
    cur, rcx, start, kind = [], None, None, None
    with open(path) as f:
        lines = f.read().split("\n")
    for ln, raw in enumerate(lines, 1):
        line = raw.split("#")[0].strip() if not raw.lstrip().startswith("#") else ""
        if not line:
            continue
        if line.endswith(":") or re.match(r"^(j[a-z]+|call|ret|loop)\b", line):
            if cur:
                out.append((start, cur))
            cur, rcx, start = [], None, None
            continue
        m = re.match(r"^movq?\s+%(\w+)\s*,\s*%rcx$", line)
        if m:
            rcx = (m.group(1), 0, None)
            continue
        m = re.match(r"^shrq?\s+\$(\d+)\s*,\s*%rcx$", line)
        if m and rcx is not None:
            rcx = (rcx[0], rcx[1] + int(m.group(1)), rcx[2]) if rcx[2] is None else None
            continue
        m = re.match(r"^andq?\s+\$(\d+)\s*,\s*%rcx$", line)
        if m and rcx is not None:
            rcx = (rcx[0], rcx[1], int(m.group(1)) if rcx[2] is None else rcx[2] & int(m.group(1)))
            continue
        m = re.match(r"^rep\s+(stos|movs)([bwlq])$", line)
        if m:
            if cur and kind != m.group(1):
                out.append((start, cur))
                cur, start = [], None
            kind = m.group(1)
            if start is None:
                start = ln
            cur.append((WIDTH[m.group(2)], rcx))
            rcx = None                       # rcx is zero after rep
            continue
        if re.search(r"%[re]?cx\b|%cl\b", line) and not line.startswith(("cmp", "test")):
            rcx = None                       # written or used in a way that is not modelled
    if cur:
        out.append((start, cur))
    return out


def covers_exactly(run):
    """does the run fill exactly R bytes for its source register R? (True / False / None = not decidable here)"""
    if any(c is None for _w, c in run):
        return None
    regs = {c[0] for _w, c in run}
    if len(regs) != 1:
        return None
    if len(run) == 1:
        w, (_r, sh, mask) = run[0]
        return w == 1 and sh == 0 and mask is None
    if len(run) == 2:
        wide = [x for x in run if x[0] > 1]
        byte = [x for x in run if x[0] == 1]
        if len(wide) != 1 or len(byte) != 1:
            return False
        w, (_r, sh, mask) = wide[0]
        _w1, (_r1, sh1, mask1) = byte[0]
        return mask is None and (1 << sh) == w and sh1 == 0 and mask1 == w - 1
    return None


def fill_rule(prog, chk, rule, unit_prefixes, floor=1):
    n = 0
    for src in sorted(prog.asm_units):
        if not src.startswith(tuple(unit_prefixes)):
            continue
        path = os.path.join(SRCDIR, src)
        for start, run in fills(path):
            n += 1
            v = covers_exactly(run)
            desc = " + ".join("%d * (%s)" % (w, "?" if c is None else ("%s%s%s" % (c[0], " >> %d" % c[1] if c[1] else "",
                                                                                  " & %d" % c[2] if c[2] is not None else ""))) for w, c in run)
            chk.ob(rule, "%s (assembly)" % src, "`rep stos / movs` sequence starting at line %d covers exactly the length it is given" % start, v is True,
                   loc="%s:%d" % (src, start), detail="fills %s bytes%s" % (desc, "" if v is True else
                                                                           (": this is not the source length for every value" if v is False
                                                                            else ": count not derived from one length register")),
                   key="%s %s fill@%d" % (rule, src, start))
    chk.floor(rule, "`rep stos` / `rep movs` sequences in the assembly units", n, floor)
