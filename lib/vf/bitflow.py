"""E11 — which bits of an input buffer can influence a function's result? (forward bit-mask taint)

One *source bit* (byte B, bit k of the buffer a pointer parameter points to) is tracked through the
-O2 IR of a unit (no unrolling / vectorisation / inlining, so helpers stay calls). Every SSA value
carries the mask of its bits the source bit may influence:

    load through the parameter          mask = the position of the source bit if the load's byte range
                                        (constant, or start/stride/trip count from scalar evolution)
                                        contains B; all bits if the range is unknown
    and / or with a constant            bits the constant forces are cleared
    xor, and/or of two values           union
    shl / lshr / ashr by a constant     the mask is shifted
    add / sub / mul                     every bit from the lowest influenced bit upwards (carries)
    zext / sext / trunc                 widened / truncated
    icmp, select, phi                   1 / union (all bits when the condition is influenced)
    direct call passing the pointer on  the callee is analysed for the same source bit (memoised)
    anything else                       all bits

Sinks: the returned value, stores, conditional branches and calls taking an influenced value. The
result is a may-analysis: "bit cannot influence the result" is definite, "may influence" is an
over-approximation (used only for rules of the form *must be able to* influence, where absence is
the violation)."""
from . import e9


def _bits(ty):
    if ty.startswith("i") and ty[1:].isdigit():
        return int(ty[1:])
    return 0


def load_range(f, ins, pname):
    """(lo, hi) byte range (relative to parameter pname) a load may touch, None if it does not go
    through pname, or (None, None) if it does but the range is unknown"""
    sc = ins.get("scev")
    if sc is None:
        return (None, None)
    pa = e9.parse_addr(sc)
    if pa is None:
        return (None, None) if ("%" + pname) in sc else None
    st, stride, loop = pa
    if st.get(pname, 0) != 1:
        return None if not st.get(pname) else (None, None)
    rest = {k: v for k, v in st.items() if k not in ("", pname) and v}
    if rest:
        return (None, None)
    base = st.get("", 0)
    size = ins["size"]
    if loop is None:
        return (base, base + size)
    btc = None
    for b in f["blocks"]:
        if b.get("loophdr") and b["name"] == loop:
            btc = b.get("btc")
    try:
        n = int(btc)
    except (TypeError, ValueError):
        return (None, None)
    end = base + n * stride
    return (min(base, end), max(base, end) + size)


class BitFlow:
    def __init__(self, unit):
        self.unit = unit            # e9.O2Unit
        self.memo = {}

    def analyse(self, fname, pidx, byte, bit, depth=0):
        """-> dict(ret=mask of the returned value, stores=[inst ids], branches=[inst ids], calls=[inst ids])"""
        key = (fname, pidx, byte, bit)
        if key in self.memo:
            return self.memo[key]
        self.memo[key] = {"ret": 0, "stores": [], "branches": [], "calls": [], "loads": 0}     # recursion guard
        f = self.unit.fns.get(fname)
        if f is None or depth > 6:
            r = {"ret": -1, "stores": [], "branches": [], "calls": [-1], "loads": 0}
            self.memo[key] = r
            return r
        insts = f["insts"]
        pname = f["params"][pidx]["name"]
        mask = {}
        ptr = {}        # SSA id -> constant byte offset from the parameter (pointer values derived from it)
        res = {"ret": 0, "stores": [], "branches": [], "calls": [], "loads": 0}

        def m(o):
            if o[0] == "v":
                return mask.get(o[1], 0)
            return 0

        def full(ty):
            b = _bits(ty)
            return (1 << b) - 1 if b else -1

        def poff(o):
            if o[0] == "a":
                return 0 if o[1] == pidx else None
            if o[0] == "v":
                return ptr.get(o[1])
            return None

        changed = True
        rounds = 0
        while changed and rounds < 40:
            changed = False
            rounds += 1
            res = {"ret": 0, "stores": [], "branches": [], "calls": [], "loads": 0}
            for i, ins in enumerate(insts):
                op = ins["op"]
                ty = ins.get("ty", "")
                new = 0
                ops = ins.get("ops", [])
                if op == "getelementptr" or op == "bitcast":
                    b = poff(ops[0]) if ops else None
                    if b is not None:
                        if op == "bitcast":
                            ptr[i] = b
                        elif not ins.get("var") and ins.get("off") is not None:
                            ptr[i] = b + ins["off"]
                    continue
                if op == "load":
                    rg = load_range(f, ins, pname)
                    if rg is None:
                        # a load from somewhere else: influenced only if memory was (stores are sinks and reported)
                        new = 0
                    elif rg[0] is None:
                        res["loads"] += 1
                        new = full(ty)
                    else:
                        res["loads"] += 1
                        lo, hi = rg
                        if lo <= byte < hi:
                            if hi - lo == ins["size"] and _bits(ty):
                                new = 1 << (8 * (byte - lo) + bit)      # little-endian position inside the loaded value
                            elif ins["size"] == 1 and _bits(ty):
                                new = 1 << bit                          # a byte-wise scan that may read the source byte
                            else:
                                new = full(ty)
                elif op in ("zext",):
                    new = m(ops[0])
                elif op == "sext":
                    a = m(ops[0])
                    sb = ins.get("srcbits", 0)
                    new = a
                    if sb and a >> (sb - 1) & 1:
                        new |= full(ty) & ~((1 << sb) - 1)
                elif op == "trunc":
                    new = m(ops[0]) & full(ty)
                elif op in ("and", "or", "xor"):
                    a, b = ops
                    if b[0] == "i" or a[0] == "i":
                        c = b[1] if b[0] == "i" else a[1]
                        x = m(a) | m(b)
                        new = x & c if op == "and" else (x & ~c if op == "or" else x)
                    else:
                        new = m(a) | m(b)
                    new &= full(ty)
                elif op in ("shl", "lshr", "ashr"):
                    a, b = ops
                    if b[0] == "i" and m(b) == 0:
                        k = b[1]
                        if op == "shl":
                            new = (m(a) << k) & full(ty)
                        else:
                            new = m(a) >> k
                            if op == "ashr" and _bits(ty) and m(a) >> (_bits(ty) - 1) & 1:
                                new |= full(ty) & ~((1 << max(_bits(ty) - k, 0)) - 1)
                    elif m(a) or m(b):
                        new = full(ty)
                elif op in ("add", "sub", "mul"):
                    x = m(ops[0]) | m(ops[1])
                    if x:
                        low = (x & -x).bit_length() - 1 if x > 0 else 0
                        new = full(ty) & ~((1 << low) - 1)
                elif op == "icmp":
                    new = 1 if (m(ops[0]) or m(ops[1])) else 0
                elif op == "select":
                    c = ins.get("cond") or ops[0]
                    vals = ops[-2:]
                    new = m(vals[0]) | m(vals[1])
                    if m(c):
                        new = full(ty)
                elif op == "phi":
                    for o, _b in ins["inc"]:
                        new |= m(o)
                elif op == "call":
                    cal = ins.get("callee")
                    cname = cal[1] if cal and cal[0] == "g" else None
                    tainted_val = any(m(o) for o in ops)
                    passes = [(k, poff(o)) for k, o in enumerate(ops) if poff(o) is not None]
                    if cname and cname.startswith("llvm.") and not tainted_val and not passes:
                        new = 0
                    elif tainted_val:
                        new = full(ty) if ty != "void" else 0
                        res["calls"].append(i)
                    elif passes:
                        sub_ret = 0
                        for k, off in passes:
                            if cname in self.unit.fns and off is not None and byte - off >= 0:
                                r = self.analyse(cname, k, byte - off, bit, depth + 1)
                                sub_ret |= r["ret"]
                                if r["stores"] or r["calls"] or r["branches"]:
                                    res["calls"].append(i)
                            else:
                                sub_ret = -1
                                res["calls"].append(i)
                        new = (sub_ret & full(ty)) if ty != "void" else 0
                elif op == "store":
                    if m(ops[0]):
                        res["stores"].append(i)
                    continue
                elif op == "br" or op == "switch":
                    c = ins.get("cond") or (ops[0] if op == "switch" and ops else None)
                    if c is not None and m(c):
                        res["branches"].append(i)
                    continue
                elif op == "ret":
                    if ops:
                        res["ret"] |= m(ops[0])
                    continue
                else:
                    if any(m(o) for o in ops if isinstance(o, list)):
                        new = full(ty) if ty != "void" else 0
                if new != mask.get(i, 0):
                    mask[i] = new | mask.get(i, 0)
                    changed = True
        self.memo[key] = res
        return res
