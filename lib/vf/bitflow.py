"""E11 — which bits of an input buffer can influence a function's results? (forward bit-mask taint)

One *source bit* (byte B, bit k of the buffer a pointer parameter points to) is tracked through the
-O2 IR of a unit (no unrolling / vectorisation / inlining, so helpers stay calls). Every SSA value
carries the mask of its bits the source bit may influence:

    load through the parameter          mask = the position of the source bit if the load's byte range
                                        (constant, or start/stride/trip count from scalar evolution)
                                        contains B; all bits if the range is unknown
    and / or with a constant            bits the constant forces are cleared
    xor, and/or of two values           union
    shl / lshr / ashr by a constant     the mask is shifted
    add / sub / mul                     every bit from the lowest influenced bit upwards (carries)
    zext / sext / trunc                 widened / truncated
    icmp, select, phi                   1 / union (all bits when the condition is influenced)
    direct call passing the pointer on  the callee is analysed for the same source bit (memoised;
                                        callees in other units through the resolver)
    anything else                       all bits

Local arrays (allocas) are modelled flow-sensitively, one mask per byte: a store / memcpy / memset at a
constant offset is a strong update (so `t[0] &= 248` really clears the three low bits of the copy),
variable offsets are weak updates / unions, states are joined at control-flow merges and iterated to a
fixpoint. Handing a local array that holds an influenced byte to a callee is a sink (and makes every
array handed to that call influenced).

Sinks: the returned value, stores to non-local memory, conditional branches and calls taking an
influenced value or array. The result is a may-analysis: "the bit cannot influence anything" is
definite; "may influence" is an over-approximation (used only for rules of the form *must be able
to* influence, where absence is the violation)."""
from . import e9


def _bits(ty):
    if ty.startswith("i") and ty[1:].isdigit():
        return int(ty[1:])
    return 0


def load_range(f, ins, pname):
    """(lo, hi) byte range (relative to parameter pname) a load may touch, None if it does not go
    through pname, or (None, None) if it does but the range is unknown"""
    sc = ins.get("scev")
    if sc is None:
        return (None, None)
    pa = e9.parse_addr(sc)
    if pa is None:
        return (None, None) if ("%" + pname) in sc.replace("%" + pname + ".", "") else None
    st, stride, loop = pa
    if st.get(pname, 0) != 1:
        return None if not st.get(pname) else (None, None)
    rest = {k: v for k, v in st.items() if k not in ("", pname) and v}
    if rest:
        return (None, None)
    base = st.get("", 0)
    size = ins["size"]
    if loop is None:
        return (base, base + size)
    btc = None
    for b in f["blocks"]:
        if b.get("loophdr") and b["name"] == loop:
            btc = b.get("btc")
    try:
        n = int(btc)
    except (TypeError, ValueError):
        return (None, None)
    end = base + n * stride
    return (min(base, end), max(base, end) + size)


class BitFlow:
    def __init__(self, unit, resolver=None):
        """unit: e9.O2Unit; resolver(name) -> BitFlow of the unit defining `name` (or None)"""
        self.unit = unit
        self.resolver = resolver
        self.memo = {}

    def _lookup(self, name):
        if name in self.unit.fns:
            return self
        if self.resolver is not None:
            other = self.resolver(name)
            if other is not None and name in other.unit.fns:
                return other
        return None

    def analyse_int(self, fname, pidx, bit):
        """same, but the source is bit `bit` of the *integer* parameter pidx itself"""
        return self.analyse(fname, pidx, None, bit)

    def analyse_value(self, fname, vid, bit, cut_phis=False):
        """same, but the source is bit `bit` of the SSA value `vid` of the function itself. cut_phis: loop-header phis do
        not propagate (influence within one iteration only). The result carries the per-value masks under "masks"."""
        key = (fname, ("v", vid), cut_phis, bit)
        if key not in self.memo:
            f = self.unit.fns[fname]
            run = _Run(self, f, 0 if f["params"] else -1, None, bit, 0)
            run.pidx = -1
            run.src_vid = vid
            run.cut_phis = cut_phis
            r = run.run()
            r["masks"] = dict(run.mask)
            self.memo[key] = r
        return self.memo[key]

    def analyse(self, fname, pidx, byte, bit, depth=0, objs=None):
        """-> dict(ret=mask of the returned value, stores=[inst ids], branches=[inst ids], calls=[inst ids]).
        objs: {parameter index: size} - other pointer parameters modelled like local arrays (per-byte cells, strong updates at
        constant offsets), for functions that use their output buffer as the working copy (`unsigned char *t = q;`); the caller
        asserts they do not alias the source buffer."""
        key = (fname, pidx, byte, bit) if not objs else (fname, pidx, byte, bit, tuple(sorted(objs.items())))
        if key in self.memo:
            return self.memo[key]
        self.memo[key] = {"ret": 0, "stores": [], "branches": [], "calls": [], "loads": 0}     # recursion guard
        f = self.unit.fns.get(fname)
        if f is None or depth > 6:
            r = {"ret": -1, "stores": [], "branches": [], "calls": [-1], "loads": 0}
            self.memo[key] = r
            return r
        run = _Run(self, f, pidx, byte, bit, depth)
        for k, size in (objs or {}).items():
            run.allocas[-(k + 1)] = size
            run.pobj[k] = ("al", -(k + 1), 0)
        r = run.run()
        self.memo[key] = r
        return r


class _Run:
    def __init__(self, bf, f, pidx, byte, bit, depth):
        self.bf, self.f, self.pidx, self.byte, self.bit, self.depth = bf, f, pidx, byte, bit, depth
        self.insts = f["insts"]
        self.src_vid = None
        self.cut_phis = False
        self.pname = f["params"][pidx]["name"] if 0 <= pidx < len(f["params"]) else ""
        self.mask = {}
        self.base = {}      # SSA id -> ("p", off) pointer into the source buffer | ("al", alloca id, off or None)
        self.allocas = {i: ins.get("size", 0) for i, ins in enumerate(self.insts) if ins["op"] == "alloca"}
        self.pobj = {}      # parameter index -> ("al", -(index + 1), 0): pointer parameters modelled as objects
        for i in self.allocas:
            self.base[i] = ("al", i, 0)

    # -- helpers --------------------------------------------------------------------------------
    def m(self, o):
        if o[0] == "v":
            return self.mask.get(o[1], 0)
        if o[0] == "a" and self.byte is None and o[1] == self.pidx:
            return 1 << self.bit            # integer-parameter source
        return 0

    @staticmethod
    def full(ty):
        b = _bits(ty)
        return (1 << b) - 1 if b else -1

    def ptr(self, o):
        if o[0] == "a":
            if o[1] in self.pobj:
                return self.pobj[o[1]]
            return ("p", 0) if o[1] == self.pidx and self.byte is not None else None
        if o[0] == "v":
            return self.base.get(o[1])
        return None

    def _derive(self, i, ins):
        ops = ins.get("ops", [])
        b = self.ptr(ops[0]) if ops else None
        if b is None:
            return
        if ins["op"] == "bitcast":
            self.base[i] = b
            return
        const = not ins.get("var") and ins.get("off") is not None
        if b[0] == "p":
            if const and b[1] is not None:
                self.base[i] = ("p", b[1] + ins["off"])
            else:
                self.base[i] = ("p", None)
        else:
            self.base[i] = ("al", b[1], b[2] + ins["off"] if const and b[2] is not None else None)

    # -- memory ---------------------------------------------------------------------------------
    def _cells_any(self, st, a):
        x = 0
        for c in st[a]:
            x |= c
        return x

    def _load_cells(self, st, a, off, size, ty):
        if off is None or off < 0 or off + size > len(st[a]):
            x = self._cells_any(st, a) & 0xff
            v = 0
            for k in range(max(size, 1)):
                v |= x << (8 * k)
            return v & self.full(ty) if _bits(ty) else (-1 if x else 0)
        v = 0
        for k in range(size):
            v |= (st[a][off + k] & 0xff) << (8 * k)
        return v if _bits(ty) else (-1 if v else 0)

    def _store_cells(self, st, a, off, size, val):
        if off is None or off < 0 or off + size > len(st[a]):
            x = 0xff if val else 0
            if val > 0 and size and size <= 8:
                x = 0
                for k in range(size):
                    x |= (val >> (8 * k)) & 0xff
            for k in range(len(st[a])):
                st[a][k] |= x
            return
        for k in range(size):
            st[a][off + k] = 0xff if val < 0 else (val >> (8 * k)) & 0xff

    # -- main -----------------------------------------------------------------------------------
    def run(self):
        f, insts = self.f, self.insts
        blocks = f["blocks"]
        out = [None] * len(blocks)
        res = None
        for _round in range(60):
            changed = False
            res = {"ret": 0, "stores": [], "branches": [], "calls": [], "loads": 0}
            for b, blk in enumerate(blocks):
                if not blk.get("reach", 1):
                    continue
                ins_states = [out[p] for p in blk.get("preds", []) if out[p] is not None]
                if ins_states:
                    st = {a: list(ins_states[0][a]) for a in self.allocas}
                    for o in ins_states[1:]:
                        for a in self.allocas:
                            sa, oa = st[a], o[a]
                            for k in range(len(sa)):
                                sa[k] |= oa[k]
                elif not blk.get("preds"):
                    st = {a: [0] * n for a, n in self.allocas.items()}
                else:
                    continue            # no predecessor processed yet
                for i in blk["insts"]:
                    if self._step(i, insts[i], st, res):
                        changed = True
                if out[b] != st:
                    out[b] = st
                    changed = True
            if not changed:
                break
        return res

    def _step(self, i, ins, st, res):
        op = ins["op"]
        ty = ins.get("ty", "")
        ops = ins.get("ops", [])
        m, full = self.m, self.full
        new = 0
        if op in ("getelementptr", "bitcast"):
            self._derive(i, ins)
            return False
        if op == "alloca":
            return False
        if op == "load":
            b = self.ptr(ops[0])
            if b is not None and b[0] == "al":
                new = self._load_cells(st, b[1], b[2], ins.get("size", 0), ty)
            else:
                rg = load_range(self.f, ins, self.pname) if self.byte is not None else None
                if rg is None and b is not None and b[0] == "p":
                    rg = (None, None) if b[1] is None else (b[1], b[1] + ins["size"])
                if rg is None:
                    new = 0
                elif rg[0] is None:
                    res["loads"] += 1
                    new = full(ty)
                else:
                    res["loads"] += 1
                    lo, hi = rg
                    if lo <= self.byte < hi:
                        if hi - lo == ins["size"] and _bits(ty):
                            new = 1 << (8 * (self.byte - lo) + self.bit)
                        elif ins["size"] == 1 and _bits(ty):
                            new = 1 << self.bit
                        else:
                            new = full(ty)
        elif op == "zext":
            new = m(ops[0])
        elif op == "sext":
            a = m(ops[0])
            sb = ins.get("srcbits", 0)
            new = a
            if sb and a >> (sb - 1) & 1:
                new |= full(ty) & ~((1 << sb) - 1)
        elif op == "trunc":
            new = m(ops[0]) & full(ty)
        elif op in ("and", "or", "xor"):
            a, b = ops
            if b[0] == "i" or a[0] == "i":
                c = b[1] if b[0] == "i" else a[1]
                x = m(a) | m(b)
                new = x & c if op == "and" else (x & ~c if op == "or" else x)
            else:
                new = m(a) | m(b)
            new &= full(ty)
        elif op in ("shl", "lshr", "ashr"):
            a, b = ops
            if b[0] == "i" and isinstance(b[1], int):
                k = b[1]
                if op == "shl":
                    new = (m(a) << k) & full(ty)
                else:
                    new = m(a) >> k if m(a) >= 0 else -1
                    if op == "ashr" and _bits(ty) and m(a) >> (_bits(ty) - 1) & 1:
                        new |= full(ty) & ~((1 << max(_bits(ty) - k, 0)) - 1)
            elif m(a) or m(b):
                new = full(ty)
        elif op in ("add", "sub", "mul"):
            x = m(ops[0]) | m(ops[1])
            if x:
                low = (x & -x).bit_length() - 1 if x > 0 else 0
                new = full(ty) & ~((1 << low) - 1)
        elif op == "icmp":
            new = 1 if (m(ops[0]) or m(ops[1])) else 0
        elif op == "select":
            c = ins.get("cond") or ops[0]
            vals = ops[-2:]
            new = m(vals[0]) | m(vals[1])
            if m(c):
                new = full(ty)
        elif op == "phi" and self.cut_phis and self.f["blocks"][ins["b"]].get("loophdr"):
            new = 0
        elif op == "phi":
            for o, _b in ins["inc"]:
                new |= m(o)
                pb = self.ptr(o)
                if pb is not None and i not in self.base:
                    self.base[i] = (pb[0], None) if pb[0] == "p" else ("al", pb[1], None)
        elif op == "call":
            return self._call(i, ins, st, res)
        elif op == "store":
            b = self.ptr(ops[1])
            if b is not None and b[0] == "al":
                self._store_cells(st, b[1], b[2], ins.get("size", 0), m(ops[0]))
            elif m(ops[0]):
                res["stores"].append(i)
            return False
        elif op in ("br", "switch"):
            c = ins.get("cond") or (ops[0] if op == "switch" and ops else None)
            if c is not None and m(c):
                res["branches"].append(i)
            return False
        elif op == "ret":
            if ops:
                res["ret"] |= m(ops[0])
            return False
        else:
            if any(m(o) for o in ops if isinstance(o, list)):
                new = full(ty) if ty != "void" else 0
        if i == self.src_vid:
            new |= 1 << self.bit
        old = self.mask.get(i, 0)
        if new | old != old:
            self.mask[i] = new | old
            return True
        return False

    def _call(self, i, ins, st, res):
        ops = ins.get("ops", [])
        ty = ins.get("ty", "")
        cal = ins.get("callee")
        cname = cal[1] if cal and cal[0] == "g" else None
        m, full = self.m, self.full
        if cname and (cname.startswith("llvm.lifetime") or cname.startswith("llvm.dbg") or cname.startswith("llvm.assume")):
            return False
        if cname and (cname.startswith("llvm.memcpy") or cname.startswith("llvm.memmove")):
            d, s, n = self.ptr(ops[0]), self.ptr(ops[1]), ops[2]
            nn = n[1] if n[0] == "i" else None
            if d is not None and d[0] == "al":
                a = d[1]
                if s is not None and s[0] == "p":
                    for k in range(len(st[a])):
                        exact = d[2] is not None and nn is not None and s[1] is not None
                        if exact:
                            if d[2] <= k < d[2] + nn:
                                st[a][k] = (1 << self.bit) if s[1] + (k - d[2]) == self.byte else 0
                        else:
                            st[a][k] |= 1 << self.bit
                elif s is not None and s[0] == "al":
                    src = st[s[1]]
                    if d[2] is not None and s[2] is not None and nn is not None:
                        for k in range(nn):
                            if d[2] + k < len(st[a]) and s[2] + k < len(src):
                                st[a][d[2] + k] = src[s[2] + k]
                    else:
                        x = self._cells_any(st, s[1]) & 0xff
                        for k in range(len(st[a])):
                            st[a][k] |= x
                elif d[2] is not None and nn is not None:
                    for k in range(nn):
                        if d[2] + k < len(st[a]):
                            st[a][d[2] + k] = 0       # copied from memory the source bit is not in
            else:
                tainted = (s is not None and s[0] == "p" and (s[1] is None or nn is None or s[1] <= self.byte < s[1] + nn)) or \
                          (s is not None and s[0] == "al" and self._cells_any(st, s[1]))
                if tainted:
                    res["stores"].append(i)
            return False
        if cname and cname.startswith("llvm.memset"):
            d, n = self.ptr(ops[0]), ops[2]
            if d is not None and d[0] == "al" and d[2] is not None and n[0] == "i" and not m(ops[1]):
                for k in range(n[1]):
                    if d[2] + k < len(st[d[1]]):
                        st[d[1]][d[2] + k] = 0
            return False
        tainted_val = any(m(o) for o in ops)
        passes = [(k, self.ptr(o)) for k, o in enumerate(ops) if self.ptr(o) is not None]
        src_pass = [(k, b[1]) for k, b in passes if b[0] == "p"]
        al_pass = [b[1] for _k, b in passes if b[0] == "al"]
        tainted_mem = any(self._cells_any(st, a) for a in al_pass)
        new = 0
        dirty = False
        if cname and cname.startswith("llvm.") and not passes:
            new = full(ty) if tainted_val and ty != "void" else 0
        elif tainted_val or tainted_mem:
            res["calls"].append(i)
            new = full(ty) if ty != "void" else 0
            dirty = True
        elif src_pass:
            sub_ret = 0
            for k, off in src_pass:
                tgt = self.bf._lookup(cname) if cname else None
                if tgt is not None and off is not None and self.byte - off >= 0:
                    r = tgt.analyse(cname, k, self.byte - off, self.bit, self.depth + 1)
                    sub_ret |= r["ret"]
                    if r["stores"] or r["calls"] or r["branches"]:
                        res["calls"].append(i)
                        dirty = True
                else:
                    sub_ret = -1
                    res["calls"].append(i)
                    dirty = True
            new = (sub_ret & full(ty)) if ty != "void" else 0
        if dirty:
            for a in al_pass:
                for k in range(len(st[a])):
                    st[a][k] = 0xff
        old = self.mask.get(i, 0)
        if new | old != old:
            self.mask[i] = new | old
            return True
        return False
