"""E18 — exact finite-domain evaluation of small combinational functions (reader / writer table agreement).

Some of the library's "tables" are not data but branch-free arithmetic: the Base64 alphabets are the functions
b64_byte_to_char / b64_char_to_byte (and their URL-safe twins), built from masks like ((x - 26) >> 8) & 0xFF.
For a loop-free, single-block function of one integer parameter the abstract domain "map from the parameter's
value to the value of every SSA name" is finite and exact; the transfer functions are the IR's integer
operations (add, sub, and, or, xor, shifts, extensions, icmp, select, calls to functions of the same kind).
Nothing of the library is executed: the function's IR is folded once per element of the domain, the same way a
constant initialiser would be read. Anything else in the function (memory, branches, unknown calls) makes the
evaluation give up (None)."""


def _bits(ty):
    return int(ty[1:]) if ty.startswith("i") and ty[1:].isdigit() else None


def evaluate(prog, fn, arg, depth=0):
    """value returned by fn for the integer argument `arg` (single parameter), or None when fn is not combinational"""
    if depth > 4 or len(fn.blocks) != 1 or len(fn.params) != 1:
        return None
    pb = _bits(fn.params[0]["ty"])
    if pb is None:
        return None
    val = {}

    def get(o):
        if o[0] == "i":
            return o[1] & ((1 << (o[2] if len(o) > 2 else 64)) - 1)
        if o[0] == "a":
            return arg & ((1 << pb) - 1)
        if o[0] == "v":
            return val.get(o[1])
        return None
    for i, ins in enumerate(fn.insts):
        op = ins["op"]
        b = _bits(ins.get("ty", ""))
        ops = [get(o) for o in ins.get("ops", [])]
        if op == "ret":
            return ops[0] if ops else None
        if any(x is None for x in ops):
            return None
        m = (1 << b) - 1 if b else None
        if op in ("add", "sub", "mul", "and", "or", "xor", "shl", "lshr", "ashr") and b:
            a, c = ops
            if op == "add":
                r = a + c
            elif op == "sub":
                r = a - c
            elif op == "mul":
                r = a * c
            elif op == "and":
                r = a & c
            elif op == "or":
                r = a | c
            elif op == "xor":
                r = a ^ c
            elif op == "shl":
                r = a << (c & 63)
            elif op == "lshr":
                r = a >> (c & 63)
            else:
                sa = a - (1 << b) if a >> (b - 1) else a
                r = sa >> (c & 63)
            val[i] = r & m
        elif op in ("zext", "trunc") and b:
            val[i] = ops[0] & m
        elif op == "sext" and b:
            sb = ins.get("srcbits", 0)
            a = ops[0]
            if sb and a >> (sb - 1):
                a -= 1 << sb
            val[i] = a & m
        elif op == "icmp":
            a, c = ops
            wb = _bits(fn.insts[ins["ops"][0][1]].get("ty", "")) if ins["ops"][0][0] == "v" else (ins["ops"][0][2] if len(ins["ops"][0]) > 2 else 32)
            wb = wb or 32

            def s(x):
                return x - (1 << wb) if x >> (wb - 1) else x
            p = ins.get("pred")
            r = {"eq": a == c, "ne": a != c, "ult": a < c, "ule": a <= c, "ugt": a > c, "uge": a >= c,
                 "slt": s(a) < s(c), "sle": s(a) <= s(c), "sgt": s(a) > s(c), "sge": s(a) >= s(c)}.get(p)
            if r is None:
                return None
            val[i] = 1 if r else 0
        elif op == "select":
            val[i] = ops[1] if ops[0] else ops[2]
        elif op == "call":
            r0 = prog.resolve_callee(fn, ins["callee"])
            if r0[0] != "fn" or len(ops) != 1:
                return None
            r = evaluate(prog, r0[1], ops[0], depth + 1)
            if r is None:
                return None
            val[i] = r & m if m else r
        else:
            return None
    return None
