"""Symbolic terms, constant folding and fact-based three-valued evaluation used by E1 (PathAI).

A term is a hashable tuple:
  ('c', value, bits)         integer / null constant (unsigned, mod 2^bits)
  ('undef',)
  ('arg', n)                 function parameter
  ('g', name)                address of a global or function
  ('alloca', id)             address of a local object
  ('call', id, occ)          result of a call (occ = occurrence on the path)
  ('load', id, occ)          result of a load not forwarded from a store
  ('havoc', id, occ)         loop-carried phi (any value)
  ('bin', op, a, b, bits)    add sub mul and or xor shl lshr ashr udiv urem sdiv srem
  ('icmp', pred, a, b)
  ('not', a)                 i1 negation
  ('cast', op, a, bits, srcbits)  zext sext trunc
  ('gep', base, off, vars)   vars = ((term, scale), ...)
  ('select', c, a, b)
  ('op', opcode, args...)    anything else (opaque, but data dependence is kept)
"""

MASK = lambda b: (1 << b) - 1


def C(v, bits=64):
    return ("c", v & MASK(bits), bits)


TRUE = ("c", 1, 1)
FALSE = ("c", 0, 1)


def is_const(t):
    return t[0] == "c"


def bits_of(ty):
    if ty.startswith("i") and ty[1:].isdigit():
        return int(ty[1:])
    if ty.endswith("*"):
        return 64
    return 0


def to_signed(v, bits):
    return v - (1 << bits) if v >> (bits - 1) else v


INV = {"eq": "ne", "ne": "eq", "ult": "uge", "uge": "ult", "ugt": "ule", "ule": "ugt",
       "slt": "sge", "sge": "slt", "sgt": "sle", "sle": "sgt"}
SWAP = {"eq": "eq", "ne": "ne", "ult": "ugt", "ugt": "ult", "ule": "uge", "uge": "ule",
        "slt": "sgt", "sgt": "slt", "sle": "sge", "sge": "sle"}


def cmp_eval(pred, a, b, bits):
    if pred[0] == "s":
        a, b = to_signed(a, bits), to_signed(b, bits)
    return {"eq": a == b, "ne": a != b,
            "ult": a < b, "ule": a <= b, "ugt": a > b, "uge": a >= b,
            "slt": a < b, "sle": a <= b, "sgt": a > b, "sge": a >= b}[pred]


def term_bits(t):
    k = t[0]
    if k == "c":
        return t[2]
    if k == "bin":
        return t[4]
    if k == "cast":
        return t[3]
    if k in ("icmp", "not"):
        return 1
    if k in ("arg", "g", "alloca", "gep"):
        return 64
    if k == "select":
        return term_bits(t[2])
    return 0


def mk_not(a):
    if a[0] == "c":
        return C(1 - (a[1] & 1), 1)
    if a[0] == "icmp":
        return ("icmp", INV[a[1]], a[2], a[3])
    if a[0] == "not":
        return a[1]
    return ("not", a)


def mk_icmp(pred, a, b):
    if a[0] == "c" and b[0] == "c":
        return C(1 if cmp_eval(pred, a[1], b[1], a[2]) else 0, 1)
    if a[0] == "c" and b[0] != "c":
        a, b, pred = b, a, SWAP[pred]
    if a == b and a[0] not in ("undef",):
        return C(1 if pred in ("eq", "ule", "uge", "sle", "sge") else 0, 1)
    # (zext/sext i1 X) ==/!= 0|1  ->  X / !X
    if b[0] == "c" and pred in ("eq", "ne"):
        x = a
        if x[0] == "cast" and x[1] in ("zext", "sext") and x[4] == 1:
            x = x[2]
            v = b[1]
            one = 1 if a[1] == "zext" else MASK(a[3])
            if v == 0:
                return x if pred == "ne" else mk_not(x)
            if v == one:
                return x if pred == "eq" else mk_not(x)
            return C(1 if pred == "ne" else 0, 1)
        if term_bits(x) == 1 and b[2] == 1:
            if (b[1] == 1) == (pred == "eq"):
                return x
            return mk_not(x)
    # unsigned comparisons against 0
    if b[0] == "c" and b[1] == 0:
        if pred == "ult":
            return FALSE
        if pred == "uge":
            return TRUE
        if pred == "ugt":
            return mk_icmp("ne", a, b)
        if pred == "ule":
            return mk_icmp("eq", a, b)
    return ("icmp", pred, a, b)


def mk_bin(op, a, b, bits):
    if a[0] == "c" and b[0] == "c" and bits:
        x, y = a[1], b[1]
        m = MASK(bits)
        try:
            if op == "add":
                return C(x + y, bits)
            if op == "sub":
                return C(x - y, bits)
            if op == "mul":
                return C(x * y, bits)
            if op == "and":
                return C(x & y, bits)
            if op == "or":
                return C(x | y, bits)
            if op == "xor":
                return C(x ^ y, bits)
            if op == "shl":
                return C(x << y, bits) if y < bits else ("undef",)
            if op == "lshr":
                return C(x >> y, bits) if y < bits else ("undef",)
            if op == "ashr":
                return C(to_signed(x, bits) >> y, bits) if y < bits else ("undef",)
            if op == "udiv" and y:
                return C(x // y, bits)
            if op == "urem" and y:
                return C(x % y, bits)
            if op in ("sdiv", "srem") and y:
                sx, sy = to_signed(x, bits), to_signed(y, bits)
                q = abs(sx) // abs(sy)
                if (sx < 0) != (sy < 0):
                    q = -q
                return C(q, bits) if op == "sdiv" else C(sx - q * sy, bits)
        except Exception:
            pass
    if bits == 1:
        if op == "xor":
            if b == TRUE:
                return mk_not(a)
            if a == TRUE:
                return mk_not(b)
        if op == "and":
            if a == TRUE:
                return b
            if b == TRUE:
                return a
            if a == FALSE or b == FALSE:
                return FALSE
        if op == "or":
            if a == FALSE:
                return b
            if b == FALSE:
                return a
            if a == TRUE or b == TRUE:
                return TRUE
    if b[0] == "c" and b[1] == 0 and op in ("add", "sub", "or", "xor", "shl", "lshr", "ashr"):
        return a
    if a[0] == "c" and a[1] == 0 and op in ("add", "or", "xor"):
        return b
    if op in ("and", "mul") and ((b[0] == "c" and b[1] == 0) or (a[0] == "c" and a[1] == 0)):
        return C(0, bits)
    return ("bin", op, a, b, bits)


def mk_cast(op, a, bits, srcbits):
    if a[0] == "c":
        v = a[1]
        if op == "zext":
            return C(v, bits)
        if op == "sext":
            return C(to_signed(v, srcbits), bits)
        if op == "trunc":
            return C(v, bits)
    if op == "trunc" and a[0] == "cast" and a[1] in ("zext", "sext") and a[4] == bits:
        return a[2]
    return ("cast", op, a, bits, srcbits)


def mk_gep(base, off, vars_):
    vs = []
    for t, sc in vars_:
        if t[0] == "c":
            off += to_signed(t[1], t[2]) * sc
        else:
            vs.append((t, sc))
    if base[0] == "gep":
        off += base[2]
        vs = list(base[3]) + vs
        base = base[1]
    if off == 0 and not vs:
        return base
    return ("gep", base, off, tuple(vs))


def mk_select(c, a, b):
    if c[0] == "c":
        return a if c[1] & 1 else b
    if a == b:
        return a
    return ("select", c, a, b)


def root(t):
    """the object a pointer term is derived from"""
    while True:
        if t[0] == "gep":
            t = t[1]
        elif t[0] == "cast":
            t = t[2]
        elif t[0] == "bin" and t[1] in ("add", "sub", "and"):
            # pointer arithmetic through integers: follow the non-constant side
            t = t[2] if t[2][0] != "c" else t[3]
        else:
            return t


def leaves(t, acc=None):
    """all leaf terms a term depends on (data dependence)"""
    if acc is None:
        acc = set()
    k = t[0]
    if k in ("c", "undef"):
        return acc
    if k in ("arg", "g", "alloca", "call", "load", "havoc"):
        acc.add(t)
        return acc
    if k == "gep":
        leaves(t[1], acc)
        for v, _s in t[3]:
            leaves(v, acc)
        return acc
    for x in t[1:]:
        if isinstance(x, tuple):
            leaves(x, acc)
    return acc


def subterms(t):
    yield t
    k = t[0]
    if k == "gep":
        yield from subterms(t[1])
        for v, _s in t[3]:
            yield from subterms(v)
        return
    if k in ("c", "undef", "arg", "g", "alloca", "call", "load", "havoc"):
        return
    for x in t[1:]:
        if isinstance(x, tuple) and x and isinstance(x[0], str):
            yield from subterms(x)


class Facts:
    """Branch facts of one path: ordered (term, truth) with three-valued queries."""

    def __init__(self, items=None):
        self.items = []
        self.map = {}
        self.zmap = {}
        for t, v in (items or ()):
            self.add(t, v)

    def copy(self):
        f = Facts.__new__(Facts)
        f.items = list(self.items)
        f.map = dict(self.map)
        f.zmap = dict(self.zmap)
        return f

    def add(self, t, v):
        """record that i1 term t has truth value v; decomposes conjunctions"""
        if t[0] == "c":
            return
        if t[0] == "not":
            return self.add(t[1], not v)
        if t[0] == "bin" and t[4] == 1:
            if t[1] == "and" and v:
                self.add(t[2], True)
                self.add(t[3], True)
            elif t[1] == "or" and not v:
                self.add(t[2], False)
                self.add(t[3], False)
        if t[0] == "icmp" and not v:
            t, v = ("icmp", INV[t[1]], t[2], t[3]), True
        self.items.append((t, v))
        self.map[t] = v
        if t[0] == "icmp" and t[1] in ("eq", "ne") and t[3][0] == "c" and t[3][1] == 0:
            z = "Z" if (t[1] == "eq") == v else "NZ"
            self.zmap[t[2]] = z
            # (a & b) != 0 implies a != 0 and b != 0;  (a | b) == 0 implies both zero
            x = t[2]
            if x[0] == "bin" and ((x[1] == "and" and z == "NZ") or (x[1] == "or" and z == "Z")):
                for side in (x[2], x[3]):
                    if side[0] != "c":
                        self.add(("icmp", "ne" if z == "NZ" else "eq", side, C(0, term_bits(side) or t[3][2])), True)

    # -- queries ------------------------------------------------------------
    def truth(self, t, depth=0):
        if t[0] == "c":
            return bool(t[1] & 1)
        if t in self.map:
            return self.map[t]
        if t[0] == "not":
            r = self.truth(t[1], depth)
            return None if r is None else (not r)
        if t[0] == "icmp":
            return self._icmp_truth(t, depth)
        if t[0] == "bin" and t[4] == 1:
            a = self.truth(t[2], depth)
            b = self.truth(t[3], depth)
            if t[1] == "and":
                if a is False or b is False:
                    return False
                if a and b:
                    return True
            elif t[1] == "or":
                if a or b:
                    return True
                if a is False and b is False:
                    return False
            elif t[1] == "xor":
                if a is not None and b is not None:
                    return a != b
            return None
        if t[0] == "select":
            c = self.truth(t[1], depth)
            if c is True:
                return self.truth(t[2], depth)
            if c is False:
                return self.truth(t[3], depth)
            a, b = self.truth(t[2], depth), self.truth(t[3], depth)
            return a if a == b else None
        if t[0] == "cast" and t[1] == "trunc" and t[3] == 1:
            iv = self.interval(t[2], depth + 1)
            if iv and iv[1] <= 1:
                if iv[0] == iv[1]:
                    return bool(iv[0])
            return None
        return None

    def _icmp_truth(self, t, depth):
        _, pred, a, b = t
        # syntactic: same operands, other predicates
        for p2, x, y in ((pred, a, b), (SWAP[pred], b, a)):
            for q in ("eq", "ne", "ult", "ule", "ugt", "uge", "slt", "sle", "sgt", "sge"):
                v = self.map.get(("icmp", q, x, y))
                if v is None:
                    continue
                r = _implies(q, v, p2)
                if r is not None:
                    return r
        if depth > 3:
            return None
        bits = term_bits(a) or term_bits(b) or 64
        ia = self.interval(a, depth + 1)
        ib = self.interval(b, depth + 1)
        if ia and ib and pred[0] != "s":
            (al, ah), (bl, bh) = ia, ib
            if pred == "eq":
                if al == ah == bl == bh:
                    return True
                if ah < bl or bh < al:
                    return False
            elif pred == "ne":
                if al == ah == bl == bh:
                    return False
                if ah < bl or bh < al:
                    return True
            elif pred == "ult":
                if ah < bl:
                    return True
                if al >= bh:
                    return False
            elif pred == "ule":
                if ah <= bl:
                    return True
                if al > bh:
                    return False
            elif pred == "ugt":
                if al > bh:
                    return True
                if ah <= bl:
                    return False
            elif pred == "uge":
                if al >= bh:
                    return True
                if ah < bl:
                    return False
        if ia and ib and pred[0] == "s" and bits:
            half = 1 << (bits - 1)
            # both intervals entirely in the non-negative half: same as unsigned
            if ia[1] < half and ib[1] < half:
                up = {"slt": "ult", "sle": "ule", "sgt": "ugt", "sge": "uge"}[pred]
                return self._icmp_truth(("icmp", up, a, b), depth + 1)
        # zero-ness reasoning for eq/ne against 0
        if pred in ("eq", "ne") and b[0] == "c" and b[1] == 0:
            z = self.zeroness(a, depth + 1)
            if z is not None:
                return (z == "Z") == (pred == "eq")
        return None

    def interval(self, t, depth=0):
        """unsigned interval (lo, hi) of an integer term under the facts, or None"""
        bits = term_bits(t)
        if t[0] == "c":
            return (t[1], t[1])
        if t[0] in ("undef", "op"):
            return None
        if not bits:
            bits = 64   # width unknown (call/load result): 2^64-1 is a sound unsigned upper bound
        lo, hi = 0, MASK(bits)
        k = t[0]
        if depth <= 4:
            if k == "cast":
                if t[1] == "zext":
                    iv = self.interval(t[2], depth + 1)
                    lo, hi = iv if iv else (0, MASK(t[4]))
                    hi = min(hi, MASK(t[4]))      # a zero-extended value never exceeds its source width
                elif t[1] == "sext":
                    iv = self.interval(t[2], depth + 1)
                    if iv and iv[1] < (1 << (t[4] - 1)):
                        lo, hi = iv
                elif t[1] == "trunc":
                    iv = self.interval(t[2], depth + 1)
                    if iv and iv[1] <= MASK(bits):
                        lo, hi = iv
            elif k in ("icmp", "not"):
                hi = 1
            elif k == "bin":
                op, a, b = t[1], t[2], t[3]
                ia = self.interval(a, depth + 1)
                ib = self.interval(b, depth + 1)
                if op == "and":
                    c = []
                    if ia:
                        c.append(ia[1])
                    if ib:
                        c.append(ib[1])
                    if c:
                        hi = min(c)
                elif op == "urem" and ib and ib[0] > 0:
                    hi = ib[1] - 1
                elif op == "udiv" and ia and ib and ib[0] > 0:
                    lo, hi = ia[0] // ib[1], ia[1] // ib[0]
                elif op == "lshr" and ia and ib and ib[0] == ib[1] and ib[0] < bits:
                    lo, hi = ia[0] >> ib[0], ia[1] >> ib[0]
                elif op == "shl" and ia and ib and ib[0] == ib[1] and (ia[1] << ib[0]) <= MASK(bits):
                    lo, hi = ia[0] << ib[0], ia[1] << ib[0]
                elif op == "add" and ia and ib and ia[1] + ib[1] <= MASK(bits):
                    lo, hi = ia[0] + ib[0], ia[1] + ib[1]
                elif op == "sub" and ia and ib and ia[0] >= ib[1]:
                    lo, hi = ia[0] - ib[1], ia[1] - ib[0]
                elif op == "mul" and ia and ib and ia[1] * ib[1] <= MASK(bits):
                    lo, hi = ia[0] * ib[0], ia[1] * ib[1]
                elif op == "or" and ia and ib:
                    lo = max(ia[0], ib[0])
                    hi = min(MASK(bits), (1 << max(ia[1].bit_length(), ib[1].bit_length())) - 1)
            elif k == "select":
                c = self.truth(t[1], depth + 1)
                ia = self.interval(t[2], depth + 1)
                ib = self.interval(t[3], depth + 1)
                if c is True and ia:
                    lo, hi = ia
                elif c is False and ib:
                    lo, hi = ib
                elif ia and ib:
                    lo, hi = min(ia[0], ib[0]), max(ia[1], ib[1])
        # refine with facts that mention t directly
        if depth <= 4:
            for ft, fv in self.items:
                if ft[0] != "icmp" or not fv:
                    continue
                _, p, x, y = ft
                if x == t:
                    other = y
                elif y == t:
                    other, p = x, SWAP[p]
                else:
                    continue
                if other[0] == "c":
                    ol, oh = other[1], other[1]
                else:
                    if depth > 1:
                        continue
                    io = self._interval_nofacts_on(other, t, depth + 2)
                    if not io:
                        continue
                    ol, oh = io
                if p == "eq":
                    lo, hi = max(lo, ol), min(hi, oh)
                elif p == "ne":
                    if ol == oh:
                        if lo == ol:
                            lo += 1
                        if hi == ol:
                            hi -= 1
                elif p == "ult":
                    hi = min(hi, oh - 1)
                elif p == "ule":
                    hi = min(hi, oh)
                elif p == "ugt":
                    lo = max(lo, ol + 1)
                elif p == "uge":
                    lo = max(lo, ol)
                elif p in ("slt", "sle", "sgt", "sge") and bits:
                    half = 1 << (bits - 1)
                    # t <s C with C >= 0 says nothing unsigned unless t known non-negative
                    if hi < half and oh < half:
                        # both sides are non-negative as signed numbers: the signed order is the unsigned order
                        if p == "slt":
                            hi = min(hi, oh - 1)
                        elif p == "sle":
                            hi = min(hi, oh)
                        elif p == "sgt":
                            lo = max(lo, ol + 1)
                        elif p == "sge":
                            lo = max(lo, ol)
        # backward refinement: facts about a term derived from t by an invertible chain
        # (t + c, t - c, t / k, t >> k, zext t) bound t itself, provided the chain cannot wrap
        if depth <= 1 and t[0] not in ("c",):
            for ft, fv in self.items:
                if ft[0] != "icmp" or not fv or ft[1][0] == "s":
                    continue
                _, p, x, y = ft
                if y[0] == "c" and x != t and x[0] in ("bin", "cast"):
                    bound = _bound_from(p, y[1])
                elif x[0] == "c" and y != t and y[0] in ("bin", "cast"):
                    bound = _bound_from(SWAP[p], x[1])
                    x = y
                else:
                    continue
                if bound is None:
                    continue
                r = self._invert(x, t, bound[0], bound[1], lo, hi, depth)
                if r is not None:
                    lo, hi = max(lo, r[0]), min(hi, r[1])
        if lo > hi:
            return (lo, lo)  # contradictory facts: unreachable path; keep something sane
        return (lo, hi)

    def _invert(self, u, t, ulo, uhi, tlo, thi, depth, n=0):
        """u is known to lie in [ulo, uhi]; return the implied interval of t (a subterm on u's
        spine) or None. (tlo, thi) is what is already known about t, used for no-wrap side conditions."""
        if u == t:
            return (ulo, uhi)
        if n > 6:
            return None
        bits = term_bits(u) or 64
        M = MASK(bits)
        if u[0] == "cast" and u[1] in ("zext",):
            return self._invert(u[2], t, ulo, min(uhi, MASK(u[4])), tlo, thi, depth, n + 1)
        if u[0] != "bin":
            return None
        op, a, b = u[1], u[2], u[3]
        if b[0] == "c":
            c = b[1]
            ia = self.interval(a, depth + 2) if a != t else (tlo, thi)
            if ia is None:
                ia = (0, M)
            if op == "add":
                if ia[1] + c > M:
                    return None         # may wrap
                nlo, nhi = max(ulo - c, 0), uhi - c
                if nhi < 0:
                    return None
                return self._invert(a, t, nlo, nhi, tlo, thi, depth, n + 1)
            if op == "sub":
                if ia[0] < c:
                    return None         # may wrap
                return self._invert(a, t, ulo + c, min(uhi + c, M), tlo, thi, depth, n + 1)
            if op == "udiv" and c > 0:
                return self._invert(a, t, ulo * c, min((uhi + 1) * c - 1, M), tlo, thi, depth, n + 1)
            if op == "lshr" and c < bits:
                return self._invert(a, t, ulo << c, min(((uhi + 1) << c) - 1, M), tlo, thi, depth, n + 1)
            if op == "mul" and c > 0:
                if ia[1] * c > M:
                    return None
                return self._invert(a, t, -(-ulo // c), uhi // c, tlo, thi, depth, n + 1)
        if a[0] == "c" and op == "sub":
            # u = c - b: no wrap needs b <= c
            c = a[1]
            ib = self.interval(b, depth + 2) if b != t else (tlo, thi)
            if ib is None or ib[1] > c:
                return None
            return self._invert(b, t, max(c - uhi, 0), c - ulo, tlo, thi, depth, n + 1)
        return None

    def _interval_nofacts_on(self, other, exclude, depth):
        if exclude in set(subterms(other)):
            return None
        return self.interval(other, depth)

    def zeroness(self, t, depth=0):
        """'Z' (certainly zero), 'NZ' (certainly non-zero) or None"""
        if t[0] == "c":
            return "Z" if t[1] == 0 else "NZ"
        if t[0] in ("alloca", "g"):
            return "NZ"
        if depth > 5:
            return None
        v = self.zmap.get(t)
        if v is not None:
            return v
        k = t[0]
        if k in ("icmp", "not") or (k == "bin" and t[4] == 1):
            r = self.truth(t, depth + 1)
            if r is not None:
                return "NZ" if r else "Z"
        if k == "cast" and t[1] in ("zext", "sext"):
            return self.zeroness(t[2], depth + 1)
        if k == "bin":
            op, a, b = t[1], t[2], t[3]
            if op == "or":
                za, zb = self.zeroness(a, depth + 1), self.zeroness(b, depth + 1)
                if za == "NZ" or zb == "NZ":
                    return "NZ"
                if za == "Z" and zb == "Z":
                    return "Z"
                return None
            if op == "sub":
                if a[0] == "c" and a[1] == 0:
                    return self.zeroness(b, depth + 1)
                r = self.truth(mk_icmp("eq", a, b), depth + 1)
                if r is not None:
                    return "Z" if r else "NZ"
            if op == "xor":
                r = self.truth(mk_icmp("eq", a, b), depth + 1)
                if r is not None:
                    return "Z" if r else "NZ"
        if k == "select":
            c = self.truth(t[1], depth + 1)
            if c is True:
                return self.zeroness(t[2], depth + 1)
            if c is False:
                return self.zeroness(t[3], depth + 1)
            za, zb = self.zeroness(t[2], depth + 1), self.zeroness(t[3], depth + 1)
            return za if za == zb else None
        iv = self.interval(t, depth + 1)
        if iv:
            if iv == (0, 0):
                return "Z"
            if iv[0] > 0:
                return "NZ"
        return None


def _bound_from(pred, c):
    """interval of x implied by (x pred c)"""
    M = (1 << 64) - 1
    if pred == "ult":
        return (0, c - 1) if c > 0 else None
    if pred == "ule":
        return (0, c)
    if pred == "ugt":
        return (c + 1, M)
    if pred == "uge":
        return (c, M)
    if pred == "eq":
        return (c, c)
    return None


def _implies(q, v, p):
    """fact: (x q y) == v ; question: (x p y)?  -> True / False / None"""
    if not v:
        q = INV[q]
    if q == p:
        return True
    if INV[q] == p:
        return False
    table = {
        "eq": {"ule": True, "uge": True, "sle": True, "sge": True, "ult": False, "ugt": False,
               "slt": False, "sgt": False, "ne": False},
        "ult": {"ule": True, "ne": True, "eq": False, "uge": False, "ugt": False},
        "ugt": {"uge": True, "ne": True, "eq": False, "ule": False, "ult": False},
        "slt": {"sle": True, "ne": True, "eq": False, "sge": False, "sgt": False},
        "sgt": {"sge": True, "ne": True, "eq": False, "sle": False, "slt": False},
        "ule": {"ugt": False},
        "uge": {"ult": False},
        "sle": {"sgt": False},
        "sge": {"slt": False},
        "ne": {"eq": False},
    }
    return table.get(q, {}).get(p)


def zero_conditions(t, facts=None, depth=0):
    """Under which alternative sets of atomic conditions is term t zero?
    Returns a list of conjunctions; each conjunction is a list of (term, 'Z'|'NZ'|('EQ', c)).
    Used at exits to turn "the function returned 0" into facts about calls on the path.
    An empty conjunction means "unconditionally (may be) zero"."""
    if facts is not None:
        z = facts.zeroness(t)
        if z == "Z":
            return [[]]
        if z == "NZ":
            return []
    if depth > 6:
        return [[(t, "Z")]]
    k = t[0]
    if k == "cast" and t[1] in ("zext", "sext"):
        return zero_conditions(t[2], facts, depth + 1)
    if k == "bin":
        op, a, b = t[1], t[2], t[3]
        if op == "or":
            ca = zero_conditions(a, facts, depth + 1)
            cb = zero_conditions(b, facts, depth + 1)
            return [x + y for x in ca for y in cb]
        if op == "sub":
            if a[0] == "c" and a[1] == 0:
                return zero_conditions(b, facts, depth + 1)
            if b[0] == "c":
                return [[(a, ("EQ", b[1]))]]
        if op == "add" and b[0] == "c":
            return [[(a, ("EQ", (-b[1]) & MASK(t[4])))]]
    if k == "select":
        out = []
        for x in zero_conditions(t[2], facts, depth + 1):
            out.append([(t[1], "NZ")] + x)
        for x in zero_conditions(t[3], facts, depth + 1):
            out.append([(t[1], "Z")] + x)
        return out
    if k == "icmp":
        if t[3][0] == "c" and t[3][1] == 0 and t[1] == "ne":
            return zero_conditions(t[2], facts, depth + 1)
        if t[3][0] == "c" and t[3][1] == 0 and t[1] == "eq":
            return nonzero_conditions(t[2], facts, depth + 1)
        return [[(t, "Z")]]
    if k == "not":
        return nonzero_conditions(t[1], facts, depth + 1)
    return [[(t, "Z")]]


def nonzero_conditions(t, facts=None, depth=0):
    """dual of zero_conditions: alternative atom sets under which t is non-zero"""
    if facts is not None:
        z = facts.zeroness(t)
        if z == "NZ":
            return [[]]
        if z == "Z":
            return []
    if depth > 6:
        return [[(t, "NZ")]]
    k = t[0]
    if k == "cast" and t[1] in ("zext", "sext"):
        return nonzero_conditions(t[2], facts, depth + 1)
    if k == "icmp" and t[3][0] == "c" and t[3][1] == 0 and t[1] in ("ne", "eq"):
        if t[1] == "ne":
            return nonzero_conditions(t[2], facts, depth + 1)
        return zero_conditions(t[2], facts, depth + 1)
    if k == "not":
        return zero_conditions(t[1], facts, depth + 1)
    if k == "bin" and t[1] == "and":
        ca = nonzero_conditions(t[2], facts, depth + 1)
        cb = nonzero_conditions(t[3], facts, depth + 1)
        return [x + y for x in ca for y in cb]
    if k == "bin" and t[1] == "or":
        return nonzero_conditions(t[2], facts, depth + 1) + nonzero_conditions(t[3], facts, depth + 1)
    if k == "select":
        out = []
        for x in nonzero_conditions(t[2], facts, depth + 1):
            out.append([(t[1], "NZ")] + x)
        for x in nonzero_conditions(t[3], facts, depth + 1):
            out.append([(t[1], "Z")] + x)
        return out
    return [[(t, "NZ")]]


def show(t, fn=None, depth=0):
    """human-readable rendering for reports"""
    k = t[0]
    if depth > 6:
        return "..."
    if k == "c":
        v = t[1]
        if t[2] > 1 and v >> (t[2] - 1) and v > (1 << 31):
            return str(to_signed(v, t[2]))
        return str(v)
    if k == "arg":
        if fn is not None and t[1] < len(fn.params):
            return fn.params[t[1]]["name"] or ("arg%d" % t[1])
        return "arg%d" % t[1]
    if k == "g":
        return "@" + t[1]
    if k == "alloca":
        if fn is not None:
            return "&" + (fn.insts[t[1]].get("name") or "local%d" % t[1])
        return "&local%d" % t[1]
    if k in ("call", "load", "havoc"):
        nm = ""
        if fn is not None:
            ins = fn.insts[t[1]]
            if k == "call":
                c = ins.get("callee")
                nm = c[1] if c and c[0] == "g" else (ins.get("name") or "")
            else:
                nm = ins.get("name") or ""
        return "%s#%d(%s)" % (k, t[1], nm)
    if k == "bin":
        return "(%s %s %s)" % (show(t[2], fn, depth + 1), t[1], show(t[3], fn, depth + 1))
    if k == "icmp":
        return "(%s %s %s)" % (show(t[2], fn, depth + 1), t[1], show(t[3], fn, depth + 1))
    if k == "not":
        return "!%s" % show(t[1], fn, depth + 1)
    if k == "cast":
        return "%s(%s)" % (t[1], show(t[2], fn, depth + 1))
    if k == "gep":
        s = show(t[1], fn, depth + 1)
        if t[2]:
            s += "%+d" % t[2]
        for v, sc in t[3]:
            s += "+%s*%d" % (show(v, fn, depth + 1), sc) if sc != 1 else "+" + show(v, fn, depth + 1)
        return "(" + s + ")"
    if k == "select":
        return "(%s ? %s : %s)" % (show(t[1], fn, depth + 1), show(t[2], fn, depth + 1),
                                   show(t[3], fn, depth + 1))
    if k == "op":
        return "%s(%s)" % (t[1], ",".join(show(x, fn, depth + 1) for x in t[2:] if isinstance(x, tuple)))
    return str(t)


def linear(t, depth=0):
    """affine decomposition of an integer/pointer term: ({atom term: coefficient}, constant).
    Non-linear subterms are atoms. Width changes (zext/sext/trunc) are looked through, i.e. the
    result is exact only when those casts do not wrap (callers state this assumption)."""
    k = t[0]
    if k == "c":
        return {}, to_signed(t[1], t[2]) if t[2] >= 8 else t[1]
    if depth > 30:
        return {t: 1}, 0
    if k == "gep":
        co, c = linear(t[1], depth + 1)
        co = dict(co)
        c += t[2]
        for v, sc in t[3]:
            c2, k2 = linear(v, depth + 1)
            for a, n in c2.items():
                co[a] = co.get(a, 0) + n * sc
            c += k2 * sc
        return {a: n for a, n in co.items() if n}, c
    if k == "cast":
        return linear(t[2], depth + 1)
    if k == "bin":
        op = t[1]
        if op in ("add", "sub"):
            ca, ka = linear(t[2], depth + 1)
            cb, kb = linear(t[3], depth + 1)
            s = 1 if op == "add" else -1
            co = dict(ca)
            for a, n in cb.items():
                co[a] = co.get(a, 0) + s * n
            return {a: n for a, n in co.items() if n}, ka + s * kb
        if op == "mul" and (t[2][0] == "c" or t[3][0] == "c"):
            cst, other = (t[2], t[3]) if t[2][0] == "c" else (t[3], t[2])
            co, c = linear(other, depth + 1)
            m = to_signed(cst[1], cst[2])
            return {a: n * m for a, n in co.items() if n * m}, c * m
        if op == "shl" and t[3][0] == "c" and t[3][1] < 63:
            co, c = linear(t[2], depth + 1)
            m = 1 << t[3][1]
            return {a: n * m for a, n in co.items()}, c * m
    return {t: 1}, 0
