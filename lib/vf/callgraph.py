"""E2 base: whole-library call graph with slot-resolved indirect calls, and effect summaries
(which pointer parameters a function may write through, which globals it may store to)."""
from . import terms as T
from .model import inst_operands, walk_const


def _fn_refs_in_const(c):
    for x in walk_const(c):
        if x[0] == "g":
            yield x[1]


class CallGraph:
    def __init__(self, prog):
        self.prog = prog
        self.edges = {}         # fn.key -> set of fn.key
        self.ext_calls = {}     # fn.key -> set of external names
        self.sites = {}         # fn.key -> [(iid, resolved)]   resolved = list of ('fn',F)|('ext',n)|('asm',..)|('unknown',)
        self.by_key = {}
        self.slot_targets = {}  # slot id -> set of Function
        self.addr_taken = {}    # function name -> places
        for f in prog.functions():
            self.by_key[f.key] = f
        self._collect_slots()
        self._build()
        self._callers = None
        self._wp = {}
        self._wg = {}
        self._effects_done = False

    # ---- slots -------------------------------------------------------------------
    def _slot_of_gep(self, fn, gep_like):
        """(struct type, field index) for a constant-index GEP into a struct, else None"""
        sty = gep_like.get("sty")
        idx = gep_like.get("idx")
        if sty and sty.startswith("%struct.") and idx and len(idx) >= 2 and idx[-1] is not None:
            # innermost struct type is not tracked for nested GEPs; use the source type + index path
            return (sty, tuple(idx[1:]))
        return None

    def _collect_slots(self):
        prog = self.prog
        # (a) constant initialisers of globals: struct-typed globals with function pointers
        self.global_fnptr = {}   # (unit, gname) -> {index path -> fn name}
        for m in prog.modules.values():
            for g in m.globals.values():
                init = g.get("init")
                if not init:
                    continue
                paths = {}
                self._walk_init(init, (), paths)
                if paths:
                    self.global_fnptr[(m.unit, g["name"])] = paths
                    ty = g["ty"]
                    for path, fname in paths.items():
                        f = prog.fn(fname, m.unit)
                        if f is None:
                            continue
                        if ty.startswith("%struct."):
                            self.slot_targets.setdefault(("field", ty, path), set()).add(f)
                        else:
                            self.slot_targets.setdefault(("global", self.gkey(m.unit, g["name"])), set()).add(f)
                        # a pointer global initialised with &struct: handled below
        # (b) stores of function symbols into globals / fields
        self._stored_slots = set()
        for f in prog.functions():
            for iid, ins in enumerate(f.insts):
                if ins["op"] == "store":
                    v, a = ins["ops"]
                    tgt = None
                    if v[0] == "g":
                        tgt = prog.fn(v[1], f.unit)
                    elif v[0] == "ce" and v[1] == "bitcast" and v[2][0][0] == "g":
                        tgt = prog.fn(v[2][0][1], f.unit)
                    if tgt is None:
                        continue
                    if a[0] == "g":
                        self.slot_targets.setdefault(("global", self.gkey(f.unit, a[1])), set()).add(tgt)
                    elif a[0] == "v":
                        d = f.insts[a[1]]
                        if d["op"] == "getelementptr":
                            s = self._slot_of_gep(f, d)
                            if s:
                                self.slot_targets.setdefault(("field",) + s, set()).add(tgt)
                                self._stored_slots.add(("field",) + s)
                    elif a[0] == "ce" and a[1] == "getelementptr":
                        s = self._slot_of_gep(f, a[3])
                        if s:
                            self.slot_targets.setdefault(("field",) + s, set()).add(tgt)
                            self._stored_slots.add(("field",) + s)

    def _walk_init(self, c, path, out):
        if c[0] == "g":
            out[path] = c[1]
        elif c[0] == "agg":
            for i, x in enumerate(c[1]):
                self._walk_init(x, path + (i,), out)
        elif c[0] == "ce" and c[1] == "bitcast":
            self._walk_init(c[2][0], path, out)

    def resolve_indirect(self, fn, ins):
        """targets of an indirect call: through a loaded struct field / global pointer /
        parameter. Returns (list of Function, complete?)"""
        callee = ins["callee"]
        seen = 0
        v = callee
        while v[0] == "v" and seen < 8:
            d = fn.insts[v[1]]
            if d["op"] in ("bitcast",):
                v = d["ops"][0]
                seen += 1
                continue
            if d["op"] == "load":
                a = d["ops"][0]
                if a[0] == "g":
                    t = self.slot_targets.get(("global", self.gkey(fn.unit, a[1])))
                    return (sorted(t, key=lambda f: str(f.key)) if t else [], bool(t))
                if a[0] == "v":
                    g = fn.insts[a[1]]
                    if g["op"] == "getelementptr":
                        s = self._slot_of_gep(fn, g)
                        if s:
                            t = self.slot_targets.get(("field",) + s)
                            return (sorted(t, key=lambda f: str(f.key)) if t else [], bool(t))
                if a[0] == "ce" and a[1] == "getelementptr":
                    s = self._slot_of_gep(fn, a[3])
                    base = a[2][0]
                    if s and base[0] == "g":
                        # a field of one specific vtable object: exactly its initialiser (if never stored to)
                        gd = self.prog.global_def(fn, base[1])
                        if gd is not None:
                            ent = self.global_fnptr.get((gd[0], base[1]), {})
                            tname = ent.get(tuple(s[1]))
                            stored = ("field",) + s in self._stored_slots
                            if tname is not None and not stored:
                                t = self.prog.fn(tname, gd[0])
                                if t is not None:
                                    return ([t], True)
                    if s:
                        t = self.slot_targets.get(("field",) + s)
                        return (sorted(t, key=lambda f: str(f.key)) if t else [], bool(t))
                return ([], False)
            if d["op"] == "phi":
                out = []
                ok = True
                for pv, _b in d["inc"]:
                    if pv[0] == "g":
                        t = self.prog.fn(pv[1], fn.unit)
                        if t:
                            out.append(t)
                        else:
                            ok = False
                    else:
                        ok = False
                return (out, ok)
            if d["op"] == "select":
                out = []
                ok = True
                for pv in d["ops"][1:]:
                    if pv[0] == "g":
                        t = self.prog.fn(pv[1], fn.unit)
                        if t:
                            out.append(t)
                        else:
                            ok = False
                    else:
                        ok = False
                return (out, ok)
            break
        if v[0] == "a":
            # callback parameter: targets = function symbols passed at that position by callers
            out = set()
            ok = True
            for cf in self.prog.functions():
                for cins in cf.insts:
                    if cins["op"] != "call":
                        continue
                    r = self.prog.resolve_callee(cf, cins["callee"])
                    if r[0] == "fn" and r[1] is fn and v[1] < len(cins["ops"]):
                        o = cins["ops"][v[1]]
                        if o[0] == "g":
                            t = self.prog.fn(o[1], cf.unit)
                            if t:
                                out.add(t)
                                continue
                        ok = False
            if fn.public:
                ok = False
            return (sorted(out, key=lambda f: str(f.key)), ok and bool(out))
        return ([], False)

    def _build(self):
        prog = self.prog
        for f in prog.functions():
            es = set()
            xs = set()
            sites = []
            for iid, ins in enumerate(f.insts):
                if ins["op"] not in ("call", "invoke"):
                    continue
                r = prog.resolve_callee(f, ins["callee"])
                if r[0] == "fn":
                    es.add(r[1].key)
                    sites.append((iid, [r]))
                elif r[0] == "ext":
                    xs.add(r[1])
                    sites.append((iid, [r]))
                elif r[0] == "asm":
                    sites.append((iid, [r]))
                else:
                    tg, complete = self.resolve_indirect(f, ins)
                    res = [("fn", t) for t in tg]
                    if not complete:
                        res.append(("unknown",))
                        xs.add("<indirect>")
                    for t in tg:
                        es.add(t.key)
                    sites.append((iid, res))
            self.edges[f.key] = es
            self.ext_calls[f.key] = xs
            self.sites[f.key] = sites

    # ---- queries -------------------------------------------------------------------
    def callers(self):
        if self._callers is None:
            c = {}
            for k, es in self.edges.items():
                for e in es:
                    c.setdefault(e, set()).add(k)
            self._callers = c
        return self._callers

    def reachable(self, start_fns):
        seen = set()
        work = [f.key for f in start_fns]
        while work:
            k = work.pop()
            if k in seen:
                continue
            seen.add(k)
            work.extend(self.edges.get(k, ()))
        return seen

    def reach_ext(self, start_fns):
        """external symbols (and '<indirect>') reachable from the start set, with a witness chain"""
        parent = {}
        work = []
        for f in start_fns:
            parent[f.key] = None
            work.append(f.key)
        out = {}
        while work:
            k = work.pop()
            for x in self.ext_calls.get(k, ()):
                out.setdefault(x, k)
            for e in self.edges.get(k, ()):
                if e not in parent:
                    parent[e] = k
                    work.append(e)
        return out, parent

    def chain(self, parent, k):
        c = []
        while k is not None:
            c.append(k if isinstance(k, str) else "%s:%s" % k)
            k = parent.get(k)
        return list(reversed(c))

    def gkey(self, unit, name):
        """identity of a global: internal-linkage globals are per unit"""
        g = self.prog.modules[unit].globals.get(name)
        if g is not None and not g["decl"] and g["internal"]:
            return "%s::%s" % (unit, name)
        return name

    # ---- effect summaries ------------------------------------------------------------
    def _compute_effects(self):
        """writes_params[f] = set of parameter indices whose pointee f may write (transitively);
        writes_globals[f] = set of global names f may store to (transitively); '*' = unknown memory"""
        prog = self.prog
        local_wp = {}
        local_wg = {}
        self._direct_g = {}
        passes = {}   # f.key -> [(callee targets, {callee param idx -> set(caller roots)})]
        for f in prog.functions():
            wp, wg = set(), set()
            ps = []
            rootcache = {}

            def rootof(o, depth=0):
                """set of roots ('a',n) | ('g',name) | ('alloca',id) | ('?',) of an operand"""
                key = (o[0], o[1]) if o[0] in ("v", "a", "g") else None
                if key in rootcache:
                    return rootcache[key]
                if key is not None:
                    rootcache[key] = set()
                res = set()
                if o[0] == "a":
                    res = {("a", o[1])}
                elif o[0] == "g":
                    res = {("g", self.gkey(f.unit, o[1]))}
                elif o[0] == "ce":
                    for x in o[2][:1]:
                        res |= rootof(x, depth + 1)
                elif o[0] == "v":
                    d = f.insts[o[1]]
                    op = d["op"]
                    if op == "alloca":
                        res = {("alloca", o[1])}
                    elif op in ("getelementptr", "bitcast", "inttoptr", "ptrtoint", "freeze"):
                        res = rootof(d["ops"][0], depth + 1)
                    elif op == "phi":
                        for v, _b in d["inc"]:
                            res |= rootof(v, depth + 1)
                    elif op == "select":
                        res = rootof(d["ops"][1], depth + 1) | rootof(d["ops"][2], depth + 1)
                    elif op in ("add", "sub", "and", "or"):
                        res = rootof(d["ops"][0], depth + 1) | rootof(d["ops"][1], depth + 1)
                        res.discard(("k",))
                    elif op == "load":
                        res = {("?",)}
                    elif op == "call":
                        res = {("?",)}
                    else:
                        res = {("?",)}
                elif o[0] in ("i", "null", "undef"):
                    res = {("k",)}
                else:
                    res = {("?",)}
                if key is not None:
                    rootcache[key] = res
                return res

            for iid, ins in enumerate(f.insts):
                op = ins["op"]
                if op == "store":
                    for r in rootof(ins["ops"][1]):
                        if r[0] == "a":
                            wp.add(r[1])
                        elif r[0] == "g":
                            wg.add(r[1])
                        elif r[0] == "?":
                            wg.add("*")
                elif op in ("atomicrmw", "cmpxchg"):
                    for r in rootof(ins["ops"][0]):
                        if r[0] == "a":
                            wp.add(r[1])
                        elif r[0] == "g":
                            wg.add(r[1])
                        elif r[0] == "?":
                            wg.add("*")
            for iid, res in self.sites[f.key]:
                ins = f.insts[iid]
                argroots = [rootof(o) for o in ins["ops"]]
                for r in res:
                    if r[0] == "ext":
                        name = r[1]
                        w = ext_writes(name)
                        if w is None:
                            w = range(len(argroots))
                        for i in w:
                            if i < len(argroots):
                                for rr in argroots[i]:
                                    if rr[0] == "a":
                                        wp.add(rr[1])
                                    elif rr[0] == "g":
                                        wg.add(rr[1])
                                    elif rr[0] == "?":
                                        wg.add("*")
                    elif r[0] == "asm":
                        # inline asm: the AT&T text says which pointer operands are stored through
                        from . import asmfx
                        fx = asmfx.parse(ins["callee"][1], ins["callee"][2])
                        which = fx["writes"]
                        if fx["opaque"] and fx["memclobber"]:
                            which = range(len(argroots))
                        for i in which:
                            if i < len(argroots):
                                for rr in argroots[i]:
                                    if rr[0] == "a":
                                        wp.add(rr[1])
                                    elif rr[0] == "g":
                                        wg.add(rr[1])
                                    elif rr[0] == "?":
                                        wg.add("*")
                    elif r[0] == "unknown":
                        for ar in argroots:
                            for rr in ar:
                                if rr[0] == "a":
                                    wp.add(rr[1])
                                elif rr[0] == "g":
                                    wg.add(rr[1])
                        wg.add("*")
                    else:
                        ps.append((r[1].key, argroots))
            local_wp[f.key] = wp
            local_wg[f.key] = wg
            passes[f.key] = ps
            self._direct_g[f.key] = set(g for g in wg if g != "*")
        changed = True
        while changed:
            changed = False
            for k, ps in passes.items():
                wp, wg = local_wp[k], local_wg[k]
                n0 = (len(wp), len(wg))
                for ck, argroots in ps:
                    cwp = local_wp.get(ck, set())
                    for i in cwp:
                        if i < len(argroots):
                            for rr in argroots[i]:
                                if rr[0] == "a":
                                    wp.add(rr[1])
                                elif rr[0] == "g":
                                    wg.add(rr[1])
                                elif rr[0] == "?":
                                    wg.add("*")
                    wg |= local_wg.get(ck, set())
                if (len(wp), len(wg)) != n0:
                    changed = True
        self._wp, self._wg = local_wp, local_wg
        # globals written *at* each function: direct stores/ext writes plus globals handed to a callee
        # at a position the callee writes through
        site_g = {}
        for k, ps in passes.items():
            sg = set(self._direct_g.get(k, ()))
            for ck, argroots in ps:
                for i in local_wp.get(ck, ()):
                    if i < len(argroots):
                        for rr in argroots[i]:
                            if rr[0] == "g":
                                sg.add(rr[1])
            site_g[k] = sg
        self._site_g = site_g
        self._effects_done = True

    def writes_params(self, fn):
        if not self._effects_done:
            self._compute_effects()
        return self._wp.get(fn.key, set())

    def writes_globals(self, fn):
        if not self._effects_done:
            self._compute_effects()
        return self._wg.get(fn.key, set())

    def ranges(self):
        if getattr(self, "_ranges", None) is None:
            self._ranges = ReadRanges(self)
        return self._ranges

    def globals_written_at(self, fn):
        """globals stored to in fn itself (incl. being passed to a callee's written parameter)"""
        if not self._effects_done:
            self._compute_effects()
        return self._site_g.get(fn.key, set())

    def globals_written_from(self, fn, cut=()):
        """{global: witness chain} written by fn or anything it may call, not following calls into
        the functions in `cut`"""
        if not self._effects_done:
            self._compute_effects()
        cut = set(cut)
        out = {}
        parent = {fn.key: None}
        work = [fn.key]
        while work:
            k = work.pop()
            for g in self._site_g.get(k, ()):
                if g not in out:
                    out[g] = self.chain(parent, k)
            for e in self.edges.get(k, ()):
                if e not in parent and e not in cut:
                    parent[e] = k
                    work.append(e)
        return out

    def writes_unknown(self, fn):
        return "*" in self.writes_globals(fn)

    def may_write_global(self, fn, gname):
        wg = self.writes_globals(fn)
        return gname in wg or "*" in wg


_EXT_WRITES = {
    "memcpy": [0], "memmove": [0], "memset": [0], "llvm.memcpy": [0], "llvm.memmove": [0],
    "llvm.memset": [0], "explicit_bzero": [0], "memset_s": [0], "strlen": [], "memcmp": [],
    "strchr": [], "strrchr": [], "free": [], "malloc": [], "calloc": [], "abort": [], "raise": [],
    "getpid": [], "sysconf": [], "__errno_location": [], "mprotect": [], "mlock": [], "munlock": [],
    "madvise": [], "munmap": [], "mmap": [], "getauxval": [], "posix_memalign": [0],
    "pthread_mutex_lock": [0], "pthread_mutex_unlock": [0], "getrandom": [0], "getentropy": [0],
    "read": [1], "open": [], "close": [], "fstat": [1], "fcntl": [], "poll": [0], "nanosleep": [1],
    "strtoul": [1], "__assert_fail": [], "clock_gettime": [1], "arc4random_buf": [0], "arc4random": [],
}


def ext_writes(name):
    for p in ("llvm.memcpy", "llvm.memmove", "llvm.memset"):
        if name.startswith(p):
            return [0]
    if name.startswith("llvm."):
        if "store" in name:
            return [0]
        return []
    return _EXT_WRITES.get(name)


# ---------------------------------------------------------------------------------------------
# read-range summaries: which byte ranges of each pointer parameter's pointee a function may read
ALL = (0, 1 << 60)


def _norm_ranges(rs):
    rs = sorted(set(rs))
    out = []
    for lo, hi in rs:
        if out and lo <= out[-1][1]:
            out[-1] = (out[-1][0], max(out[-1][1], hi))
        else:
            out.append((lo, hi))
    return out


def covers(ranges, lo, hi):
    for a, b in _norm_ranges(ranges):
        if a <= lo and hi <= b:
            return True
    return False


class ReadRanges:
    """byte ranges of each pointer parameter's pointee that a function may read / may write
    (transitively through callees). Constant-offset accesses are exact; anything else is ALL."""

    def __init__(self, cg):
        self.cg = cg
        self.prog = cg.prog
        self.rr = {}      # fn.key -> {param idx: [ranges]}   reads
        self.ww = {}      # fn.key -> {param idx: [ranges]}   writes
        self._compute()

    def _ptr(self, f, o, cache, depth=0):
        """operand -> (param idx, offset|None) or None"""
        if o[0] == "a":
            return (o[1], 0)
        if o[0] != "v" or depth > 20:
            return None
        k = o[1]
        if k in cache:
            return cache[k]
        cache[k] = None
        d = f.insts[k]
        op = d["op"]
        r = None
        if op in ("bitcast", "freeze"):
            r = self._ptr(f, d["ops"][0], cache, depth + 1)
        elif op == "getelementptr":
            b = self._ptr(f, d["ops"][0], cache, depth + 1)
            if b is not None:
                if d["var"] or b[1] is None:
                    r = (b[0], None)
                else:
                    r = (b[0], b[1] + d["off"])
        elif op == "phi":
            rs = [self._ptr(f, v, cache, depth + 1) for v, _b in d["inc"]]
            ps = {x[0] for x in rs if x is not None}
            if len(ps) == 1 and all(x is not None for x in rs):
                offs = {x[1] for x in rs}
                r = (ps.pop(), offs.pop() if len(offs) == 1 else None)
            elif len(ps) == 1:
                r = (ps.pop(), None)
        elif op == "select":
            rs = [self._ptr(f, v, cache, depth + 1) for v in d["ops"][1:]]
            ps = {x[0] for x in rs if x is not None}
            if len(ps) == 1:
                r = (ps.pop(), None)
        cache[k] = r
        return r

    @staticmethod
    def _add(tbl, p, rng):
        if p is None:
            return
        if p[1] is None or rng is None:
            tbl.setdefault(p[0], []).append(ALL)
        else:
            tbl.setdefault(p[0], []).append((p[1] + rng[0], p[1] + rng[1]))

    def _compute(self):
        prog, cg = self.prog, self.cg
        lr, lw = {}, {}
        calls = {}
        for f in prog.functions():
            rr, ww = {}, {}
            cs = []
            cache = {}
            for iid, ins in enumerate(f.insts):
                op = ins["op"]
                if op == "load":
                    self._add(rr, self._ptr(f, ins["ops"][0], cache), (0, ins["size"]))
                elif op == "store":
                    self._add(ww, self._ptr(f, ins["ops"][1], cache), (0, ins["size"]))
                elif op in ("atomicrmw", "cmpxchg"):
                    self._add(ww, self._ptr(f, ins["ops"][0], cache), None)
                    self._add(rr, self._ptr(f, ins["ops"][0], cache), None)
            for iid, res in cg.sites[f.key]:
                ins = f.insts[iid]
                ptrs = [self._ptr(f, o, cache) for o in ins["ops"]]
                for r in res:
                    if r[0] == "fn":
                        cs.append((r[1].key, ptrs))
                    elif r[0] == "ext":
                        name = r[1]
                        for i, rng in ext_reads(name, ins):
                            if i < len(ptrs):
                                self._add(rr, ptrs[i], rng)
                        for i, rng in ext_write_ranges(name, ins):
                            if i < len(ptrs):
                                self._add(ww, ptrs[i], rng)
                    elif r[0] == "asm":
                        from . import asmfx
                        fx = asmfx.parse(ins["callee"][1], ins["callee"][2])
                        for i, p in enumerate(ptrs):
                            if p is None:
                                continue
                            if fx["opaque"]:
                                self._add(rr, p, None)
                                if fx["memclobber"]:
                                    self._add(ww, p, None)
                                continue
                            for rng in fx["reads"].get(i, []):
                                self._add(rr, p, rng)
                            if i in fx["writes"]:
                                self._add(ww, p, None)
                    else:
                        for p in ptrs:
                            self._add(rr, p, None)
                            self._add(ww, p, None)
            lr[f.key] = rr
            lw[f.key] = ww
            calls[f.key] = cs
        for local in (lr, lw):
            changed = True
            while changed:
                changed = False
                for k, cs in calls.items():
                    tbl = local[k]
                    for ck, ptrs in cs:
                        ctbl = local.get(ck, {})
                        for j, ranges in ctbl.items():
                            if j < len(ptrs) and ptrs[j] is not None:
                                pi, off = ptrs[j]
                                cur = tbl.setdefault(pi, [])
                                before = _norm_ranges(cur)
                                for lo, hi in ranges:
                                    if off is None or (lo, hi) == ALL:
                                        cur.append(ALL)
                                    else:
                                        cur.append((off + lo, off + hi))
                                after = _norm_ranges(cur)
                                tbl[pi] = after
                                if after != before:
                                    changed = True
        self.rr, self.ww = lr, lw

    def reads(self, fn, idx):
        return _norm_ranges(self.rr.get(fn.key, {}).get(idx, []))

    def writes(self, fn, idx):
        return _norm_ranges(self.ww.get(fn.key, {}).get(idx, []))


def ext_write_ranges(name, ins):
    for p in ("llvm.memcpy", "llvm.memmove", "llvm.memset"):
        if name.startswith(p):
            n = ins["ops"][2]
            if n[0] == "i":
                return [(0, (0, int(n[1])))]
            return [(0, None)]
    w = ext_writes(name)
    if w is None:
        return [(i, None) for i in range(len(ins["ops"]))]
    return [(i, None) for i in w]


def ext_reads(name, ins):
    """[(arg index, (lo,hi)|None)] read by an external / intrinsic"""
    for p in ("llvm.memcpy", "llvm.memmove"):
        if name.startswith(p):
            n = ins["ops"][2]
            if n[0] == "i":
                return [(1, (0, int(n[1])))]
            return [(1, None)]
    if name.startswith("llvm.memset") or name.startswith("llvm.lifetime") or name.startswith("llvm.dbg"):
        return []
    if name.startswith("llvm."):
        return [(i, None) for i in range(len(ins["ops"]))]
    if name in ("memcmp", "strlen", "strchr", "explicit_bzero", "free"):
        return [(i, None) for i in range(len(ins["ops"]))] if name != "explicit_bzero" else []
    return [(i, None) for i in range(len(ins["ops"]))]
