"""E16 — primitives keep no per-call state in static storage (re-entrancy).

"For every schedule" in the properties includes two threads inside the same primitive at once. A necessary
structural condition: a function of a primitive's unit never *writes* (store, memcpy/memset destination, pointer
handed to a callee or to assembly) a writable, non-thread-local global. The only writable globals primitive code
may touch are the implementation-selection slots, and those only from the functions sodium_init() runs once
(`*_pick_best_implementation`), which R18.x decides. Reads of writable globals are not judged here."""
from .model import walk_const

# functions that run once from sodium_init() (decided under C18) and may set the selection slots
INIT_ONLY = ("_pick_best_implementation",)


def _globals_in(o):
    """names of globals referenced by an operand (directly or inside a constant expression)"""
    if o[0] == "g":
        return [o[1]]
    if o[0] in ("ce", "agg"):
        return [c[1] for c in walk_const(o) if c[0] == "g"]
    return []


def _root_globals(fn, o, depth=0):
    """globals a pointer operand may be based on (through gep / bitcast / phi / select)"""
    out = set(_globals_in(o))
    seen = set()
    stack = [o]
    while stack and len(seen) < 200:
        x = stack.pop()
        if x[0] != "v" or x[1] in seen:
            out.update(_globals_in(x))
            continue
        seen.add(x[1])
        ins = fn.insts[x[1]]
        op = ins["op"]
        if op in ("getelementptr", "bitcast", "addrspacecast"):
            stack.append(ins["ops"][0])
        elif op == "phi":
            stack.extend(v for v, _b in ins["inc"])
        elif op == "select":
            stack.extend(ins["ops"][1:])
    return out


def writes_to_globals(prog, fn):
    """[(inst id, global name, how)] possible writes of fn to writable non-TLS globals"""
    out = []

    def writable(name):
        g = prog.global_def(fn, name)
        if g is None:
            return False
        g = g[1]
        return not g.get("const") and not g.get("tls")
    for i, ins in enumerate(fn.insts):
        op = ins["op"]
        if op == "store":
            for g in _root_globals(fn, ins["ops"][1]):
                if writable(g):
                    out.append((i, g, "store"))
            for g in _root_globals(fn, ins["ops"][0]):
                if writable(g) and ins["ops"][0][0] != "v":
                    pass                    # address of a global stored somewhere: not a write to it
        elif op in ("call", "invoke"):
            cal = ins.get("callee")
            name = cal[1] if cal and cal[0] == "g" else ("asm" if cal and cal[0] == "asm" else "indirect call")
            if name.startswith(("llvm.lifetime", "llvm.dbg")):
                continue
            ops = ins.get("ops", [])
            for k, o in enumerate(ops):
                if name.startswith(("llvm.memcpy", "llvm.memmove", "memcpy", "memmove")) and k != 0:
                    continue                # source operand: a read
                if name.startswith(("memcmp", "sodium_memcmp", "crypto_verify_", "strlen", "strchr", "memchr")):
                    continue                # readers
                for g in _root_globals(fn, o):
                    if writable(g):
                        out.append((i, g, "pointer handed to %s" % name))
        elif op in ("atomicrmw", "cmpxchg"):
            for g in _root_globals(fn, ins["ops"][0]):
                if writable(g):
                    out.append((i, g, op))
    return out


def init_only(prog):
    """keys of the functions that run only as part of the one-time implementation selection: the *_pick_best_implementation
    functions and everything all of whose call sites are inside such functions"""
    cg = prog.callgraph()
    callers = {}
    for k, outs in cg.edges.items():
        for o in outs:
            callers.setdefault(o, set()).add(k)
    fns = {f.key: f for f in prog.functions()}
    good = {k for k, f in fns.items() if f.sname.endswith(INIT_ONLY)}
    changed = True
    while changed:
        changed = False
        for k, f in fns.items():
            if k in good or not f.internal:
                continue                   # an externally visible function can be called from anywhere
            cs = callers.get(k)
            if cs and all(c in good for c in cs):
                good.add(k)
                changed = True
    return good


def static_state_rule(prog, chk, rule, unit_prefixes, floor=1, exclude_units=(), only_functions=None):
    n = 0
    once = init_only(prog)
    for fn in sorted(prog.functions(), key=lambda f: (f.unit, f.name)):
        if not fn.unit.startswith(tuple(unit_prefixes)) or fn.unit.startswith(tuple(exclude_units)):
            continue
        if only_functions is not None and fn.sname not in only_functions:
            continue
        n += 1
        if fn.key in once:
            continue
        ws = writes_to_globals(prog, fn)
        first = {}
        for i, g, how in ws:
            first.setdefault(g, []).append((i, how))
        for g, sites in sorted(first.items()):
            i, how = sites[0]
            chk.ob(rule, fn, "no per-call state in static storage", False, loc=fn.loc(i),
                   detail="%s writes the static object `%s` (%s at %s%s): two threads inside this primitive share it, so results depend on "
                   "the schedule" % (fn.sname, g, how, fn.loc(i), ", and %d more sites" % (len(sites) - 1) if len(sites) > 1 else ""),
                   key="%s %s %s" % (rule, fn.sname, g))
    chk.ob(rule, "(unit scan)", "%d functions of %s scanned: none writes a writable static object (selection slots are set only by "
           "*_pick_best_implementation)" % (n, ", ".join(unit_prefixes)), True, key="%s scan" % rule)
    chk.floor(rule, "functions scanned for writes to static storage", n, floor)
