"""E0: compilation database + LLVM-IR model build from /repo's current working tree.

Nothing is cached between runs and nothing is written under /repo.
"""
import concurrent.futures
import json
import os
import re
import shlex
import shutil
import subprocess
import sys
import tempfile

REPO = os.environ.get("VERIF_REPO", "/repo")
VERIF = os.path.dirname(os.path.dirname(os.path.dirname(os.path.abspath(__file__))))
SRCDIR = os.path.join(REPO, "src", "libsodium")
IRX = os.path.join(VERIF, "bin", "irx")
CLANG = "clang-14"


class AnalysisBroken(Exception):
    """exit 2: the analysis could not be carried out (never a pass, never a violation)"""


def workdir():
    base = os.path.join(VERIF, ".work")
    os.makedirs(base, exist_ok=True)
    return tempfile.mkdtemp(prefix="w%d-" % os.getpid(), dir=base)


def _all_sources():
    out = []
    for root, _dirs, files in os.walk(SRCDIR):
        for f in files:
            if f.endswith((".c", ".S")):
                out.append(os.path.relpath(os.path.join(root, f), SRCDIR))
    return sorted(out)


def compile_db():
    """[(src_relpath, [flags])] from `make -n -W <every source> all-am` (no -B: see DESIGN §1)."""
    mk = os.path.join(SRCDIR, "Makefile")
    if not os.path.exists(mk):
        raise AnalysisBroken("no generated %s: /repo is not configured" % mk)
    cmd = ["make", "-n", "--no-print-directory"]
    for s in _all_sources():
        cmd += ["-W", s]
    cmd.append("all-am")
    p = subprocess.run(cmd, cwd=SRCDIR, capture_output=True, text=True, timeout=120)
    db = []
    seen = set()
    for line in p.stdout.splitlines():
        if "--mode=compile" not in line:
            continue
        m = re.search(r"--mode=compile\s+(.*)$", line)
        rest = m.group(1)
        # drop the `test -f 'x' || echo './'` idiom
        rest = re.sub(r"`test -f '[^']*' \|\| echo '\./'`", "", rest)
        toks = shlex.split(rest)
        src = toks[-1]
        if src in seen:
            continue
        seen.add(src)
        flags = []
        i = 1
        while i < len(toks) - 1:
            t = toks[i]
            if t in ("-MT", "-MF", "-o"):
                i += 2
                continue
            if t in ("-MD", "-MP", "-c"):
                i += 1
                continue
            flags.append(t)
            i += 1
        db.append((src, flags))
    if len(db) < 100:
        raise AnalysisBroken("compile database has only %d units (expected >= 100): %s"
                             % (len(db), p.stderr[-400:]))
    return db


def portable_units(db):
    """unit list of a build without HAVE_AMD64_ASM / HAVE_AVX_ASM / HAVE_TI_MODE: follows the
    `if X ... else ... endif` blocks of src/libsodium/Makefile.am for those three conditionals"""
    off = {"HAVE_AMD64_ASM", "HAVE_AVX_ASM", "HAVE_TI_MODE"}
    add, drop = set(), set()
    stack = []
    am = os.path.join(SRCDIR, "Makefile.am")
    if not os.path.exists(am):
        raise AnalysisBroken("portable configuration: %s missing" % am)
    for line in open(am):
        t = line.strip()
        m = re.match(r"^if (!?)(\w+)$", t)
        if m:
            neg, name = bool(m.group(1)), m.group(2)
            if name in off:
                stack.append("on" if neg else "off")      # `if !X` is active when X is off
            else:
                stack.append("keep")
            continue
        if t == "else" and stack:
            stack[-1] = {"on": "off", "off": "on", "keep": "keep"}[stack[-1]]
            continue
        if t == "endif" and stack:
            stack.pop()
            continue
        for f in re.findall(r"([\w/.+-]+\.(?:c|S))\b", t):
            if "off" in stack:
                drop.add(f)
            elif "on" in stack:
                add.add(f)
    base_flags = next(fl for src, fl in db if src.endswith("sodium/core.c"))
    out = [(src, fl) for src, fl in db if src not in drop]
    have = {src for src, _fl in out}
    for f in sorted(add - have):
        if os.path.exists(os.path.join(SRCDIR, f)):
            out.append((f, list(base_flags)))
    return out


GCC_ONLY = {"-fno-strict-overflow"}

PORTABLE_UNDEF = [
    "HAVE_TI_MODE", "HAVE_AMD64_ASM", "HAVE_AVX_ASM", "HAVE_INLINE_ASM", "NATIVE_LITTLE_ENDIAN",
    "HAVE_MMINTRIN_H", "HAVE_EMMINTRIN_H", "HAVE_PMMINTRIN_H", "HAVE_TMMINTRIN_H",
    "HAVE_SMMINTRIN_H", "HAVE_AVXINTRIN_H", "HAVE_AVX2INTRIN_H", "HAVE_AVX512FINTRIN_H",
    "HAVE_WMMINTRIN_H", "HAVE_RDRAND", "HAVE_CPUID",
]


def clang_flags(flags, config="native", extra_undef=(), extra_def=()):
    out = []
    undef = set(extra_undef)
    if config == "portable":
        undef |= set(PORTABLE_UNDEF)
    for f in flags:
        if f in GCC_ONLY or f.startswith("-W") or f == "-pthread":
            continue
        if f.startswith("-D_FORTIFY_SOURCE"):
            continue
        if f.startswith("-D"):
            name = f[2:].split("=", 1)[0]
            if name in undef:
                continue
        if f.startswith("-O") or f == "-g":
            continue
        out.append(f)
    for d in extra_def:
        out.append("-D" + d)
    return out


def _compile_one(args):
    src, flags, outbc, opt, wd = args
    if opt == "O0":
        o = ["-O0", "-Xclang", "-disable-O0-optnone"]
    elif opt == "O2u":
        # as O2 below, but constant-trip loops may be unrolled: word arrays indexed by a loop counter become scalars, which the
        # bit-level flow analysis (E11) needs to see that a mask applied to one word clears a bit of *that* word
        o = ["-O2", "-fno-vectorize", "-fno-slp-vectorize", "-fno-inline"]
    else:
        o = ["-O2", "-fno-vectorize", "-fno-slp-vectorize", "-fno-unroll-loops", "-fno-inline"]
    cmd = [CLANG] + o + ["-g", "-fno-discard-value-names", "-w", "-emit-llvm", "-c",
                           "-o", outbc] + flags + [src]
    p = subprocess.run(cmd, cwd=SRCDIR, capture_output=True, text=True)
    if p.returncode != 0:
        return (src, None, p.stderr[-2000:])
    outjs = outbc[:-3] + ".json"
    irx = [IRX]
    if opt != "O0":
        irx += ["--no-mem2reg", "--scev"]
    p = subprocess.run(irx + [outbc, outjs], capture_output=True, text=True)
    if p.returncode != 0:
        return (src, None, p.stderr[-2000:])
    os.unlink(outbc)
    return (src, outjs, "")


def build_ir(wd, config="native", opt="O0", only=None, extra_undef=(), extra_def=(), tag=None):
    """Compile every C unit (or those in `only`) of the library to IR facts.
    Returns {src_relpath: json_path}; asm units are returned separately."""
    if not os.path.exists(IRX):
        raise AnalysisBroken("%s missing: run MANIFEST.setup_cmd (make -C /verif/tools)" % IRX)
    db = compile_db()
    if config == "portable":
        db = portable_units(db)
    tag = tag or ("%s-%s" % (config, opt))
    outdir = os.path.join(wd, tag)
    os.makedirs(outdir, exist_ok=True)
    jobs = []
    asm = []
    for src, flags in db:
        if src.endswith(".S"):
            asm.append(src)
            continue
        if only is not None and src not in only:
            continue
        outbc = os.path.join(outdir, src.replace("/", "__")[:-2] + ".bc")
        jobs.append((src, clang_flags(flags, config, extra_undef, extra_def), outbc, opt, wd))
    res = {}
    errs = []
    with concurrent.futures.ThreadPoolExecutor(max_workers=16) as ex:
        for src, js, err in ex.map(_compile_one, jobs):
            if js is None:
                errs.append((src, err))
            else:
                res[src] = js
    if errs:
        raise AnalysisBroken("IR build failed for %d unit(s); first: %s\n%s"
                             % (len(errs), errs[0][0], errs[0][1]))
    return res, asm, db


def header_constants(wd):
    """hdrx: every object-like macro crypto_*/randombytes_*/sodium_* of sodium.h, as folded by
    the compiler for this build -> {name: int}."""
    inc = os.path.join(SRCDIR, "include")
    p = subprocess.run([CLANG, "-dM", "-E", "-I", inc, "-I", os.path.join(inc, "sodium"),
                        "-DSODIUM_STATIC", os.path.join(inc, "sodium.h")],
                       capture_output=True, text=True)
    if p.returncode != 0:
        raise AnalysisBroken("cannot preprocess sodium.h: " + p.stderr[-500:])
    names = []
    for line in p.stdout.splitlines():
        m = re.match(r"#define ((?:crypto|randombytes|sodium|SODIUM)_[A-Za-z0-9_]+) \S", line)
        if m and not m.group(1).endswith("_H"):
            names.append(m.group(1))
    names = sorted(set(names))
    # one TU per macro would be slow; emit all, let clang report the non-integer ones, drop, retry
    src = os.path.join(wd, "hdrx.c")
    bad = set()
    for _attempt in range(4):
        with open(src, "w") as f:
            f.write('#include <sodium.h>\n#include <stdint.h>\n')
            for n in names:
                if n in bad:
                    continue
                f.write("const unsigned long long K_%s = (unsigned long long)(%s);\n" % (n, n))
        p = subprocess.run([CLANG, "-O0", "-w", "-ferror-limit=0", "-S", "-emit-llvm", "-I", inc,
                            "-I", os.path.join(inc, "sodium"), "-DSODIUM_STATIC",
                            "-o", os.path.join(wd, "hdrx.ll"), src], capture_output=True, text=True)
        if p.returncode == 0:
            break
        lines = open(src).read().splitlines()
        newbad = set()
        for m in re.finditer(r"hdrx\.c:(\d+):\d+: error", p.stderr):
            ln = int(m.group(1))
            mm = re.match(r"const unsigned long long K_(\w+) =", lines[ln - 1])
            if mm:
                newbad.add(mm.group(1))
        if not newbad:
            raise AnalysisBroken("hdrx: cannot compile constants TU: " + p.stderr[-800:])
        bad |= newbad
    else:
        raise AnalysisBroken("hdrx: constants TU did not converge")
    consts = {}
    for line in open(os.path.join(wd, "hdrx.ll")):
        m = re.match(r"@K_(\w+) = .*constant i64 (-?\d+)", line)
        if m:
            consts[m.group(1)] = int(m.group(2)) & 0xFFFFFFFFFFFFFFFF
    if len(consts) < 300:
        raise AnalysisBroken("hdrx: only %d constants folded" % len(consts))
    return consts


def sys_constants(wd, header, names):
    """integer values of macros from a system header as the compiler folds them (e.g. PROT_NONE)"""
    src = os.path.join(wd, "sysk.c")
    with open(src, "w") as f:
        f.write("#define _GNU_SOURCE 1\n#include <%s>\n" % header)
        for n in names:
            f.write("const long long SYSK_%s = (long long)(%s);\n" % (n, n))
    p = subprocess.run([CLANG, "-O0", "-w", "-S", "-emit-llvm", "-o", os.path.join(wd, "sysk.ll"), src],
                       capture_output=True, text=True)
    if p.returncode != 0:
        raise AnalysisBroken("cannot evaluate system constants %s: %s" % (names, p.stderr[-300:]))
    out = {}
    for line in open(os.path.join(wd, "sysk.ll")):
        m = re.match(r"@SYSK_(\w+) = .*constant i64 (-?\d+)", line)
        if m:
            out[m.group(1)] = int(m.group(2))
    return out
