"""E12 — known-zero bits of SSA values (forward, pessimistic at loop-carried phis).

zero(v) is a mask of bits of v that are 0 on every execution. Used for one contradiction-style rule:
a right shift or mask in limb arithmetic whose result is *identically zero* although its operand is
not a literal - a carry that can never be non-zero means the carry chain was cut (e.g. a limb masked
to 44 bits before `>> 44` reads its carry)."""

from .build import AnalysisBroken as AnalysisBrokenKB


def _bits(ty):
    if ty.startswith("i") and ty[1:].isdigit():
        return int(ty[1:])
    return 0


def analyse(fn):
    insts = fn.insts
    zero = {}

    def z(o, bits):
        full = (1 << bits) - 1
        if o[0] == "i" and isinstance(o[1], int):
            return ~o[1] & full
        if o[0] == "v":
            return zero.get(o[1], 0)
        if o[0] == "null":
            return full
        return 0

    for _round in range(3):
        for i, ins in enumerate(insts):
            b = _bits(ins.get("ty", ""))
            if not b:
                continue
            full = (1 << b) - 1
            op = ins["op"]
            ops = ins.get("ops", [])
            r = 0
            if op == "zext":
                sb = ins.get("srcbits", 0)
                r = (full & ~((1 << sb) - 1)) | z(ops[0], sb) if sb else 0
            elif op == "trunc":
                r = z(ops[0], ins.get("srcbits", b)) & full
            elif op == "and":
                r = z(ops[0], b) | z(ops[1], b)
            elif op in ("or", "xor"):
                r = z(ops[0], b) & z(ops[1], b)
            elif op == "shl" and ops[1][0] == "i" and isinstance(ops[1][1], int):
                k = ops[1][1]
                r = ((z(ops[0], b) << k) | ((1 << k) - 1)) & full if k < b else full
            elif op == "lshr" and ops[1][0] == "i" and isinstance(ops[1][1], int):
                k = ops[1][1]
                r = (z(ops[0], b) >> k) | (full & ~(full >> k)) if k < b else full
            elif op == "ashr" and ops[1][0] == "i" and isinstance(ops[1][1], int):
                k = ops[1][1]
                za = z(ops[0], b)
                if za >> (b - 1) & 1 and k < b:      # sign bit known zero: behaves like a logical shift
                    r = (za >> k) | (full & ~(full >> k))
            elif op in ("add", "mul"):
                za, zb = z(ops[0], b), z(ops[1], b)
                ma, mb = full & ~za, full & ~zb
                hi = ma + mb if op == "add" else ma * mb
                if hi <= full:
                    r = full & ~((1 << hi.bit_length()) - 1)
                # trailing zeros
                ta = (za ^ (za + 1)).bit_length() - 1 if za & 1 else 0
                tb = (zb ^ (zb + 1)).bit_length() - 1 if zb & 1 else 0
                t = min(ta, tb) if op == "add" else min(ta + tb, b)
                r |= (1 << t) - 1
            elif op == "select":
                r = z(ops[-2], b) & z(ops[-1], b)
            elif op == "phi":
                r = full
                for o, _blk in ins["inc"]:
                    if o[0] == "v" and o[1] not in zero and o[1] >= i:
                        r = 0           # loop-carried value not computed yet: nothing known
                        break
                    r &= z(o, b)
            elif op == "icmp":
                r = 0
            else:
                continue
            zero[i] = r & full
    return zero


def dead_values(fn):
    """[(inst id, description)] shifts / masks whose result is identically zero"""
    zero = analyse(fn)
    out = []
    for i, ins in enumerate(fn.insts):
        b = _bits(ins.get("ty", ""))
        if not b or ins["op"] not in ("lshr", "ashr", "and"):
            continue
        full = (1 << b) - 1
        ops = ins.get("ops", [])
        if zero.get(i, 0) != full:
            continue
        if any(o[0] == "i" and o[1] == 0 for o in ops):
            continue
        # operand itself already identically zero: report only the first in the chain
        if any(o[0] == "v" and zero.get(o[1], 0) == (1 << _bits(fn.insts[o[1]].get("ty", "i0")) or 1) - 1 and _bits(fn.insts[o[1]].get("ty", ""))
               for o in ops):
            continue
        out.append((i, "%s at %s is identically zero" % (ins["op"], fn.loc(i))))
    return out


def dead_carry_rule(prog, chk, rule, unit_prefixes, allowed=(), floor=50):
    """contradiction rule: in the limb-arithmetic units, no right shift / mask of a non-literal value is identically
    zero. `allowed` = [(function source name, reason)]: confirmed-by-reading instances that are zero by design."""
    nshift = 0
    allow = dict(allowed)
    for f in prog.functions():
        if f.decl or not f.unit.startswith(tuple(unit_prefixes)):
            continue
        nshift += sum(1 for ins in f.insts if ins["op"] in ("lshr", "ashr") and _bits(ins.get("ty", "")))
        for i, why in dead_values(f):
            if f.sname in allow:
                chk.suppress(rule, f.sname, allow[f.sname])
                continue
            chk.ob(rule, f, "no carry / shifted limb is identically zero", False, loc=f.loc(i),
                   detail=why + ": its operand is masked / bounded below the shift amount, so the carry chain is cut here",
                   key="%s %s dead-carry" % (rule, f.sname))
    chk.ob(rule, unit_prefixes[0], "known-bits scan of %d right shifts in %s found no identically-zero carry (outside the listed "
           "exceptions)" % (nshift, ", ".join(unit_prefixes)), True, key="%s scan" % rule)
    chk.floor(rule, "right shifts analysed in the limb-arithmetic units", nshift, floor)


def _strip(f, o):
    while o[0] == "v" and f.insts[o[1]]["op"] in ("zext", "trunc", "sext", "bitcast"):
        o = f.insts[o[1]]["ops"][0]
    return tuple(o[:2]) if o[0] != "i" else tuple(o[:3])


def select_idiom_rule(prog, chk, rule, unit_prefixes, exclude=(), floor=1):
    """the branch-free select `a ^ ((a ^ b) & mask)` (or `b ^ ...`): the value outside the mask must be one of the two
    values inside it - `h1 ^= (h0 ^ g1) & c` selects between unrelated limbs. Units whose round functions use the same
    shape as a three-input boolean function (SHA-2 Maj) are excluded by name."""
    good = 0
    for f in prog.functions():
        if f.decl or not f.unit.startswith(tuple(unit_prefixes)) or f.unit.startswith(tuple(exclude)):
            continue
        for i, ins in enumerate(f.insts):
            if ins["op"] not in ("xor", "or") or ins.get("ty", "").startswith("<"):
                continue
            ops = ins["ops"]
            for a, b in (((ops[0], ops[1]), (ops[1], ops[0])) if ins["op"] == "xor" else ()):
                b0 = _strip(f, b)
                if b0[0] != "v" or f.insts[b0[1]]["op"] != "and":
                    continue
                bi = f.insts[b0[1]]
                for x in bi["ops"]:
                    x0 = _strip(f, x)
                    if x0[0] != "v" or f.insts[x0[1]]["op"] != "xor":
                        continue
                    xi = f.insts[x0[1]]
                    inner = {_strip(f, xi["ops"][0]), _strip(f, xi["ops"][1])}
                    if any(t[0] == "i" for t in inner):
                        continue
                    ok = _strip(f, a) in inner
                    good += ok
                    chk.ob(rule, f, "masked select at %s chooses between the two values it mixes" % f.loc(i), ok, loc=f.loc(i),
                           detail="" if ok else "x ^ ((y ^ z) & mask) with x different from y and z: the unselected arm is not x",
                           key="%s %s select-operands" % (rule, f.sname))
            # second spelling: (a & ~mask) | (b & mask) - b must be computed from a (or a from b): `h or h - p`, limb by limb
            if ins["op"] == "or" and not ins.get("ty", "").startswith("<"):
                l, r = _strip(f, ins["ops"][0]), _strip(f, ins["ops"][1])
                if l[0] == "v" and r[0] == "v" and f.insts[l[1]]["op"] == "and" and f.insts[r[1]]["op"] == "and":
                    la, ra = f.insts[l[1]]["ops"], f.insts[r[1]]["ops"]
                    for (a, m1) in ((la[0], la[1]), (la[1], la[0])):
                        for (b, m2) in ((ra[0], ra[1]), (ra[1], ra[0])):
                            n1, n2 = _strip(f, m1), _strip(f, m2)
                            if not (_is_not_of(f, n1, n2) or _is_not_of(f, n2, n1)):
                                continue
                            A, B = _strip(f, a), _strip(f, b)
                            ok = _derived(f, B, A) or _derived(f, A, B)
                            good += ok
                            chk.ob(rule, f, "masked select at %s chooses between a value and the value computed from it" % f.loc(i), ok,
                                   loc=f.loc(i), detail="" if ok else "(a & ~mask) | (b & mask) where neither of a, b is computed from the other",
                                   key="%s %s select-operands" % (rule, f.sname))
    chk.floor(rule, "well-formed masked selects in " + ", ".join(unit_prefixes), good, floor)


def _is_not_of(f, x, y):
    """x == ~y ?"""
    if x[0] != "v":
        return False
    ins = f.insts[x[1]]
    if ins["op"] != "xor":
        return False
    o = [_strip(f, t) for t in ins["ops"]]
    for u, v in ((o[0], o[1]), (o[1], o[0])):
        if u == y and v[0] == "i" and (v[1] == -1 or v[1] == (1 << (v[2] if len(v) > 2 else 64)) - 1):
            return True
    return False


def _derived(f, b, a, depth=3):
    """is SSA value a within `depth` pure operations behind b (no memory, no calls)?"""
    if a[0] != "v" or b[0] != "v":
        return False
    frontier, seen = {b[1]}, set()
    for _ in range(depth + 1):
        if a[1] in frontier:
            return True
        nxt = set()
        for v in frontier:
            if v in seen:
                continue
            seen.add(v)
            ins = f.insts[v]
            if ins["op"] in ("load", "call", "alloca"):
                continue
            for o in ins.get("ops", ()):
                if o[0] == "v":
                    nxt.add(o[1])
            for o, _b in ins.get("inc", ()):
                if o[0] == "v":
                    nxt.add(o[1])
        frontier = nxt - seen
    return False


def carry_continuity_rule(prog, chk, rule, functions, floor=1):
    """every loop-carried scalar of the named functions that does not feed an address (i.e. is not the index) must be
    recomputed from its own previous value. functions: [(IR/source name, unit substring or None)]"""
    n = 0
    for name, usub in functions:
        fs = [f for f in prog.functions() if not f.decl and f.sname == name and (usub is None or usub in f.unit)]
        for f in fs:
            for i, ins in enumerate(f.insts):
                if ins["op"] != "phi" or not f.blocks[ins["b"]].get("loophdr") or ins["ty"].endswith("*"):
                    continue
                backs = [o for o, b in ins["inc"] if o[0] == "v" and o[1] > i]
                if not backs or any(f.insts[u]["op"] == "getelementptr" for u in f.users().get(i, ())):
                    continue
                # indices reached through a cast (zext i -> gep) are indices too
                if any(f.insts[u]["op"] in ("zext", "sext") and any(f.insts[w]["op"] == "getelementptr" for w in f.users().get(u, ()))
                       for u in f.users().get(i, ())):
                    continue
                for o in backs:
                    n += 1
                    ok = _derived(f, (o[0], o[1]), ("v", i), depth=12)
                    chk.ob(rule, f, "the loop-carried carry %%%s is recomputed from its previous value" % ins.get("name", i), ok,
                           loc=f.loc(o[1]), detail="" if ok else "the next carry does not depend on the incoming carry: a carry / borrow "
                           "arriving at a byte position is dropped", key="%s %s" % (rule, name))
    chk.floor(rule, "loop-carried carries examined", n, floor)


def or_packing_rule(prog, chk, rule, unit_prefixes, floor=1):
    """limbs are combined with `|` only when the two operands are provably bit-disjoint (E12): `(hi << k) | lo` equals
    `(hi << k) + lo` only if lo < 2^k, and a loosely reduced limb (the output of a carry pass that stops early) is not"""
    tot = 0
    for f in prog.functions():
        if f.decl or not f.unit.startswith(tuple(unit_prefixes)):
            continue
        zero = None
        for i, ins in enumerate(f.insts):
            if ins["op"] != "or" or ins.get("ty", "").startswith("<"):
                continue
            b = _bits(ins.get("ty", ""))
            ops = ins["ops"]
            if not b or not any(o[0] == "v" and f.insts[o[1]]["op"] == "shl" and f.insts[o[1]]["ops"][1][0] == "i" for o in ops):
                continue
            tot += 1
            if zero is None:
                zero = analyse(f)
            full = (1 << b) - 1

            def ones(o):
                if o[0] == "i" and isinstance(o[1], int):
                    return o[1] & full
                return full & ~(zero.get(o[1], 0) if o[0] == "v" else 0)
            ov = ones(ops[0]) & ones(ops[1])
            chk.ob(rule, f, "`|` at %s combines provably bit-disjoint operands" % f.loc(i), not ov, loc=f.loc(i),
                   detail="" if not ov else "both operands may have bits %s set: `(hi << k) | lo` drops a pending carry in lo that "
                   "`(hi << k) + lo` would propagate" % hex(ov), key="%s %s or-packing" % (rule, f.sname))
    chk.floor(rule, "shift-and-or limb / word packings examined", tot, floor)


def reduced_limb_rule(prog, chk, rule, names, floor=1):
    """radix-2^k limbs packed into the output bytes: every limb that is shifted / scaled into a stored byte of the output array
    (parameter 0) is, except the most significant one, the remainder of its own carry step, x - ((x >> k) << k). A limb that
    still holds an unpropagated carry (the last carry ripple cut short) overlaps its neighbour in the `(lo >> a) | (hi << b)`
    packing and the encoded scalar is wrong for the rare values where that carry is non-zero."""
    n = 0
    for name in names:
        f = prog.fn(name)
        if f is None:
            raise AnalysisBrokenKB("%s: %s not found" % (rule, name))
        limbs = {}
        for i, ins in enumerate(f.insts):
            if ins["op"] != "store" or ins.get("size") != 1:
                continue
            a = ins["ops"][1]
            if a[0] != "v" or f.insts[a[1]]["op"] != "getelementptr":
                continue
            g = f.insts[a[1]]
            if g["ops"][0] != ["a", 0] or g.get("off") is None or g.get("var"):
                continue
            st, seen = [ins["ops"][0]], set()
            while st:
                o = st.pop()
                if o[0] != "v" or o[1] in seen:
                    continue
                seen.add(o[1])
                d = f.insts[o[1]]
                if d["op"] in ("trunc", "or"):
                    st.extend(d["ops"])
                elif d["op"] in ("ashr", "lshr", "mul", "shl") and d["ops"][1][0] == "i" and d["ops"][0][0] == "v":
                    limbs.setdefault(d["ops"][0][1], set()).add(g["off"])
        if len(limbs) < 2:
            continue
        top = max(limbs, key=lambda v: max(limbs[v]))
        for v in sorted(limbs, key=lambda v: min(limbs[v])):
            if v == top:
                continue
            n += 1
            d = f.insts[v]
            ok = False
            if d["op"] == "sub":
                X, M = d["ops"]
                m = f.insts[M[1]] if M[0] == "v" else None
                if m is not None and m["op"] in ("mul", "shl") and m["ops"][0][0] == "v":
                    c = f.insts[m["ops"][0][1]]
                    ok = c["op"] in ("ashr", "lshr") and c["ops"][0] == X
            elif d["op"] == "and" and any(o[0] == "i" for o in d["ops"]):
                ok = True                  # masked limb
            chk.ob(rule, f, "limb packed into bytes %d..%d of the output is the remainder of its own carry step" % (min(limbs[v]), max(limbs[v])),
                   ok, loc=f.loc(v), detail="" if ok else "the limb is defined by `%s` at %s, not by x - ((x >> k) << k): a carry added into it after "
                   "its own reduction is never propagated, the packing overlaps the next limb" % (d["op"], f.loc(v)),
                   key="%s %s limb@%d" % (rule, name, min(limbs[v])))
    chk.floor(rule, "limbs packed into scalar encodings", n, floor)


def lossless_trunc_rule(prog, chk, rule, functions, floor=1):
    """comparison predicates accumulate differences and test the accumulator for zero: a narrowing on the way may only drop bits
    that are known to be zero (E12), otherwise part of every word stops taking part in the comparison. functions: [(name, unit
    substring or None)]"""
    n = nf = 0
    for name, usub in functions:
        for f in [g for g in prog.functions() if not g.decl and g.sname == name and (usub is None or usub in g.unit)]:
            zero = analyse(f)
            nf += 1
            for i, ins in enumerate(f.insts):
                if ins["op"] != "trunc" or not ins["ty"][1:].isdigit() or not ins.get("srcbits"):
                    continue
                n += 1
                sb, db = ins["srcbits"], int(ins["ty"][1:])
                src = ins["ops"][0]
                z = zero.get(src[1], 0) if src[0] == "v" else (~src[1] & ((1 << sb) - 1) if src[0] == "i" else 0)
                dropped = ((1 << sb) - 1) & ~((1 << db) - 1)
                ok = (z & dropped) == dropped
                if not ok and src[0] == "v" and f.insts[src[1]]["op"] == "or":
                    # a fold: x | (x >> db) keeps a copy of every dropped bit in the part that stays (zero-ness is preserved)
                    a, b = f.insts[src[1]]["ops"]
                    for x, y in ((a, b), (b, a)):
                        if y[0] == "v" and f.insts[y[1]]["op"] == "lshr" and f.insts[y[1]]["ops"][0] == x and \
                                f.insts[y[1]]["ops"][1][0] == "i" and f.insts[y[1]]["ops"][1][1] == db and sb == 2 * db:
                            ok = True
                chk.ob(rule, f, "narrowing from %d to %d bits at %s drops only bits that are always zero (or folded into the rest)" % (sb, db, f.loc(i)), ok, loc=f.loc(i),
                       detail="" if ok else "the upper %d bits of the accumulated difference are dropped before the zero test: inputs that "
                       "differ from the reference only there compare as equal" % (sb - db), key="%s %s trunc" % (rule, name))
    chk.floor(rule, "comparison predicates scanned for narrowings", nf, floor)
    chk.floor(rule, "narrowings in comparison predicates", n, 0)
