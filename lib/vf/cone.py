"""E6b — backward dependence cones on the SSA form of one function.

cone(v) = the set of *sources* an SSA value may depend on:
    ("ld", root, lo, hi)   a load of bytes [lo, hi) of the object a parameter / global points to
                           (lo = hi = None when the offset is not a constant)
    ("arg", i)             the parameter value itself
    ("call", iid)          the result of a non-intrinsic call
    ("mem", iid)           memory the function does not own, reached through an unknown pointer
Data dependence follows SSA operands; loads from the function's own allocas are replaced by the cones
of everything stored into that alloca (flow-insensitive, weak) plus a ("mem", alloca) source when a
call may have written it. Control dependence (Ferrante et al., from the post-dominator tree that irx
exports) is added at phi nodes: a phi depends on the conditions of the branches that decide which
incoming edge is taken. The result over-approximates "may depend on": a rule of the form "v must
depend on X" that fails on the cone fails for every execution.
"""
from .model import inst_operands


class Cones:
    def __init__(self, fn, prog=None):
        self.fn = fn
        self.prog = prog
        self.insts = fn.insts
        self.blocks = fn.blocks
        self._cone = {}
        self._stores_to = None
        self._cd = None

    # -- addresses ----------------------------------------------------------------------
    def addr(self, o, depth=0):
        """(root operand, constant byte offset or None)"""
        off = 0
        while o[0] == "v" and depth < 64:
            ins = self.insts[o[1]]
            op = ins["op"]
            if op == "getelementptr":
                if off is None or ins.get("off") is None:
                    off = None
                else:
                    off += ins["off"]
                    for oi, scale in ins.get("var") or ():
                        k = self.const_value(ins["ops"][oi])
                        if k is None:
                            off = None
                            break
                        off += k * scale
                o = ins["ops"][0]
            elif op in ("bitcast", "addrspacecast"):
                o = ins["ops"][0]
            else:
                break
            depth += 1
        return tuple(o[:2]), off

    def roots(self, o, depth=0, seen=None):
        """set of root operands an address may be based on (through GEPs, casts, phis and selects)"""
        seen = set() if seen is None else seen
        out = set()
        stack = [o]
        while stack:
            x = stack.pop()
            r, _off = self.addr(x)
            if r[0] != "v":
                out.add(r)
                continue
            if r[1] in seen:
                continue
            seen.add(r[1])
            ins = self.insts[r[1]]
            if ins["op"] == "phi":
                stack.extend(v for v, _b in ins["inc"])
            elif ins["op"] == "select":
                stack.extend(ins["ops"][-2:])
            else:
                out.add(r)
        return out

    def _index_vars(self, o):
        """SSA values used as (non-constant) indices along the address computation of o"""
        out = []
        n = 0
        while o[0] == "v" and n < 64:
            ins = self.insts[o[1]]
            if ins["op"] == "getelementptr":
                for oi, _scale in ins.get("var") or ():
                    x = ins["ops"][oi]
                    if x[0] == "v" and self.const_value(x) is None:
                        out.append(x[1])
                o = ins["ops"][0]
            elif ins["op"] in ("bitcast", "addrspacecast"):
                o = ins["ops"][0]
            else:
                break
            n += 1
        return out

    def const_value(self, o, depth=0):
        """integer value of an operand that is a literal or an element of a constant table read at a
        constant index (e.g. the word permutation TR[k] of the Salsa20 intrinsics backend)"""
        if o[0] == "i":
            return o[1]
        if o[0] != "v" or depth > 8:
            return None
        ins = self.insts[o[1]]
        if ins["op"] in ("sext", "zext", "trunc"):
            return self.const_value(ins["ops"][0], depth + 1)
        if ins["op"] == "load" and self.prog is not None:
            a = ins["ops"][0]
            if a[0] == "ce" and a[1] == "getelementptr" and a[2][0][0] == "g" and not a[3].get("var") and a[3].get("off") is not None:
                g = self.prog.global_def(self.fn, a[2][0][1])
                g = g[1] if g else None
                if g and g.get("const") and g.get("init") and g["init"][0] == "ints":
                    vals, esz = g["init"][1], g["init"][2]
                    if a[3]["off"] % esz == 0 and a[3]["off"] // esz < len(vals) and ins.get("size") == esz:
                        return vals[a[3]["off"] // esz]
        return None

    def _index_stores(self):
        st = {}
        calls = {}
        for i, ins in enumerate(self.insts):
            if ins["op"] == "store":
                root, _ = self.addr(ins["ops"][1])
                st.setdefault(root, []).append(i)
            elif ins["op"] == "call":
                for o in ins.get("ops", ()):
                    if o[0] == "v" and self.insts[o[1]]["ty"].endswith("*"):
                        root, _ = self.addr(o)
                        calls.setdefault(root, []).append(i)
        self._stores_to, self._calls_on = st, calls

    # -- control dependence ------------------------------------------------------------
    def control_deps(self):
        """block index -> set of block indices whose conditional terminator it is control-dependent on
        (transitively closed)"""
        if self._cd is not None:
            return self._cd
        bl = self.blocks
        cd = {i: set() for i in range(len(bl))}
        for b, blk in enumerate(bl):
            succs = blk.get("succs", [])
            if len(succs) < 2:
                continue
            stop = blk.get("ipdom", -1)
            for s in succs:
                x = s
                seen = set()
                while x != stop and x != -1 and x not in seen:
                    seen.add(x)
                    cd[x].add(b)
                    x = bl[x].get("ipdom", -1)
        changed = True
        while changed:
            changed = False
            for x in cd:
                new = set(cd[x])
                for b in cd[x]:
                    new |= cd[b]
                if new != cd[x]:
                    cd[x] = new
                    changed = True
        self._cd = cd
        return cd

    def _term_cond(self, b):
        ids = self.blocks[b]["insts"]
        if not ids:
            return None
        t = self.insts[ids[-1]]
        if "cond" in t:
            return t["cond"]
        if t["op"] == "switch" and t.get("ops"):
            return t["ops"][0]
        return None

    # -- cones -------------------------------------------------------------------------
    def cone(self, o):
        if o[0] == "a":
            return frozenset([("arg", o[1])])
        if o[0] != "v":
            return frozenset()
        return self._cone_of(o[1])

    def _cone_of(self, vid):
        """iterative worklist fixpoint over the SSA graph restricted to what vid reaches backwards"""
        if vid in self._cone:
            return self._cone[vid]
        if self._stores_to is None:
            self._index_stores()
        # collect the backward slice
        deps = {}
        base = {}
        order = []
        stack = [vid]
        while stack:
            v = stack.pop()
            if v in deps or v in self._cone:
                continue
            ins = self.insts[v]
            op = ins["op"]
            d, b = [], set()
            if op == "load":
                root, off = self.addr(ins["ops"][0])
                if root[0] == "v" and self.insts[root[1]]["op"] == "alloca":
                    for s in self._stores_to.get(root, ()):
                        so = self.insts[s]["ops"][0]
                        if so[0] == "v":
                            d.append(so[1])
                        elif so[0] == "a":
                            b.add(("arg", so[1]))
                    if self._calls_on.get(root):
                        b.add(("mem", root[1]))
                elif root[0] in ("a", "g"):
                    b.add(("ld", root, off, None if off is None else off + ins.get("size", 0)))
                    d.extend(self._index_vars(ins["ops"][0]))      # variable indices feed the value too
                else:
                    b.add(("mem", v))
                    if root[0] == "v":
                        d.append(root[1])
            elif op == "call":
                cal = ins.get("callee")
                name = cal[1] if cal and cal[0] == "g" else ""
                if name.startswith("llvm.") and not name.startswith("llvm.mem"):
                    for o in ins.get("ops", ()):
                        if o[0] == "v":
                            d.append(o[1])
                        elif o[0] == "a":
                            b.add(("arg", o[1]))
                else:
                    b.add(("call", v))
            elif op == "alloca":
                pass
            elif op == "phi":
                for o, _blk in ins["inc"]:
                    if o[0] == "v":
                        d.append(o[1])
                    elif o[0] == "a":
                        b.add(("arg", o[1]))
                cd = self.control_deps()
                ctl = set()
                for _o, p in ins["inc"]:
                    ctl |= cd.get(p, set())
                    if len(self.blocks[p].get("succs", [])) > 1:
                        ctl.add(p)
                for cb in ctl:
                    c = self._term_cond(cb)
                    if c is not None:
                        if c[0] == "v":
                            d.append(c[1])
                        elif c[0] == "a":
                            b.add(("arg", c[1]))
            else:
                for o in inst_operands(ins):
                    if o[0] == "v":
                        d.append(o[1])
                    elif o[0] == "a":
                        b.add(("arg", o[1]))
            deps[v] = d
            base[v] = b
            order.append(v)
            for x in d:
                if x not in deps and x not in self._cone:
                    stack.append(x)
        cur = {v: set(base[v]) for v in order}
        changed = True
        while changed:
            changed = False
            for v in order:
                s = cur[v]
                n = len(s)
                for x in deps[v]:
                    s |= self._cone[x] if x in self._cone else cur[x]
                if len(s) != n:
                    changed = True
        for v in order:
            self._cone[v] = frozenset(cur[v])
        return self._cone[vid]


def overlaps(atom, root, lo, hi):
    """does a ("ld", ...) source read bytes of [lo, hi) of `root`? (an unknown offset may)"""
    if atom[0] != "ld" or atom[1] != root:
        return False
    if atom[2] is None:
        return True
    return atom[2] < hi and lo < atom[3]
