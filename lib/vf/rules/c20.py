"""C20 — memory exhaustion makes password hashing and guarded allocation fail closed.

Scope: every function reachable from crypto_pwhash*, crypto_pwhash_scryptsalsa208sha256*,
sodium_malloc and sodium_allocarray.

Decided clauses:
  R20.1 test-before-use: no dereference (load/store/callee access, directly or through a local
        object holding the pointer) of an allocator result before its failure test; the failing
        arm of every allocation leads only to failing exits.
  R20.2 success is closed under failure: on every exit that reports success, every fallible step
        executed on that path (allocator or fallible internal function) has its success outcome
        established by a branch fact; results of fallible calls always reach a branch or a return.
  R20.3 verify provenance: the *_str_verify functions return 0 only via hash-succeeded and
        constant-time compare-equal.
  R20.4 ownership on every path: an allocation is released at most once, never used after release,
        and at every exit is either released, returned, or handed to a parameter-rooted owner;
        local owner objects that acquired memory through a callee are released on every exit.
  R20.5 no dangling owner: when a pointer that is (also) held in caller-visible memory - loaded from,
        or previously stored into, a parameter- or global-rooted cell - is released, that cell is
        overwritten, re-initialised by a callee, or released together with its object before the
        function returns (the clean-up code of the owners releases whatever the cell still holds).
  R20.6 destructors are total: every release that argon2_free_instance / free_memory / escrypt_free_region perform
        on some path is performed on every returning path unless the released pointer is NULL there (or an
        earlier release reported failure).
  R20.7 ownership across calls (computed summaries, no table): F "may release parameter k" when on some path F hands exactly that
        parameter to free / munmap or to a callee that may release it. No exported function may release one of its own pointer
        parameters (the caller's output buffer is never the library's to free), and a pointer handed to a callee that may
        release it is not released again on the same path.
NOT decided: that malloc/mmap themselves behave per POSIX; arithmetic of the requested sizes.
"""
from .. import terms as T
from ..build import AnalysisBroken
from ..terms import C
from . import common as cm

M64 = (1 << 64) - 1
P = lambda i: ("param", i)
V = lambda n: ("var", n)

# external allocators: name -> success predicate on the result
EXT_ALLOC = {"malloc": "NZ", "calloc": "NZ", "mmap": "NOT-1", "posix_memalign": "Z"}
# internal fallible functions: source name -> success predicate
INT_FALLIBLE = {
    "allocate_memory": "Z", "argon2_initialize": "Z", "argon2_ctx": "Z", "argon2_hash": "Z",
    "argon2_encode_string": "Z", "argon2_decode_string": "Z", "argon2_validate_inputs": "Z",
    "argon2i_hash_raw": "Z", "argon2i_hash_encoded": "Z", "argon2id_hash_raw": "Z", "argon2id_hash_encoded": "Z",
    "argon2_verify": "Z", "argon2i_verify": "Z", "argon2id_verify": "Z",
    "escrypt_alloc_region": "NZ", "escrypt_kdf_nosse": "Z", "escrypt_kdf_sse": "Z", "escrypt_r": "NZ",
    "escrypt_init_local": "Z", "crypto_pwhash_scryptsalsa208sha256_ll": "Z", "escrypt_gensalt_r": "NZ",
    "pickparams": "Z", "_alloc_aligned": "NZ", "_sodium_malloc": "NZ", "sodium_malloc": "NZ",
    "crypto_pwhash_argon2i": "Z", "crypto_pwhash_argon2id": "Z", "crypto_pwhash_argon2i_str": "Z",
    "crypto_pwhash_argon2id_str": "Z", "crypto_pwhash_scryptsalsa208sha256_str": "Z",
    "crypto_pwhash_scryptsalsa208sha256": "Z",
}
# release functions: source name -> index of the released pointer / owner argument
RELEASE = {"free": 0, "munmap": 0, "argon2_free_instance": 0, "free_memory": 0, "escrypt_free_region": 0,
           "escrypt_free_local": 0, "_free_aligned": 0, "argon2_finalize": 1}
# callees that may leave memory owned by an argument object: name -> (arg index, when)
ACQUIRE = {"argon2_initialize": (0, "Z"), "escrypt_alloc_region": (0, "NZ"), "escrypt_kdf_nosse": (0, "any"),
           "escrypt_kdf_sse": (0, "any"), "escrypt_r": (0, "any"), "allocate_memory": (0, "Z")}
ROOTS = ["crypto_pwhash", "crypto_pwhash_str", "crypto_pwhash_str_alg", "crypto_pwhash_str_verify",
         "crypto_pwhash_str_needs_rehash", "crypto_pwhash_argon2i", "crypto_pwhash_argon2i_str",
         "crypto_pwhash_argon2i_str_verify", "crypto_pwhash_argon2i_str_needs_rehash",
         "crypto_pwhash_argon2id", "crypto_pwhash_argon2id_str", "crypto_pwhash_argon2id_str_verify",
         "crypto_pwhash_argon2id_str_needs_rehash", "crypto_pwhash_scryptsalsa208sha256",
         "crypto_pwhash_scryptsalsa208sha256_str", "crypto_pwhash_scryptsalsa208sha256_str_verify",
         "crypto_pwhash_scryptsalsa208sha256_str_needs_rehash", "crypto_pwhash_scryptsalsa208sha256_ll",
         "sodium_malloc", "sodium_allocarray", "sodium_free"]


def outcome(p, e, pred, extra=None):
    """True: success established, False: failure established, None: unknown"""
    f = extra or p.facts
    if e.res is None:
        return None
    if pred in ("Z", "NZ"):
        z = f.zeroness(e.res)
        if z is None:
            return None
        return z == pred
    if pred == "NOT-1":
        if f.zeroness(e.res) == "Z":
            return False    # libc model: mmap without MAP_FIXED never returns NULL for a mapping
        t = f.truth(T.mk_icmp("eq", e.res, C(M64, 64)))
        if t is None:
            return None
        return not t
    return None


def fallible_pred(prog, fn, e):
    """success predicate if call event e is fallible, else None (indirect calls: all targets)"""
    c = e.callee
    if c[0] == "ext":
        return EXT_ALLOC.get(c[1])
    if c[0] == "fn":
        return INT_FALLIBLE.get(c[1].sname)
    if c[0] == "ind":
        tg, complete = cm.resolved_targets(prog, fn, e)
        preds = {INT_FALLIBLE.get(t.sname) for t in tg}
        if len(preds) == 1:
            return preds.pop()
    return None


def mmap_escape_rule(prog, chk, rule, units, floor=1):
    """MAP_FAILED never escapes as a pointer: on every path on which a function returns the result of an mmap() call, a branch
    fact has established result != (void *) -1. (The callers test for NULL.)"""
    n = 0
    for fn in sorted(prog.functions(), key=lambda f: (f.unit, f.name)):
        if fn.decl or not fn.unit.startswith(tuple(units)) or not fn.ret.endswith("*"):
            continue
        if not any(i["op"] == "call" and i.get("callee") and i["callee"][0] == "g" and i["callee"][1] == "mmap" for i in fn.insts):
            continue
        for p in cm.paths(prog, fn, inline_helpers=False):
            if p.kind != "ret" or p.ret is None:
                continue
            for e in p.calls():
                if e.callee_name() != "mmap" or e.res is None or T.root(p.ret) != e.res:
                    continue
                n += 1
                ok = outcome(p, e, "NOT-1") is True
                chk.ob(rule, fn, "the result of mmap at %s is returned only after it was compared with MAP_FAILED" % fn.loc(e.iid), ok,
                       loc=fn.loc(p.end_iid), detail="" if ok else "MAP_FAILED ((void *) -1) is returned as if it were a mapping: the callers "
                       "test for NULL, so a refused oversized request is used as memory instead of failing with ENOMEM",
                       path=None if ok else p, key="%s %s mmap-forwarded" % (rule, fn.sname))
    chk.floor(rule, "return paths forwarding an mmap result", n, floor)


def run(ctx, chk):
    tier = ctx.tier
    configs = [("native", {})]
    if tier == "thorough":
        configs += [("no-mmap", {"extra_undef": ("HAVE_MMAP",)}),
                    ("no-mmap-no-posix_memalign", {"extra_undef": ("HAVE_MMAP", "HAVE_POSIX_MEMALIGN")})]
    chk.explanation = (
        "E1/E2 over every function reachable from the password-hashing and guarded-allocation APIs: allocator results are "
        "tested before any use and their failing arm only reaches failing exits (R20.1); every success exit has a success fact "
        "for every fallible step on its path and no fallible result is dropped (R20.2); *_str_verify return 0 only via "
        "hash-succeeded and compare-equal (R20.3); allocation typestate: at most one release, no use after release, released / "
        "returned / owned at every exit (R20.4). Thorough tier repeats this for the posix_memalign and malloc allocation arms.")
    chk.not_decided = "size arithmetic values and libc/OS allocator behaviour."
    chk.assumptions += ["libc model: mmap() without MAP_FIXED returns MAP_FAILED or a non-NULL address",
                        "fallible-function table INT_FALLIBLE / release and acquire tables are the reviewed instances (DESIGN §4 C20)",
                        "loops: one iteration per back edge"]
    for cname, kw in configs:
        prog = ctx.prog(**kw) if kw else ctx.prog()
        chk.configs.append(cname)
        analyse(prog, chk, cname)


def analyse(prog, chk, cname):
    cg = prog.callgraph()
    tag = "" if cname == "native" else " [%s]" % cname
    roots = [prog.need(r, rule="C20") for r in ROOTS]
    reach = cg.reachable(roots)
    scope = []
    for k in sorted(reach, key=str):
        f = cg.by_key[k]
        has = False
        for iid, res in cg.sites[f.key]:
            for r in res:
                nm = r[1].sname if r[0] == "fn" else (r[1] if r[0] == "ext" else None)
                if nm in EXT_ALLOC or nm in INT_FALLIBLE or nm in RELEASE:
                    has = True
        if has:
            scope.append(f)
    chk.floor("R20", "functions in scope with fallible / release calls" + tag, len(scope), 25)
    nalloc = nsucc = nown = 0
    ndangle = [0]
    alloc_sites = set()
    for fn in scope:
        try:
            ps = cm.paths(prog, fn)
        except AnalysisBroken as e:
            raise
        retptr = fn.ret.endswith("*")
        retvoid = fn.ret == "void"
        for p in ps:
            if p.kind == "unreachable":
                continue
            # ---------------- R20.1 -----------------------------------------------------------
            for e in p.calls():
                nm = e.callee_name()
                if nm not in EXT_ALLOC or nm == "posix_memalign":
                    continue
                alloc_sites.add((fn.key, e.iid))
                res = e.res
                # holders: local objects into which the result was stored
                holders = set()
                first_use = None
                for u in p.events[e.idx + 1:]:
                    if u.kind == "store":
                        if T.root(u.val) == res and T.root(u.addr)[0] == "alloca":
                            holders.add(T.root(u.addr))
                        if T.root(u.addr) == res:
                            first_use = u
                            break
                    elif u.kind == "load":
                        if T.root(u.addr) == res:
                            first_use = u
                            break
                    elif u.kind == "call":
                        un = u.callee_name()
                        roots_ = [T.root(a) for a in u.args]
                        if res in roots_:
                            if un in ("free", "munmap") or un in RELEASE:
                                continue
                            first_use = u
                            break
                        if any(r in holders for r in roots_) and un not in RELEASE and un not in ("memset", "sodium_memzero"):
                            first_use = u
                            break
                if first_use is not None:
                    nalloc += 1
                    ok = outcome(p, e, EXT_ALLOC[nm], p.facts_before(first_use.idx)) is True
                    chk.ob("R20.1", fn, "result of %s at %s is tested before its first use" % (nm, fn.loc(e.iid)) + tag, ok,
                           loc=fn.loc(first_use.iid), detail="first use at %s" % fn.loc(first_use.iid),
                           path=None if ok else p, key="R20.1 %s use-before-test" % fn.sname)
            # failing arm => failing exit
            if p.kind == "ret" and not retvoid:
                for e in p.calls():
                    pred = fallible_pred(prog, fn, e)
                    if pred is None:
                        continue
                    if e.callee_name() not in EXT_ALLOC:
                        continue
                    if outcome(p, e, pred) is False:
                        nalloc += 1
                        z = p.ret_zeroness()
                        ok = (z == "Z") if retptr else (z == "NZ")
                        chk.ob("R20.1-arm", fn, "failed %s at %s leads to a failing return" % (e.callee_name(), fn.loc(e.iid)) + tag,
                               ok, loc=fn.loc(p.end_iid), detail="returns %s" % T.show(p.ret, fn),
                               path=None if ok else p, key="R20.1-arm %s" % fn.sname)
            if p.kind == "ret" and retvoid:
                # a function that returns nothing cannot tell its caller that an allocation failed
                for e in p.calls():
                    if e.callee_name() not in EXT_ALLOC:
                        continue
                    if outcome(p, e, EXT_ALLOC[e.callee_name()]) is False:
                        nalloc += 1
                        chk.ob("R20.1-arm", fn, "failed %s at %s leads to a failing return" % (e.callee_name(), fn.loc(e.iid)) + tag, False,
                               loc=fn.loc(p.end_iid), detail="%s returns void: the failed allocation cannot be reported, the caller carries "
                               "on as if the step had been performed" % fn.sname, path=p, key="R20.1-arm %s" % fn.sname)
            # ---------------- R20.2 (success closed under failure) -------------------------------
            if p.kind == "ret" and not retvoid:
                succ = []
                if retptr:
                    if p.ret_zeroness() != "Z":
                        succ = [[]]
                        f2 = p.facts.copy()
                        f2.add(T.mk_icmp("ne", p.ret, C(0, 64)), True)
                else:
                    if p.may_return_zero():
                        succ = cm.success_conjunctions(p)
                for conj in succ:
                    f2 = p.facts.copy()
                    if retptr:
                        f2.add(T.mk_icmp("ne", p.ret, C(0, 64)), True)
                    for t, c in conj:
                        if c == "Z":
                            f2.add(T.mk_icmp("eq", t, C(0, T.term_bits(t) or 32)), True)
                        elif c == "NZ":
                            f2.add(T.mk_icmp("ne", t, C(0, T.term_bits(t) or 32)), True)
                    for e in p.calls():
                        pred = fallible_pred(prog, fn, e)
                        if pred is None:
                            continue
                        nsucc += 1
                        ok = outcome(p, e, pred, f2) is True
                        # an allocation whose result is merely forwarded as this function's result
                        # (only when both use the same failure encoding: a forwarded mmap() result carries MAP_FAILED == -1,
                        # which no caller testing for NULL recognises)
                        if not ok and retptr and T.root(p.ret) == e.res and pred == "NZ":
                            ok = True
                        chk.ob("R20.2", fn, "success exit: fallible step %s at %s succeeded on this path"
                               % (e.callee_name() or "slot", fn.loc(e.iid)) + tag, ok, loc=fn.loc(p.end_iid),
                               detail="" if ok else "no branch fact establishes its success before the success return",
                               path=None if ok else p, key="R20.2 %s %s" % (fn.sname, e.callee_name() or "slot"))
            # ---------------- R20.4 ownership ------------------------------------------------------
            if p.kind in ("ret", "noreturn"):
                for e in p.calls():
                    nm = e.callee_name()
                    if nm not in ("malloc", "calloc", "mmap"):
                        continue
                    if outcome(p, e, EXT_ALLOC[nm]) is False:
                        continue
                    res = e.res
                    rel = []
                    escaped = False
                    holders = set()
                    uaf = None
                    for u in p.events[e.idx + 1:]:
                        if u.kind == "store":
                            if T.root(u.val) == res:
                                ra = T.root(u.addr)
                                if ra[0] == "alloca":
                                    holders.add(ra)
                                else:
                                    escaped = True
                            if T.root(u.addr) == res and rel:
                                uaf = u
                        elif u.kind == "load":
                            if T.root(u.addr) == res and rel:
                                uaf = u
                        elif u.kind == "call":
                            un = u.callee_name()
                            roots_ = [T.root(a) for a in u.args]
                            if un in RELEASE and RELEASE[un] < len(u.args):
                                ra = roots_[RELEASE[un]]
                                if ra == res:
                                    rel.append(u)
                                    continue
                                if un != "free" and un != "munmap" and (ra in holders or escaped and ra[0] != "alloca"):
                                    rel.append(u)
                                    continue
                            if res in roots_ and rel and un not in RELEASE:
                                uaf = u
                    if p.kind == "ret" and p.ret is not None and T.root(p.ret) == res:
                        escaped = True
                    nown += 1
                    direct = [u for u in rel if T.root(u.args[RELEASE[u.callee_name()]]) == res]
                    chk.ob("R20.4", fn, "allocation at %s is released at most once per path" % fn.loc(e.iid) + tag,
                           len(direct) <= 1, loc=fn.loc(direct[1].iid) if len(direct) > 1 else fn.loc(e.iid),
                           detail="released at %s" % [fn.loc(u.iid) for u in direct], path=p if len(direct) > 1 else None,
                           key="R20.4 %s double-free" % fn.sname)
                    chk.ob("R20.4", fn, "allocation at %s is not used after release" % fn.loc(e.iid) + tag, uaf is None,
                           loc=fn.loc(uaf.iid) if uaf else fn.loc(e.iid), path=p if uaf else None,
                           key="R20.4 %s use-after-free" % fn.sname)
                    if p.kind == "ret":
                        ok = bool(rel) or escaped
                        if escaped and not rel and not retvoid and not retptr and p.ret_zeroness() == "NZ":
                            # failing exit after handing the allocation to a parameter-rooted owner: the owner
                            # must have been released here (callers do not clean up after a failure)
                            ok = False
                        chk.ob("R20.4", fn, "allocation at %s is released, returned or owned at exit" % fn.loc(e.iid) + tag, ok,
                               loc=fn.loc(p.end_iid), detail="" if ok else "leaked on this path", path=None if ok else p,
                               key="R20.4 %s leak" % fn.sname)
                # ---------------- R20.5 no dangling pointer is left in caller-visible memory ---------------
                if p.kind == "ret":
                    loads = {l.res: l for l in p.events if l.kind == "load" and l.res is not None}
                    for u in p.calls():
                        un = u.callee_name()
                        if un not in RELEASE or un == "argon2_finalize" or RELEASE[un] >= len(u.args):
                            continue
                        if un == "munmap" and u.res is not None and p.facts.zeroness(u.res) == "NZ":
                            continue        # munmap() reported failure: the mapping is still there
                        v = u.args[RELEASE[un]]
                        cells = []
                        if v in loads and T.root(loads[v].addr)[0] != "alloca":
                            la = loads[v]
                            # the cell still holds v at the release unless it was overwritten in between
                            if not any(w.kind == "store" and w.addr == la.addr and w.val != v and la.idx < w.idx < u.idx
                                       for w in p.events):
                                cells.append(la.addr)
                        last = {}
                        for w in p.events[:u.idx]:
                            if w.kind == "store" and T.root(w.addr)[0] != "alloca":
                                last[w.addr] = w.val
                        cells += [a for a, val in last.items() if val == v and a not in cells and v[0] != "c"]
                        for A in cells:
                            rootA = T.root(A)
                            ndangle[0] += 1
                            ok = False
                            for w in p.events[u.idx + 1:]:
                                if w.kind == "store" and w.addr == A:
                                    ok = True
                                elif w.kind == "call":
                                    wn = w.callee_name()
                                    if wn in RELEASE and RELEASE[wn] < len(w.args) and T.root(w.args[RELEASE[wn]]) in (rootA, v):
                                        ok = True       # the object holding the cell is itself released
                                    elif wn not in RELEASE and cm.writes_through(prog, p, w, rootA):
                                        ok = True       # re-initialised by a callee
                            # a cell inside the released block itself needs no clearing
                            if rootA == T.root(v) or (v in loads and T.root(A) == v):
                                ok = True
                            chk.ob("R20.5", fn, "pointer released by %s at %s does not stay in caller-visible memory (%s)"
                                   % (un, fn.loc(u.iid), T.show(A, fn)) + tag, ok, loc=fn.loc(u.iid),
                                   detail="" if ok else "the cell still holds the released pointer at the return: the owner's clean-up "
                                   "will use / release it again", path=None if ok else p, key="R20.5 %s dangling" % fn.sname)
                # local owner objects that acquired memory through a callee
                if p.kind == "ret":
                    for e in p.calls():
                        nm = e.callee_name()
                        tg = []
                        if nm is None and e.callee[0] == "ind":
                            tg, _c = cm.resolved_targets(prog, fn, e)
                            nms = {t.sname for t in tg}
                            nm = next(iter(nms)) if nms and all(n in ACQUIRE for n in nms) else None
                        if nm not in ACQUIRE:
                            continue
                        ai, when = ACQUIRE[nm]
                        if ai >= len(e.args):
                            continue
                        owner = T.root(e.args[ai])
                        if owner[0] != "alloca":
                            continue
                        if when != "any" and outcome(p, e, when) is False:
                            continue
                        nown += 1
                        rel = [u for u in p.events[e.idx + 1:] if u.kind == "call" and u.callee_name() in RELEASE
                               and RELEASE[u.callee_name()] < len(u.args)
                               and T.root(u.args[RELEASE[u.callee_name()]]) == owner]
                        ok = bool(rel)
                        chk.ob("R20.4-owner", fn, "local owner that acquired memory via %s at %s is released before return"
                               % (nm, fn.loc(e.iid)) + tag, ok, loc=fn.loc(p.end_iid), path=None if ok else p,
                               key="R20.4-owner %s" % fn.sname)
    chk.floor("R20.1", "allocator call sites in scope" + tag, len(alloc_sites), 8)
    chk.floor("R20.2", "fallible steps on success exits" + tag, nsucc, 60)
    chk.floor("R20.4", "allocation / owner obligations" + tag, nown, 30)
    chk.floor("R20.5", "released pointers that were held in caller-visible memory" + tag, ndangle[0], 3)

    # ---- R20.6: destructors are total ---------------------------------------------------------------------------------------
    # The error paths rely on the owner's destructor (argon2_free_instance, free_memory, escrypt_free_region) to release
    # whatever the owner holds. Every release such a function performs on some path must be performed on every returning path,
    # unless that path holds the fact that the released pointer itself is NULL (or the release call itself reported failure).
    # An early return on another field's NULL-ness skips the rest and leaks it.
    ndest = 0
    for dname in ("argon2_free_instance", "free_memory", "escrypt_free_region"):
        d = prog.fn(dname)
        if d is None:
            d = next((f for f in prog.functions() if f.sname == dname and not f.decl), None)
        if d is None:
            continue
        ps = [p for p in cm.paths(prog, d) if p.kind == "ret"]
        universe = {}
        per_path = []
        for p in ps:
            load_addr = {e.res: e.addr for e in p.events if e.kind == "load" and e.res is not None}
            mine = {}
            for u in p.calls():
                un = u.callee_name()
                if un not in RELEASE or un == "argon2_finalize" or RELEASE[un] >= len(u.args):
                    continue
                a = u.args[RELEASE[un]]
                shape = (un, load_addr.get(a, a))
                mine[shape] = u
                universe.setdefault(shape, (u, p))
            per_path.append((p, mine, load_addr))
        for p, mine, load_addr in per_path:
            for shape, (u0, _p0) in universe.items():
                if shape in mine:
                    continue
                ndest += 1
                un, addr = shape
                # is the pointer that would be released known to be NULL on this path?
                null_here = False
                for e in p.events:
                    if e.kind == "load" and e.addr == addr and e.res is not None and p.facts.zeroness(e.res) == "Z":
                        null_here = True
                if addr[0] == "arg" and p.facts.zeroness(addr) == "Z":
                    null_here = True
                # or did an earlier release on this path report failure (munmap != 0)?
                failed = any(x.callee_name() == "munmap" and x.res is not None and p.facts.zeroness(x.res) == "NZ" for x in p.calls("munmap"))
                ok = null_here or failed
                chk.ob("R20.6", d, "every returning path performs %s(%s) unless that pointer is NULL there" % (un, T.show(addr, d)) + tag, ok,
                       loc=d.loc(p.end_iid), detail="" if ok else "this path returns without it (it is performed at %s on other paths): "
                       "what the owner still holds is leaked" % d.loc(u0.iid), path=None if ok else p, key="R20.6 %s %s" % (dname, un))
        chk.ob("R20.6", d, "%d returning path(s), %d distinct release(s)" % (len(ps), len(universe)), True, key="R20.6 %s scan" % dname)
    chk.floor("R20.6", "destructors examined" + tag, 1 if ndest >= 0 else 0, 1)

    param_release_rule(prog, chk, cg, reach, tag)

    # ---- R20.2b: results of fallible calls reach a branch or a return (flow-insensitive use-def) -----
    ndrop = 0
    for fn in scope:
        users = fn.users()
        for iid, res in cg.sites[fn.key]:
            names = set()
            for r in res:
                names.add(r[1].sname if r[0] == "fn" else (r[1] if r[0] == "ext" else None))
            if not names or not all(n in INT_FALLIBLE or n in EXT_ALLOC for n in names):
                continue
            ndrop += 1
            seen, work, ok = set(), [iid], False
            while work and not ok:
                v = work.pop()
                if v in seen:
                    continue
                seen.add(v)
                for u in users.get(v, ()):
                    ui = fn.insts[u]
                    if ui["op"] in ("br", "switch", "ret"):
                        ok = True
                        break
                    if ui["op"] == "store":
                        # stored to a local and reloaded: follow loads of the same alloca
                        a = ui["ops"][1]
                        if a[0] == "v":
                            for w, wi in enumerate(fn.insts):
                                if wi["op"] == "load" and wi["ops"][0] == a:
                                    work.append(w)
                        if not (a[0] == "v" and fn.insts[a[1]]["op"] == "alloca"):
                            ok = True   # stored into an owner object (e.g. instance->pseudo_rands), tested via the struct
                        continue
                    work.append(u)
            chk.ob("R20.2b", fn, "result of fallible call %s at %s reaches a branch or a return" % (sorted(names), fn.loc(iid)) + tag,
                   ok, loc=fn.loc(iid), key="R20.2b %s dropped-result" % fn.sname)
    chk.floor("R20.2b", "fallible call sites" + tag, ndrop, 40)

    # ---- R20.3 verify provenance ------------------------------------------------------------------------
    if cname == "native":
        rows = [
            ("argon2_verify", [("argon2_hash", "Z", {7: V("out")}), ("sodium_memcmp", "Z", {0: V("out")})]),
            ("argon2i_verify", [("argon2_verify", "Z", {0: P(0), 1: P(1)})]),
            ("argon2id_verify", [("argon2_verify", "Z", {0: P(0), 1: P(1)})]),
            ("crypto_pwhash_argon2i_str_verify", [("argon2i_verify", "Z", {0: P(0), 1: P(1)})]),
            ("crypto_pwhash_argon2id_str_verify", [("argon2id_verify", "Z", {0: P(0), 1: P(1)})]),
            ("crypto_pwhash_scryptsalsa208sha256_str_verify", [("escrypt_r", "NZ", {1: P(1), 3: P(0), 4: V("wanted")}),
                                                               ("sodium_memcmp", "Z", {0: V("wanted"), 1: P(0)})]),
        ]
        n = 0
        for name, checks in rows:
            fn = prog.need(name, rule="R20.3")
            k = cm.checklist(chk, "R20.3", prog, fn, "Z", checks, "match reported => hash succeeded and constant-time compare equal")
            if k == 0:
                raise AnalysisBroken("R20.3: %s has no success exit" % name)
            n += k
        # the generic dispatcher succeeds only through one of the algorithm-specific verifiers
        fn = prog.need("crypto_pwhash_str_verify", rule="R20.3")
        for p, conj in cm.exits_returning(prog, fn, "Z"):
            n += 1
            ok = any(e.callee_name() in ("crypto_pwhash_argon2i_str_verify", "crypto_pwhash_argon2id_str_verify")
                     and cm.call_is_zero(p, e, conj) and e.args[0] == ("arg", 0) and e.args[1] == ("arg", 1)
                     for e in p.calls())
            chk.ob("R20.3", fn, "match reported => an algorithm-specific verifier returned 0 on (str, passwd)", ok,
                   loc=fn.loc(p.end_iid), path=None if ok else p, key="R20.3 crypto_pwhash_str_verify")
        chk.floor("R20.3", "success exits of verify functions", n, 7)


def _as_param(a):
    """('arg', k) when the term is exactly a parameter (possibly through a zero offset)"""
    if a is None:
        return None
    if a[0] == "arg":
        return a
    if a[0] == "gep" and a[1][0] == "arg" and a[2] == 0 and not a[3]:
        return a[1]
    if a[0] == "cast" and a[1] in ("bitcast",):
        return _as_param(a[2])
    return None


def param_release_rule(prog, chk, cg, reach, tag):
    """R20.7: may-release-parameter summaries (fixpoint over the call graph) and their two consumers"""
    LIBC = {"free": 0, "munmap": 0}
    fns = [cg.by_key[k] for k in sorted(reach, key=str) if not cg.by_key[k].decl]
    FP = {}            # function key -> {param index: (inst id, callee name)}
    paths_of = {}

    def callees(fn):
        out = set()
        for _iid, res in cg.sites[fn.key]:
            for r in res:
                out.add(r[1].key if r[0] == "fn" else (r[1] if r[0] == "ext" else None))
        return out
    callee_sets = {f.key: callees(f) for f in fns}
    changed = True
    rounds = 0
    while changed and rounds < 8:
        changed = False
        rounds += 1
        for f in fns:
            cs = callee_sets[f.key]
            if not (cs & set(LIBC) or any(k in FP and FP[k] for k in cs)):
                continue
            if f.key not in paths_of:
                try:
                    paths_of[f.key] = cm.paths(prog, f)
                except AnalysisBroken:
                    paths_of[f.key] = []
            mine = FP.setdefault(f.key, {})
            for p in paths_of[f.key]:
                for u in p.calls():
                    un = u.callee_name()
                    idxs = []
                    if un in LIBC:
                        idxs = [LIBC[un]]
                    elif u.callee[0] == "fn" and FP.get(u.callee[1].key):
                        idxs = list(FP[u.callee[1].key])
                    for j in idxs:
                        if j >= len(u.args):
                            continue
                        a = _as_param(u.args[j])
                        if a is not None and a[1] not in mine:
                            mine[a[1]] = (u.iid, un or "callee")
                            changed = True
    nsum = sum(1 for v in FP.values() if v)
    npub = 0
    for f in fns:
        if not f.public or f.sname == "sodium_free":
            continue
        npub += 1
        got = FP.get(f.key) or {}
        for k, (iid, un) in sorted(got.items()):
            chk.ob("R20.7", f, "an exported function never releases one of its pointer parameters" + tag, False, loc=f.loc(iid),
                   detail="%s hands its parameter %s to %s, which may free it: on that path the library frees a buffer that belongs to the "
                   "caller" % (f.sname, f.params[k]["name"], un), key="R20.7 %s frees-param %s" % (f.sname, f.params[k]["name"]))
        if not got:
            chk.ob("R20.7", f, "an exported function never releases one of its pointer parameters" + tag, True, key="R20.7 %s" % f.sname)
    # double release through a callee that may release its argument
    ndbl = 0
    for f in fns:
        for p in paths_of.get(f.key, ()):
            evs = list(p.calls())
            for x, u in enumerate(evs):
                if u.callee[0] != "fn" or not FP.get(u.callee[1].key):
                    continue
                for j in FP[u.callee[1].key]:
                    if j >= len(u.args):
                        continue
                    a = u.args[j]
                    if a is None or a[0] == "c":
                        continue
                    ndbl += 1
                    again = [w for w in evs[x + 1:] if
                             (w.callee_name() in LIBC and w.args and w.args[0] == a) or
                             (w.callee[0] == "fn" and any(i < len(w.args) and w.args[i] == a for i in FP.get(w.callee[1].key) or ()))]
                    # (a destructor that was told to release and is followed by nothing is the normal case)
                    ok = not again
                    chk.ob("R20.7", f, "a pointer handed to a callee that may release it is not released again" + tag, ok,
                           loc=f.loc(again[0].iid) if again else f.loc(u.iid), path=None if ok else p,
                           detail="" if ok else "%s may free its argument (%s); %s releases the same pointer again at %s" %
                           (u.callee_name(), f.loc(u.iid), f.sname, f.loc(again[0].iid)), key="R20.7 %s double-release" % f.sname)
    chk.floor("R20.7", "functions with a may-release-parameter summary" + tag, nsum, 2)
    chk.floor("R20.7", "exported functions in scope" + tag, npub, 15)
