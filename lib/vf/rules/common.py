"""Helpers shared by the per-property rule modules."""
import os

from .. import pathai
from .. import terms as T
from ..build import AnalysisBroken
from ..terms import C, Facts

CT_COMPARATORS = {"crypto_verify_16": 16, "crypto_verify_32": 32, "crypto_verify_64": 64}


_KEEP = None


def rule_named_functions():
    """every identifier that a rule module spells as a string: functions the rules want to see as calls"""
    global _KEEP
    if _KEEP is None:
        import glob
        import os
        import re
        names = set()
        for f in glob.glob(os.path.join(os.path.dirname(__file__), "*.py")):
            names |= set(re.findall(r'["\']([A-Za-z_][A-Za-z0-9_]*)["\']', open(f).read()))
        _KEEP = frozenset(names)
    return _KEEP


def paths(prog, fn, inline_helpers=None, **kw):
    """E1 paths of fn. Small loop-free static helpers defined in the same source file that no rule names are inlined
    first (lib/vf/inline.py), so that extracting a few statements into a helper does not change what the rules see."""
    if inline_helpers is None:
        inline_helpers = os.environ.get("VERIF_INLINE", "1") == "1"
    if inline_helpers:
        from .. import inline
        fn = inline.inlined(prog, fn, keep=rule_named_functions())
    return pathai.paths_of(prog, fn, writers=prog.callgraph(), **kw)


def comparator_len(e):
    """length compared by a full-length constant-time comparator call event, else None"""
    n = e.callee_name()
    if n in CT_COMPARATORS:
        return CT_COMPARATORS[n]
    if n == "sodium_memcmp" and len(e.args) == 3 and e.args[2][0] == "c":
        return e.args[2][1]
    return None


def success_conjunctions(p):
    """for a path that may return 0: the alternative atom sets under which the return value is 0"""
    if p.kind != "ret" or p.ret is None:
        return []
    return T.zero_conditions(p.ret, p.facts)


def call_is_zero(p, e, conj):
    """did call event e certainly return 0 on path p, given the success atoms conj?"""
    if e.res is None:
        return False
    if p.facts.zeroness(e.res) == "Z":
        return True
    for t, c in conj:
        if t == e.res and c == "Z":
            return True
    return False


def call_has_value(p, e, conj, value):
    if e.res is None:
        return False
    for t, c in conj:
        if t == e.res and c == ("EQ", value):
            return True
    iv = p.facts.interval(e.res)
    return iv == (value, value)


def resolved_targets(prog, fn, e):
    """[Function] a call event may invoke ([] + complete=False when unknown)"""
    c = e.callee
    if c[0] == "fn":
        return [c[1]], True
    if c[0] == "ind":
        cg = prog.callgraph()
        tg, complete = cg.resolve_indirect(fn, fn.insts[e.iid])
        return tg, complete
    return [], False


def const_bindings(e, callee):
    """[(term, truth)] assumptions binding the callee's parameters to the constant arguments
    of call event e (so that e.g. maclen == 32 selects the arm the caller really uses)"""
    out = []
    for i, a in enumerate(e.args):
        if a[0] == "c" and i < len(callee.params):
            out.append((("icmp", "eq", ("arg", i), a), True))
    return out


def root_param(t):
    r = T.root(t)
    return r[1] if r[0] == "arg" else None


def writes_through(prog, p, e, root):
    """may event e write memory of the object `root`? (store or writer call)"""
    if e.kind == "store":
        return T.root(e.addr) == root
    if e.kind != "call":
        return False
    cg = prog.callgraph()
    c = e.callee
    if c[0] == "fn":
        wp = cg.writes_params(c[1])
        return any(i in wp and T.root(a) == root for i, a in enumerate(e.args))
    if c[0] == "ext":
        from ..callgraph import ext_writes
        w = ext_writes(c[1])
        if w is None:
            w = range(len(e.args))
        return any(i < len(e.args) and T.root(e.args[i]) == root for i in w)
    if c[0] == "ind":
        tg, complete = cg.resolve_indirect(p.fn, p.fn.insts[e.iid])
        if not complete:
            return any(T.root(a) == root for a in e.args)
        for t in tg:
            wp = cg.writes_params(t)
            if any(i in wp and T.root(a) == root for i, a in enumerate(e.args)):
                return True
        return False
    if c[0] == "asm":
        return any(T.root(a) == root for a in e.args)
    return False


def is_const_fill(e, root):
    """memset(root, <constant byte>, n) / sodium_memzero(root, n)"""
    n = e.callee_name()
    if n == "memset" and e.args[0] == root and e.args[1][0] == "c":
        return True
    if n == "sodium_memzero" and e.args[0] == root:
        return True
    return False


# ---------------------------------------------------------------------------------------------
# E7 support: canonical "shapes" of terms and events, with parameter roles, for sibling agreement
class Shaper:
    """Maps path-local terms to role-based canonical shapes so that two sibling functions can be
    compared on what they do rather than how they spell it. roles: {param index: role name};
    rewrites: [(term, symbol)] replaced before shaping (e.g. (inlen - ABYTES) -> 'MLEN')."""

    def __init__(self, prog, path, roles, rewrites=()):
        self.prog = prog
        self.p = path
        self.fn = path.fn
        self.roles = roles
        self.rewrites = dict(rewrites)
        self.load_addr = {}
        for e in path.events:
            if e.kind == "load" and e.res is not None and e.res[0] == "load":
                self.load_addr[e.res] = e.addr
        self.depth = 0

    def ptr(self, t):
        off = 0
        var = False
        if t in self.rewrites:
            return self.rewrites[t]
        if t[0] == "gep":
            off, var = t[2], bool(t[3])
            vs = tuple(sorted(str(self.shape(v)) for v, _s in t[3]))
            base = t[1]
        else:
            vs = ()
            base = t
        if base in self.rewrites:
            return (self.rewrites[base], off, vs)
        r = base
        if r[0] == "arg":
            return (self.roles.get(r[1], "P%d" % r[1]), off, vs)
        if r[0] == "alloca":
            return (("L", self.fn.insts[r[1]].get("size", 0)), off, vs)
        if r[0] == "g":
            return (("G", r[1]), off, vs)
        return (self.shape(r), off, vs)

    def shape(self, t, d=0):
        if t in self.rewrites:
            return self.rewrites[t]
        if d > 12:
            return "..."
        k = t[0]
        if k == "c":
            return ("c", t[1])
        if k == "arg":
            return self.roles.get(t[1], "P%d" % t[1])
        if k in ("alloca", "g", "gep"):
            return ("&",) + self.ptr(t)
        if k == "call":
            ins = self.fn.insts[t[1]]
            r = self.prog.resolve_callee(self.fn, ins["callee"])
            nm = r[1].sname if r[0] == "fn" else (r[1] if r[0] == "ext" else r[0])
            for e in self.p.events:
                if e.kind == "call" and e.res == t:
                    return ("call", nm, tuple(self.shape(a, d + 1) for a in e.args))
            return ("call", nm)
        if k == "load":
            a = self.load_addr.get(t)
            return ("ld", self.ptr(a) if a is not None else "?")
        if k == "havoc":
            return "loopvar"
        if k == "bin":
            a, b = self.shape(t[2], d + 1), self.shape(t[3], d + 1)
            if t[1] in ("add", "and", "or", "xor", "mul") and str(a) > str(b):
                a, b = b, a
            return (t[1], a, b)
        if k == "icmp":
            return ("icmp", t[1], self.shape(t[2], d + 1), self.shape(t[3], d + 1))
        if k == "not":
            return ("not", self.shape(t[1], d + 1))
        if k == "cast":
            return self.shape(t[2], d + 1)      # width changes are not behaviourally relevant here
        if k == "select":
            return ("select", self.shape(t[1], d + 1), self.shape(t[2], d + 1), self.shape(t[3], d + 1))
        if k == "op":
            return ("op", t[1]) + tuple(self.shape(x, d + 1) for x in t[2:] if isinstance(x, tuple))
        return (k,)

    def event(self, e):
        if e.kind == "call":
            return ("call", e.callee_name() or e.callee[0], tuple(self.shape(a) for a in e.args))
        if e.kind == "store":
            return ("store", self.ptr(e.addr), self.shape(e.val), e.size)
        if e.kind == "fact":
            return ("fact", self.shape(e.term), e.truth)
        return (e.kind,)


# ---------------------------------------------------------------------------------------------
# checklist obligations: "at every exit of this kind, these checks were executed and passed"
def _outcome_holds(p, e, conj, outcome):
    if outcome is None:
        return True          # the call merely has to be on the path (void producers)
    if e.res is None:
        return False
    z = p.facts.zeroness(e.res)
    if outcome in ("Z", "NZ"):
        if z == outcome:
            return True
        for t, c in conj:
            if t == e.res:
                if c == outcome:
                    return True
                if isinstance(c, tuple) and c[0] == "EQ":
                    if (c[1] == 0) == (outcome == "Z"):
                        return True
        return False
    if isinstance(outcome, tuple) and outcome[0] == "EQ":
        return call_has_value(p, e, conj, outcome[1])
    return False


def find_checks(p, conj, checks, binding=None, start=0, _nodiag=False):
    """checks: [(callee source name, outcome, {arg index: ('param', i) | ('var', name)})].
    Returns a binding dict {var: root} under which every check has a matching passed call on the
    path (in any order), or None. Also returns the index of the first missing check."""
    binding = dict(binding or {})

    matched = []

    def rec(k, b):
        if k == len(checks):
            return b
        name, outcome, argc = checks[k]
        for e in p.calls(name):
            if not _outcome_holds(p, e, conj, outcome):
                continue
            b2 = dict(b)
            ok = True
            for ai, want in argc.items():
                if ai >= len(e.args):
                    ok = False
                    break
                r = T.root(e.args[ai])
                if want[0] == "param":
                    if r != ("arg", want[1]):
                        ok = False
                        break
                elif want[0] == "var":
                    if want[1] in b2:
                        if b2[want[1]] != r:
                            ok = False
                            break
                    else:
                        b2[want[1]] = r
            if not ok:
                continue
            res = rec(k + 1, b2)
            if res is not None:
                matched.append(e)
                return res
        return None

    full = rec(0, binding)
    if full is not None:
        full = dict(full)
        full["__events__"] = list(reversed(matched))
        return full, None
    # diagnose: the check whose removal makes the remaining list satisfiable
    if len(checks) > 1 and not _nodiag:
        for k in range(len(checks)):
            rest = checks[:k] + checks[k + 1:]
            if find_checks(p, conj, rest, binding, _nodiag=True)[0] is not None:
                return None, k
    for k in range(len(checks)):
        if rec_single(p, conj, checks[k]) is None:
            return None, k
    return None, 0


def rec_single(p, conj, check):
    name, outcome, argc = check
    for e in p.calls(name):
        if not _outcome_holds(p, e, conj, outcome):
            continue
        ok = True
        for ai, want in argc.items():
            if ai >= len(e.args):
                ok = False
                break
            if want[0] == "param" and T.root(e.args[ai]) != ("arg", want[1]):
                ok = False
                break
        if ok:
            return e
    return None


def describe_check(c, fn):
    name, outcome, argc = c
    a = []
    for ai, want in sorted(argc.items()):
        if want[0] == "param":
            a.append("arg%d=%s" % (ai, fn.params[want[1]]["name"]))
        else:
            a.append("arg%d=%s" % (ai, want[1]))
    oc = {"Z": "== 0", "NZ": "!= 0"}.get(outcome, "== %s" % (outcome[1] if isinstance(outcome, tuple) else outcome))
    return "%s(%s) %s" % (name, ", ".join(a), oc)


def exits_returning(prog, fn, kind, **kw):
    """(path, conj) pairs for exits that may return zero ('Z'), may return non-zero ('NZ'),
    or may return a given value ('EQ', v)"""
    for p in paths(prog, fn, **kw):
        if p.kind != "ret" or p.ret is None:
            continue
        if kind == "Z":
            if p.may_return_zero():
                for conj in success_conjunctions(p):
                    yield p, conj
        elif kind == "NZ":
            if p.may_return_nonzero():
                for conj in T.nonzero_conditions(p.ret, p.facts):
                    yield p, conj
        else:
            v = kind[1]
            iv = p.facts.interval(p.ret)
            if p.ret[0] == "c":
                if p.ret[1] == v & ((1 << p.ret[2]) - 1):
                    yield p, []
            elif iv is None or iv[0] <= v <= iv[1]:
                yield p, []


def checklist(chk, rule, prog, fn, kind, checks, what, **kw):
    n = 0
    for p, conj in exits_returning(prog, fn, kind, **kw):
        n += 1
        b, missing = find_checks(p, conj, checks)
        ok = b is not None
        chk.ob(rule, fn, what, ok, loc=fn.loc(p.end_iid),
               detail=("all of: " + "; ".join(describe_check(c, fn) for c in checks)) if ok else
               "missing on this path: " + describe_check(checks[missing], fn),
               path=None if ok else p, key="%s %s" % (rule, fn.sname))
    return n


# ---------------------------------------------------------------------------------------------
# parameter limits: "success (and reaching a core) implies lo <= param <= hi"
def limits_rule(chk, rule, prog, rows, what="success return"):
    """rows: [(function name, {param index: (role, lo, hi)}, core callee names or None)].
    At every exit that may return 0 and at every call to a core callee, the interval of each listed
    parameter under the path facts must lie inside [lo, hi] — or the function succeeded through a
    call (that returned 0) to another row function to which the parameter was forwarded unchanged
    into a position whose own limits are at least as tight."""
    byfn = {}
    fns = {}
    for name, params, cores in rows:
        fn = prog.need(name, rule=rule)
        byfn[fn.key] = params
        fns[name] = fn
    nsites = 0
    for name, params, cores in rows:
        fn = fns[name]
        for p in paths(prog, fn):
            if p.kind != "ret":
                continue
            sites = []
            if cores:
                sites += [(e.idx, "call to %s at %s" % (e.callee_name(), fn.loc(e.iid)), [])
                          for e in p.calls() if e.callee_name() in cores]
            if p.may_return_zero():
                for conj in success_conjunctions(p):
                    sites.append((len(p.events), "%s at %s" % (what, fn.loc(p.end_iid)), conj))
            for idx, where, conj in sites:
                nsites += 1
                fb = p.facts_before(idx)
                for pi, (role, lo, hi) in sorted(params.items()):
                    iv = fb.interval(("arg", pi)) or (0, (1 << 64) - 1)
                    ok = lo <= iv[0] and iv[1] <= hi
                    via = ""
                    if not ok:
                        for e in p.calls():
                            if e.callee[0] == "fn" and e.callee[1].key in byfn and e.idx < idx and call_is_zero(p, e, conj):
                                cpar = byfn[e.callee[1].key]
                                for ci, (_r, clo, chi) in cpar.items():
                                    if ci < len(e.args) and e.args[ci] == ("arg", pi) and lo <= clo and chi <= hi:
                                        ok = True
                                        via = "checked by %s" % e.callee_name()
                    chk.ob(rule, fn, "%s within [%d, %d] at %s" % (role, lo, hi, where), ok, loc=fn.loc(p.end_iid),
                           detail=via or "path facts give %s in [%d, %d]" % (role, iv[0], iv[1]),
                           path=None if ok else p,
                           key="%s %s %s-%s" % (rule, name, role, "unbounded" if (iv[0] < lo and iv[1] > hi) else
                                                ("below-min" if iv[0] < lo else "above-max")))
    return nsites


def sibling_skeleton_rule(prog, chk, rule, names, roles, callees, floor_shapes=10):
    """E7: the scalar control skeleton - every branch condition and every call to the listed scalar helpers, role-normalised -
    must be the same set in all sibling implementations of one interface (e.g. the four Argon2 block-fill backends compute
    the reference lane / index identically; only the block compression differs)."""
    sets = {}
    fns_by = {}
    for nm in names:
        if isinstance(nm, tuple):          # (name, unit substring): siblings that share a name across units
            cands = [f for f in prog.functions() if not f.decl and f.sname == nm[0] and nm[1] in f.unit]
            fn = cands[0] if cands else None
            nm = "%s (%s)" % nm
        else:
            fn = prog.fn(nm)
        if fn is None:
            continue
        fns_by[nm] = fn
        S = {}
        for p in paths(prog, fn):
            sh = Shaper(prog, p, roles)
            for e in p.events:
                if e.kind == "fact" or (e.kind == "call" and (e.callee_name() or "") in callees):
                    S.setdefault(str(sh.event(e)), (fn, e.iid))
        sets[nm] = S
    if len(sets) < 2:
        if chk.relaxed:
            return
        raise AnalysisBroken("%s: fewer than two sibling implementations among %s" % (rule, names))
    ref_name = next(iter(sets))
    ref = sets[ref_name]
    for nm, S in sets.items():
        only = sorted(set(S) - set(ref))
        missing = sorted(set(ref) - set(S))
        ok = not only and not missing
        where = S[only[0]] if only else (ref[missing[0]] if missing else None)
        chk.ob(rule, fns_by[nm], "scalar control skeleton (%d shapes) equals that of %s" % (len(S), ref_name), ok,
               loc=where[0].loc(where[1]) if where else None,
               detail="" if ok else "only here: %s | only in %s: %s" % ([x[:260] for x in only[:1]], ref_name, [x[:260] for x in missing[:1]]),
               key="%s %s" % (rule, nm))
    chk.floor(rule, "role-normalised skeleton shapes of %s" % ref_name, len(ref), floor_shapes)


def layering_rule(prog, chk, rule, ops, floor=1):
    """who-may-call: a primitive-specific unit crypto_<op>/<primitive>/... never calls the generic front end of its own operation
    (crypto_<op>/crypto_<op>*.c): the front end stands for the library's *default* primitive, which need not be this one
    (crypto_box_beforenm is the XSalsa20 derivation; called from the XChaCha20 box it yields a different key than
    crypto_box_curve25519xchacha20poly1305_beforenm)."""
    cg = prog.callgraph()
    n = 0
    for f in sorted(prog.functions(), key=lambda f: (f.unit, f.name)):
        parts = f.unit.split("/")
        if parts[0] not in ops or len(parts) < 3:
            continue
        for iid, res in cg.sites[f.key]:
            for r in res:
                if r[0] != "fn":
                    continue
                g = r[1]
                gp = g.unit.split("/")
                n += 1
                bad = gp[0] == parts[0] and len(gp) == 2
                if bad:
                    chk.ob(rule, f, "primitive-specific code does not call the generic front end of its own operation", False, loc=f.loc(iid),
                           detail="%s (%s) calls %s, the front end of %s for the default primitive (%s)" % (f.sname, f.unit, g.sname, parts[0], g.unit),
                           key="%s %s -> %s" % (rule, f.sname, g.sname))
    chk.ob(rule, "(call graph scan)", "%d call edges out of the primitive-specific units of %s: none goes to the generic front end of the same "
           "operation" % (n, ", ".join(ops)), True, key="%s scan" % rule)
    chk.floor(rule, "call edges out of primitive-specific units", n, floor)
