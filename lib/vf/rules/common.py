"""Helpers shared by the per-property rule modules."""
from .. import pathai
from .. import terms as T
from ..build import AnalysisBroken
from ..terms import C, Facts

CT_COMPARATORS = {"crypto_verify_16": 16, "crypto_verify_32": 32, "crypto_verify_64": 64}


def paths(prog, fn, **kw):
    return pathai.paths_of(prog, fn, writers=prog.callgraph(), **kw)


def comparator_len(e):
    """length compared by a full-length constant-time comparator call event, else None"""
    n = e.callee_name()
    if n in CT_COMPARATORS:
        return CT_COMPARATORS[n]
    if n == "sodium_memcmp" and len(e.args) == 3 and e.args[2][0] == "c":
        return e.args[2][1]
    return None


def success_conjunctions(p):
    """for a path that may return 0: the alternative atom sets under which the return value is 0"""
    if p.kind != "ret" or p.ret is None:
        return []
    return T.zero_conditions(p.ret, p.facts)


def call_is_zero(p, e, conj):
    """did call event e certainly return 0 on path p, given the success atoms conj?"""
    if e.res is None:
        return False
    if p.facts.zeroness(e.res) == "Z":
        return True
    for t, c in conj:
        if t == e.res and c == "Z":
            return True
    return False


def call_has_value(p, e, conj, value):
    if e.res is None:
        return False
    for t, c in conj:
        if t == e.res and c == ("EQ", value):
            return True
    iv = p.facts.interval(e.res)
    return iv == (value, value)


def resolved_targets(prog, fn, e):
    """[Function] a call event may invoke ([] + complete=False when unknown)"""
    c = e.callee
    if c[0] == "fn":
        return [c[1]], True
    if c[0] == "ind":
        cg = prog.callgraph()
        tg, complete = cg.resolve_indirect(fn, fn.insts[e.iid])
        return tg, complete
    return [], False


def const_bindings(e, callee):
    """[(term, truth)] assumptions binding the callee's parameters to the constant arguments
    of call event e (so that e.g. maclen == 32 selects the arm the caller really uses)"""
    out = []
    for i, a in enumerate(e.args):
        if a[0] == "c" and i < len(callee.params):
            out.append((("icmp", "eq", ("arg", i), a), True))
    return out


def root_param(t):
    r = T.root(t)
    return r[1] if r[0] == "arg" else None


def writes_through(prog, p, e, root):
    """may event e write memory of the object `root`? (store or writer call)"""
    if e.kind == "store":
        return T.root(e.addr) == root
    if e.kind != "call":
        return False
    cg = prog.callgraph()
    c = e.callee
    if c[0] == "fn":
        wp = cg.writes_params(c[1])
        return any(i in wp and T.root(a) == root for i, a in enumerate(e.args))
    if c[0] == "ext":
        from ..callgraph import ext_writes
        w = ext_writes(c[1])
        if w is None:
            w = range(len(e.args))
        return any(i < len(e.args) and T.root(e.args[i]) == root for i in w)
    if c[0] == "ind":
        tg, complete = cg.resolve_indirect(p.fn, p.fn.insts[e.iid])
        if not complete:
            return any(T.root(a) == root for a in e.args)
        for t in tg:
            wp = cg.writes_params(t)
            if any(i in wp and T.root(a) == root for i, a in enumerate(e.args)):
                return True
        return False
    if c[0] == "asm":
        return any(T.root(a) == root for a in e.args)
    return False


def is_const_fill(e, root):
    """memset(root, <constant byte>, n) / sodium_memzero(root, n)"""
    n = e.callee_name()
    if n == "memset" and e.args[0] == root and e.args[1][0] == "c":
        return True
    if n == "sodium_memzero" and e.args[0] == root:
        return True
    return False
