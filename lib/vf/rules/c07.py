"""C07 — Edwards25519 / Ristretto255 group API: validation, identity errors, predicate coverage.

Decided clauses:
  R7.1 validate-before-use: every success exit of the point APIs holds the necessary
       decode / canonical / small-order / main-subgroup checks on the right operands.
  R7.2 identity => error: scalar multiplications succeed only after the identity test on the
       encoded result said "not identity".
  R7.3 (E6) predicate coordinate coverage: the value returned by the subgroup / small-order /
       on-curve predicates depends on every coordinate it must read (identity in extended
       coordinates is X = 0 and Y = Z, so a test that never reads Y or Z cannot tell
       (0:1:1) from (0:-1:1)).
  R7.6 (E11 bit-flow on the -O2 IR) the canonical-form predicates look at exactly the right bits:
       ge25519_is_canonical's verdict cannot depend on bit 255 (the sign of x) and can depend on
       every other bit; ristretto255_is_canonical and sc25519_is_canonical can depend on all 256.
  R7.7 the scalar arithmetic APIs hand out reduced results: the last writer of the output (or of the
       local buffer copied into it) is a function that reduces modulo L.
  R7.10 expand_message_xmd hashes the same DST_prime bytes into b_0 and into every later block: the object
        they are read from is not written in between (reports the genuine defect F6 for oversize contexts).
  R7.11 the oversize replacement of the tag happens exactly for contexts longer than 255 bytes (interval of
        strlen(ctx) on the replacing / verbatim paths).
  R7.8 (E12 known-bits, contradiction rule) no right shift / mask of a non-literal value in the field,
       scalar and X25519 limb arithmetic is identically zero (a cut carry chain), outside one
       confirmed-by-reading exception.
  R7.4 cofactor clearing on every hash-to-group / from-uniform path before encoding; the raw
       Elligator map is reachable only from functions that clear the cofactor.
  R7.15 every limb sc25519_mul / sc25519_reduce pack into the scalar bytes (except the top one) is the remainder of its own carry step.
  R7.14 ristretto255_frombytes applies "is negative" to T and "is zero" to Y (the rejection conditions of RFC 9496 4.3.1).
  R7.13 expand_message_xmd never writes its b_0 buffer inside the block loop (every block chains b_0 xor b_(i-1)).
  R7.12 in the Edwards scalar multiplications bit 255 of the scalar never reaches ge25519_scalarmult / _base (which require
        a[31] <= 127): on every path - with and without clamping - byte 31 of the working copy is last written with a value whose
        bit 7 is known zero.
NOT decided: exactness of field/scalar arithmetic, RFC 9380/9496 values, the accepted set of the
decoders beyond the checklist.
"""
import re
from .. import deps
from .. import terms as T
from ..build import AnalysisBroken
from ..terms import C
from ..callgraph import covers
from . import common as cm

P = lambda i: ("param", i)
V = lambda n: ("var", n)


ALSO_PORTABLE = True


def run(ctx, chk):
    prog = ctx.prog()
    cg = prog.callgraph()
    chk.configs.append("native -O0+mem2reg")
    chk.explanation = (
        "E1 checklists on every success exit of the Ed25519/Ristretto255 point APIs (R7.1, R7.2), "
        "E6 dependence analysis of the point predicates' return values on the coordinates of the "
        "tested point (R7.3), and must-pass-through of cofactor clearing before encoding on every "
        "hash-to-group path plus who-may-call on the raw Elligator map (R7.4).")
    chk.not_decided = ("field / scalar arithmetic exactness, RFC test-vector equality and the exact accepted set of "
                       "the decoders are numeric and not decided.")
    chk.assumptions += ["ge25519_p3 layout (X, Y, Z, T) is read from the compiled struct type",
                        "callee read/write summaries are may-summaries from the IR (constant-offset accesses are exact)"]

    def need(name):
        return prog.need(name, rule="C07")

    # ---- R7.1 ---------------------------------------------------------------------------------
    rows = [
        ("crypto_core_ed25519_add", "Z", [("ge25519_frombytes", "Z", {0: V("p"), 1: P(1)}),
                                          ("ge25519_frombytes", "Z", {0: V("q"), 1: P(2)})]),
        ("crypto_core_ed25519_sub", "Z", [("ge25519_frombytes", "Z", {0: V("p"), 1: P(1)}),
                                          ("ge25519_frombytes", "Z", {0: V("q"), 1: P(2)})]),
        ("crypto_core_ed25519_is_valid_point", "NZ", [
            ("ge25519_is_canonical", "NZ", {0: P(0)}),
            ("ge25519_frombytes", "Z", {0: V("p"), 1: P(0)}),
            ("ge25519_has_small_order", "Z", {0: V("p")}),
            ("ge25519_is_on_main_subgroup", "NZ", {0: V("p")})]),
        ("_crypto_scalarmult_ed25519", "Z", [
            ("ge25519_is_canonical", "NZ", {0: P(2)}),
            ("ge25519_frombytes", "Z", {0: V("p"), 1: P(2)}),
            ("ge25519_is_on_main_subgroup", "NZ", {0: V("p")})]),
        ("crypto_scalarmult_ristretto255", "Z", [("ristretto255_frombytes", "Z", {0: V("p"), 1: P(2)})]),
        ("crypto_core_ristretto255_add", "Z", [("ristretto255_frombytes", "Z", {0: V("p"), 1: P(1)}),
                                               ("ristretto255_frombytes", "Z", {0: V("q"), 1: P(2)})]),
        ("crypto_core_ristretto255_sub", "Z", [("ristretto255_frombytes", "Z", {0: V("p"), 1: P(1)}),
                                               ("ristretto255_frombytes", "Z", {0: V("q"), 1: P(2)})]),
        ("crypto_core_ristretto255_is_valid_point", "NZ", [("ristretto255_frombytes", "Z", {0: V("p"), 1: P(0)})]),
        ("ristretto255_frombytes", "Z", [("ristretto255_is_canonical", "NZ", {0: P(1)})]),
        ("crypto_sign_ed25519_pk_to_curve25519", "Z", [
            ("ge25519_frombytes_negate_vartime", "Z", {0: V("A"), 1: P(1)}),
            ("ge25519_has_small_order", "Z", {0: V("A")}),
            ("ge25519_is_on_main_subgroup", "NZ", {0: V("A")})]),
    ]
    n = 0
    for name, kind, checks in rows:
        fn = need(name)
        k = cm.checklist(chk, "R7.1", prog, fn, kind, checks,
                         "%s exit => validation checks passed" % ("success" if kind == "Z" else "accepting"))
        if k == 0:
            raise AnalysisBroken("R7.1: %s has no %s exit" % (name, kind))
        n += k
    chk.floor("R7.1", "success/accepting exits checked", n, 10)
    # the operation that consumes the validated point must use the validated object
    for name, op in (("crypto_core_ed25519_add", "ge25519_p3_add"), ("crypto_core_ed25519_sub", "ge25519_p3_sub"),
                     ("crypto_core_ristretto255_add", "ge25519_p3_add"), ("crypto_core_ristretto255_sub", "ge25519_p3_sub")):
        fn = need(name)
        dec = "ge25519_frombytes" if "ed25519" in name else "ristretto255_frombytes"
        for p, conj in cm.exits_returning(prog, fn, "Z"):
            decoded = {T.root(e.args[0]) for e in p.calls(dec)}
            ops = list(p.calls(op))
            ok = len(ops) == 1 and {T.root(ops[0].args[1]), T.root(ops[0].args[2])} <= decoded \
                and T.root(ops[0].args[1]) != T.root(ops[0].args[2])
            chk.ob("R7.1-use", fn, "%s operates on the two decoded-and-validated points" % op, ok,
                   loc=fn.loc(ops[0].iid) if ops else fn.loc(), path=None if ok else p, key="R7.1-use %s" % name)

    # ---- R7.2 ---------------------------------------------------------------------------------
    rows2 = [
        ("_crypto_scalarmult_ed25519", [("_crypto_scalarmult_ed25519_is_inf", "Z", {0: P(0)})], "ge25519_p3_tobytes"),
        ("_crypto_scalarmult_ed25519_base", [("_crypto_scalarmult_ed25519_is_inf", "Z", {0: P(0)})], "ge25519_p3_tobytes"),
        ("crypto_scalarmult_ristretto255", [("sodium_is_zero", "Z", {0: P(0)})], "ristretto255_p3_tobytes"),
        ("crypto_scalarmult_ristretto255_base", [("sodium_is_zero", "Z", {0: P(0)})], "ristretto255_p3_tobytes"),
    ]
    n = 0
    for name, checks, enc in rows2:
        fn = need(name)
        for p, conj in cm.exits_returning(prog, fn, "Z"):
            n += 1
            b, missing = cm.find_checks(p, conj, checks)
            ok = b is not None
            if ok:
                # the identity test must look at the encoded result: it follows the encoder's write of q
                e_test = cm.rec_single(p, conj, checks[0])
                encs = [e for e in p.calls(enc) if T.root(e.args[0]) == ("arg", 0)]
                ok = bool(encs) and encs[-1].idx < e_test.idx
                if ok and checks[0][0] == "sodium_is_zero":
                    ok = e_test.args[1] == T.C(32, 64)
            chk.ob("R7.2", fn, "success exit => identity test on the encoded result said 'not identity'", ok,
                   loc=fn.loc(p.end_iid), detail=cm.describe_check(checks[0], fn),
                   path=None if ok else p, key="R7.2 %s" % fn.sname)
    chk.floor("R7.2", "success exits of scalar multiplications", n, 4)

    # ---- R7.3 (E6) -----------------------------------------------------------------------------
    st = None
    for m in prog.modules.values():
        if "struct.ge25519_p3" in m.structs:
            st = m.structs["struct.ge25519_p3"]
            break
    if st is None or len(st["offs"]) < 4:
        raise AnalysisBroken("R7.3: struct ge25519_p3 not found")
    fields = [(st["offs"][i], st["offs"][i + 1]) for i in range(3)]   # X, Y, Z byte ranges
    names = "XYZ"
    rows3 = [
        # (predicate, how to find the tested object, required coordinates)
        ("ge25519_is_on_main_subgroup", ("out_of", "ge25519_mul_l", 0), [0, 1, 2]),
        ("ge25519_has_small_order", ("param", 0), [0, 1, 2]),
        ("ge25519_is_on_curve", ("param", 0), [0, 1, 2]),
    ]
    n = 0
    for name, how, req in rows3:
        fn = need(name)
        for p in cm.paths(prog, fn):
            if p.kind != "ret":
                continue
            after = -1
            if how[0] == "param":
                obj = ("arg", how[1])
            else:
                evs = list(p.calls(how[1]))
                if len(evs) != 1:
                    raise AnalysisBroken("R7.3: %s: expected one call to %s" % (name, how[1]))
                obj = T.root(evs[0].args[how[2]])
                after = evs[0].idx
            rs = deps.return_deps(prog, p, obj, after)
            for c in req:
                n += 1
                lo, hi = fields[c]
                ok = covers(rs, lo, hi)
                chk.ob("R7.3", fn, "return value depends on coordinate %s of the tested point" % names[c], ok,
                       loc=fn.loc(p.end_iid),
                       detail="return value depends on bytes %s of the point (%s = [%d,%d))"
                       % (rs, names[c], lo, hi), path=None if ok else p,
                       key="R7.3 %s ignores-%s" % (fn.sname, names[c]))
    chk.floor("R7.3", "predicate x coordinate obligations", n, 9)
    # byte-string identity predicate: all 32 bytes of the encoding feed the result
    fn = need("_crypto_scalarmult_ed25519_is_inf")
    got = []
    for p in cm.paths(prog, fn):
        if p.kind == "ret":
            got += deps.return_deps(prog, p, ("arg", 0))
    from ..callgraph import _norm_ranges
    got = _norm_ranges(got)
    ok = covers(got, 0, 1) and covers(got, 31, 32) and (covers(got, 0, 32) or any(hi >= 1 << 59 for lo, hi in got))
    chk.ob("R7.3", fn, "identity test reads the first, the last and the middle bytes of the encoding", ok,
           detail="bytes read into the result: %s" % got, key="R7.3 _crypto_scalarmult_ed25519_is_inf coverage")

    # ---- R7.4 ---------------------------------------------------------------------------------
    clearing = []
    for name in ("ge25519_from_uniform", "ge25519_from_hash"):
        fn = need(name)
        clearing.append(fn)
        for p in cm.paths(prog, fn):
            if p.kind != "ret":
                continue
            encs = [e for e in p.calls("ge25519_p3_tobytes") if T.root(e.args[0]) == ("arg", 0)]
            ok = bool(encs)
            why = "no encoding of the result on this path"
            for enc in encs:
                obj = T.root(enc.args[1])
                cl = [e for e in p.calls("ge25519_clear_cofactor") if T.root(e.args[0]) == obj and e.idx < enc.idx]
                if not cl:
                    ok, why = False, "ge25519_p3_tobytes at %s encodes a point that did not pass ge25519_clear_cofactor" % fn.loc(enc.iid)
                    break
                between = [e for e in p.events[cl[-1].idx + 1:enc.idx]
                           if e.kind in ("call", "store") and cm.writes_through(prog, p, e, obj)]
                if between:
                    ok, why = False, "point is modified at %s after cofactor clearing" % fn.loc(between[0].iid)
                    break
            chk.ob("R7.4", fn, "every encoded result passed ge25519_clear_cofactor", ok, loc=fn.loc(p.end_iid),
                   detail="" if ok else why, path=None if ok else p, key="R7.4 %s" % name)
    # who-may-call: the raw Elligator map
    ell = need("ge25519_elligator2")
    callers = [cg.by_key[k] for k in cg.callers().get(ell.key, ())]
    chk.floor("R7.4", "callers of ge25519_elligator2", len(callers), 2)
    for c in callers:
        chk.ob("R7.4-who", c, "caller of the raw Elligator2 map clears the cofactor before encoding",
               c in clearing, detail="ge25519_elligator2 called from %s" % c.sname, key="R7.4-who %s" % c.sname)
    # clear_cofactor itself multiplies by 8: three doublings on the chain from p3 back to p3
    cc = need("ge25519_clear_cofactor")
    for p in cm.paths(prog, cc):
        dbl = [e for e in p.calls() if e.callee_name() in ("ge25519_p3_dbl", "ge25519_p2_dbl")]
        chk.ob("R7.4-x8", cc, "cofactor clearing performs three point doublings", len(dbl) == 3,
               detail="%d doublings" % len(dbl), key="R7.4-x8 ge25519_clear_cofactor")
    # R7.5 exceptional inputs of the birational maps: a zero test that guards a field inversion must look at a
    # quantity depending on everything the inverted denominator depends on ((x+1)*y vanishes when either factor does)
    n75 = 0
    for f in sorted(prog.functions(), key=lambda f: f.name):
        if not f.unit.endswith("ed25519_ref10.c"):
            continue
        names = {i["callee"][1] for i in f.insts if i["op"] == "call" and i["callee"][0] == "g"}
        if not ({"_sodium_fe25519_invert", "fe25519_invert"} & names) or "fe25519_cmov" not in names:
            continue
        for p in cm.paths(prog, f):
            pd = deps.param_deps(prog, p)
            inv = [e for e in p.calls("fe25519_invert")]
            for e in p.calls("fe25519_cmov"):
                cond = e.args[2]
                tested = []
                for l in T.leaves(cond):
                    if l[0] == "call":
                        z = [x for x in p.calls("fe25519_iszero") if x.res == l]
                        tested += z
                if not tested or not inv:
                    continue
                earlier = [x for x in inv if x.idx < e.idx]
                if not earlier:
                    continue
                need_ = set()
                for x in earlier:
                    need_ |= pd.get(T.root(x.args[1]), set())
                have = set()
                for z in tested:
                    have |= pd.get(T.root(z.args[0]), set())
                n75 += 1
                ok = need_ <= have
                chk.ob("R7.5", f, "the zero test selecting the exceptional value depends on every input of the inverted denominator",
                       ok, loc=f.loc(e.iid), detail="denominator depends on parameters %s; tested value on %s" % (
                           sorted(f.params[i]["name"] for i in need_), sorted(f.params[i]["name"] for i in have)),
                       path=None if ok else p, key="R7.5 %s" % f.sname)
    chk.floor("R7.5", "inversion-guarding conditional moves in the ed25519 maps", n75, 1)

    # ---- R7.7 results of the scalar APIs are reduced ----------------------------------------------------------------
    # "equal integer arithmetic modulo the group order": whatever ends up in the output came last from a function that
    # reduces mod L (directly into the output, or into the local buffer that is then copied out) - a raw big-integer
    # add / sub result copied out without the final sc25519_reduce can be L itself or larger.
    REDUCING = {"sc25519_reduce", "sc25519_mul", "sc25519_muladd", "sc25519_invert"}
    SCALAR_APIS = ["crypto_core_ed25519_scalar_negate", "crypto_core_ed25519_scalar_complement", "crypto_core_ed25519_scalar_add",
                   "crypto_core_ed25519_scalar_sub", "crypto_core_ed25519_scalar_mul", "crypto_core_ed25519_scalar_reduce",
                   "crypto_core_ed25519_scalar_invert",
                   "crypto_core_ristretto255_scalar_negate", "crypto_core_ristretto255_scalar_complement",
                   "crypto_core_ristretto255_scalar_add", "crypto_core_ristretto255_scalar_sub", "crypto_core_ristretto255_scalar_mul",
                   "crypto_core_ristretto255_scalar_reduce", "crypto_core_ristretto255_scalar_invert"]
    okset = REDUCING | set(SCALAR_APIS)
    n77 = 0
    OUT = ("arg", 0)
    for name in SCALAR_APIS:
        f = need(name)
        for p in cm.paths(prog, f):
            if p.kind != "ret":
                continue
            lastw = None
            for e in p.events:
                if e.kind in ("store", "call") and cm.writes_through(prog, p, e, OUT):
                    if e.kind == "call" and (e.callee_name() or "") in ("sodium_memzero",):
                        continue
                    lastw = e
            if lastw is None:
                continue
            n77 += 1
            ok, how = False, "last write through the output is %s" % (lastw.callee_name() if lastw.kind == "call" else "a plain store")
            if lastw.kind == "call":
                nm = lastw.callee_name() or ""
                if nm in okset and lastw.args and lastw.args[0] == OUT:
                    ok = True
                elif nm.startswith(("llvm.memcpy", "llvm.memmove", "memcpy", "memmove")) and lastw.args[0] == OUT:
                    src = T.root(lastw.args[1])
                    prev = None
                    for e in p.events[:lastw.idx]:
                        if e.kind in ("store", "call") and cm.writes_through(prog, p, e, src):
                            prev = e
                    pn = prev.callee_name() if prev is not None and prev.kind == "call" else None
                    ok = pn in okset and T.root(prev.args[0]) == src
                    how = "copied from %s whose last writer is %s" % (T.show(src, f), pn or "a plain store")
            chk.ob("R7.7", f, "the output is produced by a function that reduces modulo L", ok, loc=f.loc(lastw.iid), detail=how,
                   path=None if ok else p, key="R7.7 %s" % name)
    chk.floor("R7.7", "returning paths of the scalar arithmetic APIs", n77, 14)

    # ---- R7.10 expand_message_xmd: DST_prime is the same bytes in b_0 and in every b_i ---------------------------------
    # RFC 9380 5.3.1 appends DST_prime to the input of b_0 and of each b_i. In core_h2c_string_to_hash_* that is the group of
    # hash updates with the same (pointer, length) pair occurring at least twice on a path (once for b_0, once per round);
    # the object they read must not be written between the first and the last of them - otherwise later blocks are
    # computed under a different domain-separation tag than b_0.
    n710 = 0
    for name in ("core_h2c_string_to_hash_sha256", "core_h2c_string_to_hash_sha512"):
        f = need(name)
        flagged = set()
        for p in cm.paths(prog, f, backedge_limit=1):
            if p.kind != "ret":
                continue
            groups = {}
            for e in p.calls():
                nm = e.callee_name() or ""
                if nm.endswith("_update") and len(e.args) >= 3:
                    groups.setdefault((e.args[1], e.args[2]), []).append(e)
            for (x, ln), evs in groups.items():
                if len(evs) < 2 or T.root(x)[0] not in ("alloca", "arg"):
                    continue
                r = T.root(x)
                if ln[0] == "c" and ln[1] <= 3:
                    continue            # the one-byte counters / length bytes
                n710 += 1
                bad = [w for w in p.events[evs[0].idx + 1:evs[-1].idx]
                       if w.kind in ("store", "call") and cm.writes_through(prog, p, w, r)]
                ok = not bad
                if ok or (name, r) in flagged:
                    if ok:
                        chk.ob("R7.10", f, "the tag bytes hashed into b_0 and into the later blocks are not modified in between", True,
                               key="R7.10 %s %s" % (name, "ctx" if r[0] == "arg" else "local-dst"))
                    continue
                flagged.add((name, r))
                chk.ob("R7.10", f, "the tag bytes hashed into b_0 and into the later blocks are not modified in between", False,
                       loc=f.loc(bad[0].iid), detail="%s (hashed as DST_prime at %s and again at %s) is overwritten at %s by %s"
                       % (T.show(r, f), f.loc(evs[0].iid), f.loc(evs[-1].iid), f.loc(bad[0].iid),
                          bad[0].callee_name() if bad[0].kind == "call" else "a store"),
                       path=p, key="R7.10 %s oversize-dst-overwritten" % name)
    chk.floor("R7.10", "(path, domain-separation tag) groups in the two expanders", n710, 4)

    # ---- R7.11 the oversize-DST replacement is applied exactly to tags longer than 255 bytes (RFC 9380 5.3.3) -------------
    n711 = 0
    for name in ("core_h2c_string_to_hash_sha256", "core_h2c_string_to_hash_sha512"):
        f = need(name)
        for p in cm.paths(prog, f, backedge_limit=1):
            if p.kind != "ret":
                continue
            sl = [e for e in p.calls("strlen")]
            if not sl:
                continue            # ctx == NULL: length 0
            L = sl[0].res
            over = [e for e in p.calls() if (e.callee_name() or "").endswith("_update") and len(e.args) >= 3
                    and T.root(e.args[1])[0] == "g" and e.args[2] == C(17, 64)]
            iv = p.facts.interval(L) or (0, (1 << 64) - 1)
            n711 += 1
            if over:
                ok = iv[0] >= 256
                what = "the H2C-OVERSIZE-DST- replacement is applied only to contexts longer than 255 bytes"
            else:
                ok = iv[1] <= 255
                what = "contexts hashed verbatim are at most 255 bytes long (their length fits the one length byte)"
            chk.ob("R7.11", f, what, ok, loc=f.loc(p.end_iid), detail="strlen(ctx) in [%d, %s] on this path" % (
                iv[0], "2^64-1" if iv[1] >= (1 << 64) - 1 else iv[1]), path=None if ok else p,
                key="R7.11 %s %s" % (name, "oversize" if over else "verbatim"))
    chk.floor("R7.11", "paths of the expanders with a non-NULL context", n711, 4)

    # ---- R7.8 (E12) carry chains of the field / scalar arithmetic are not cut ---------------------------------
    from .. import knownbits
    knownbits.dead_carry_rule(prog, chk, "R7.8", ("crypto_core/ed25519/", "crypto_scalarmult/curve25519/", "crypto_scalarmult/ed25519/",
                                                  "crypto_scalarmult/ristretto255/"),
                              allowed=[("_sodium_scalarmult_curve25519_sandy2x_fe_frombytes", "sandy2x decoder: h9 = (load_3(s+29) & 0x7fffff) << 2 has 25 bits, so the "
                                        "unsigned `carry9 = h9 >> 25` is zero by construction (the signed ref10 form adds 2^24 first)")],
                              floor=100)

    # ---- R7.9 branch-free selects (cmov / cswap / cneg) choose between the values they mix ------------------------------
    # (no instance floor: on x86-64 fe25519_cmov / cneg are inline assembly, the C spelling of the Ed25519 units only exists in the
    # portable configuration of the thorough tier; natively the instances come from the X25519 ladder's cswap, which C05 / C10 own -
    # a ladder without cswap must not turn this check into analysis-broken)
    knownbits.select_idiom_rule(prog, chk, "R7.9", ("crypto_core/ed25519/", "crypto_scalarmult/"), floor=0)

    # ---- R7.6 (E11) which bits of the encoding the canonical-form predicates look at -------------------------
    # ge25519_is_canonical tests y < p: bit 255 is the sign of x and must not take part (an encoding with the sign
    # bit set and y >= p would otherwise pass), every other bit must be able to influence the verdict.
    # ristretto255_is_canonical additionally rejects bit 255; sc25519_is_canonical compares all 256 bits with L.
    from .. import bitflow, e9
    rows6 = [("ge25519_is_canonical", 0, {(31, 7)}), ("ristretto255_is_canonical", 0, set()), ("sc25519_is_canonical", 0, set()),
             # the decoders: the sign bit selects x, every other bit is part of y (resp. of s)
             ("ge25519_frombytes", 1, set()), ("ge25519_frombytes_negate_vartime", 1, set()), ("ristretto255_frombytes", 1, set())]
    o2 = {}
    n76 = 0
    for name, pidx6, ignored in rows6:
        f = need(name)
        if f.unit not in o2:
            o2[f.unit] = bitflow.BitFlow(e9.O2Unit(ctx, f.unit))
        bf = o2[f.unit]
        if f.name not in bf.unit.fns:
            raise AnalysisBroken("R7.6: %s vanished from the -O2 IR" % name)
        leak, blind = [], []
        for byte in range(32):
            for bit in range(8):
                r = bf.analyse(f.name, pidx6, byte, bit)
                seen = bool(r["ret"] or r["branches"] or r["calls"] or r["stores"])
                n76 += 1
                if (byte, bit) in ignored and seen:
                    leak.append((byte, bit))
                if (byte, bit) not in ignored and not seen:
                    blind.append((byte, bit))
        chk.ob("R7.6", f, "the verdict cannot depend on %s of the encoding" % (sorted(ignored) or "no (ignored) bit"), not leak,
               detail="(byte, bit) %s reach the result" % leak if leak else "", key="R7.6 %s sign-bit" % name)
        chk.ob("R7.6", f, "every other bit of the 32-byte encoding can influence the verdict", not blind,
               detail="(byte, bit) %s never reach the result" % blind[:12] if blind else "", key="R7.6 %s coverage" % name)
    chk.floor("R7.6", "(predicate / decoder, byte, bit) flows analysed", n76, 1536)

    # ---- R7.12 bit 255 of the scalar never reaches the multiplication routines ---------------------------------------------------
    # ge25519_scalarmult / _base require a[31] <= 127 (radix-16 recoding); the noclamp API documents "n mod 2^255". On every path the
    # byte 31 of the working copy handed to them was last written with a value whose bit 7 is known to be zero (stores are chased
    # through reloads of the same address; the clamp helper is inlined).
    MULS = ("ge25519_scalarmult", "ge25519_scalarmult_base")

    def bit7_zero(p, t, before, depth=0):
        if depth > 12:
            return False
        k = t[0]
        if k == "c":
            return not (t[1] & 0x80)
        if k == "cast":
            return bit7_zero(p, t[2], before, depth + 1)
        if k == "bin" and t[1] == "and":
            return bit7_zero(p, t[2], before, depth + 1) or bit7_zero(p, t[3], before, depth + 1)
        if k == "bin" and t[1] in ("or", "xor"):
            return bit7_zero(p, t[2], before, depth + 1) and bit7_zero(p, t[3], before, depth + 1)
        if k == "load":
            ld = [e for e in p.events[:before] if e.kind == "load" and e.res == t]
            if not ld:
                return False
            st = [e for e in p.events[:ld[-1].idx] if e.kind == "store" and e.addr == ld[-1].addr]
            return bool(st) and bit7_zero(p, st[-1].val, st[-1].idx, depth + 1)
        return False
    n712 = 0
    for name in ("_crypto_scalarmult_ed25519", "_crypto_scalarmult_ed25519_base"):
        f = need(name)
        for p in cm.paths(prog, f):
            for e in p.calls(*MULS):
                arr = e.args[1]
                top = T.mk_gep(arr, 31, ()) if hasattr(T, "mk_gep") else ("gep", arr, 31, ())
                st = [w for w in p.events[:e.idx] if w.kind == "store" and w.addr == top and w.size == 1]
                later_bulk = [w for w in p.events[(st[-1].idx + 1 if st else 0):e.idx]
                              if w.kind in ("store", "call") and w is not e and cm.writes_through(prog, p, w, T.root(arr)) and
                              not (w.kind == "store" and T.linear(w.addr)[0] == {T.root(arr): 1})]
                ok = bool(st) and not later_bulk and bit7_zero(p, st[-1].val, st[-1].idx)
                n712 += 1
                chk.ob("R7.12", f, "the scalar handed to %s has bit 255 cleared on this path" % e.callee_name(), ok, loc=f.loc(e.iid),
                       path=None if ok else p, detail="" if ok else "byte 31 of the working copy is not last written with a value whose bit 7 "
                       "is zero: the top radix-16 digit can exceed the table and the product is not (n mod 2^255) * P",
                       key="R7.12 %s top-bit" % name)
    chk.floor("R7.12", "hand-overs of the scalar to the Edwards multiplication routines", n712, 4)

    # ---- R7.13 expand_message_xmd keeps b_0: every block is H(b_0 xor b_(i-1) || i || DST') with the *same* b_0 ---------------------
    # (RFC 9380 5.3.1). b_0 is the buffer the last *_final before the block loop writes; nothing inside the loop may write it.
    from ..loopinv import natural_loops
    n713 = 0
    for name in ("core_h2c_string_to_hash_sha256", "core_h2c_string_to_hash_sha512"):
        f = prog.need(name, rule="R7.13")
        loops = natural_loops(f)
        inloop = set()
        for body in loops.values():
            inloop |= body

        def aroot(o, f=f):
            for _ in range(32):
                if o[0] != "v":
                    return None
                d = f.insts[o[1]]
                if d["op"] == "alloca":
                    return o[1]
                if d["op"] in ("getelementptr", "bitcast"):
                    o = d["ops"][0]
                else:
                    return None
            return None

        def cname(ins):
            c = ins.get("callee")
            return c[1] if c and c[0] == "g" else ""
        finals = [(i, ins) for i, ins in enumerate(f.insts) if ins["op"] == "call" and re.match(r"crypto_hash_sha\d+_final$", cname(ins))]
        pre = [(i, ins) for i, ins in finals if ins["b"] not in inloop]
        if not pre or len(finals) == len(pre):
            raise AnalysisBroken("R7.13: %s: expected a *_final before the block loop and one inside it" % name)
        b0 = aroot(pre[-1][1]["ops"][1])
        if b0 is None:
            raise AnalysisBroken("R7.13: %s: the b_0 buffer is not a local array" % name)
        bad = None
        for i, ins in enumerate(f.insts):
            if ins["b"] not in inloop:
                continue
            if ins["op"] == "store" and aroot(ins["ops"][1]) == b0:
                bad = (i, "stored to")
            elif ins["op"] == "call":
                nm = cname(ins)
                if nm.startswith(("llvm.lifetime", "llvm.dbg")):
                    continue
                for k, o in enumerate(ins.get("ops", [])):
                    if aroot(o) != b0:
                        continue
                    reader = (re.match(r"crypto_hash_sha\d+_update$", nm) and k == 1) or \
                             (nm.startswith(("llvm.memcpy", "llvm.memmove", "memcpy", "memmove")) and k == 1)
                    if not reader:
                        bad = (i, "handed to %s as a destination" % (nm or "an indirect call"))
            if bad:
                break
        n713 += 1
        chk.ob("R7.13", f, "b_0 (written by the *_final at %s) is not modified inside the block loop" % f.loc(pre[-1][0]), bad is None,
               loc=f.loc(bad[0]) if bad else f.loc(pre[-1][0]), detail="" if bad is None else "the b_0 buffer is %s at %s inside the loop: from "
               "the second block on the chaining value is xored with a modified b_0, so outputs longer than one hash block differ from "
               "RFC 9380" % (bad[1], f.loc(bad[0])), key="R7.13 %s b0" % name)
    chk.floor("R7.13", "expand_message_xmd implementations", n713, 2)

    # ---- R7.15 the scalar API (mul, reduce and everything built on them) encodes fully carried limbs (same engine as C06's R6.6) ----
    knownbits.reduced_limb_rule(prog, chk, "R7.15", ("sc25519_mul", "sc25519_reduce"), floor=22)
    # ---- R7.14 Ristretto decoding rejects on the coordinates RFC 9496 4.3.1 names: "t is negative" and "y == 0" -----------------------
    # (the third condition, was_square, is the result of ristretto255_sqrt_ratio_m1; canonicity is R7.6). The predicates are applied
    # to fields of the decoded point: which field each one looks at is read from the getelementptr on ge25519_p3 (X, Y, Z, T = 0..3).
    rf = prog.need("ristretto255_frombytes", rule="R7.14")
    SPEC = {"fe25519_isnegative": (3, "T"), "fe25519_iszero": (1, "Y")}
    n714 = 0
    for i, ins in enumerate(rf.insts):
        c = ins.get("callee")
        if ins["op"] != "call" or not c or c[0] != "g" or c[1] not in SPEC:
            continue
        o = ins["ops"][0]
        field = None
        for _ in range(8):
            if o[0] != "v":
                break
            d = rf.insts[o[1]]
            if d["op"] == "getelementptr" and d.get("sty") == "%struct.ge25519_p3" and d["ops"][0] == ["a", 0] and d.get("idx") and len(d["idx"]) >= 2:
                field = d["idx"][1]
                break
            if d["op"] in ("getelementptr", "bitcast"):
                o = d["ops"][0]
            else:
                break
        if field is None:
            continue                       # applied to a temporary: not judged
        n714 += 1
        want = SPEC[c[1]]
        chk.ob("R7.14", rf, "%s is applied to h->%s (RFC 9496 4.3.1)" % (c[1], want[1]), field == want[0], loc=rf.loc(i),
               detail="" if field == want[0] else "applied to h->%s: the decoder rejects / accepts a different set of encodings than the RFC "
               "(e.g. t == 0 also holds for the identity, whose encoding 00..00 is valid)" % "XYZT"[field], key="R7.14 %s field" % c[1])
    chk.floor("R7.14", "coordinate predicates in ristretto255_frombytes", n714, 2)

    # public generators write their output only through cofactor-clearing maps or validated addition
    okw = {f.key for f in clearing} | {need("crypto_core_ed25519_add").key}
    pubs = ["crypto_core_ed25519_from_uniform", "crypto_core_ed25519_from_string",
            "crypto_core_ed25519_from_string_ro", "crypto_core_ed25519_random"]
    memo = {}

    def clean_writer(fn, depth=0):
        if fn.key in okw:
            return True, ""
        if fn.key in memo:
            return memo[fn.key]
        memo[fn.key] = (True, "")
        res = (True, "")
        for p in cm.paths(prog, fn):
            for e in p.events:
                if e.kind == "store" and T.root(e.addr) == ("arg", 0):
                    res = (False, "direct store to the output at %s" % fn.loc(e.iid))
                elif e.kind == "call" and cm.writes_through(prog, p, e, ("arg", 0)):
                    tg, complete = cm.resolved_targets(prog, fn, e)
                    if not tg or not complete:
                        res = (False, "output written by unresolved call at %s" % fn.loc(e.iid))
                    for t in tg:
                        ai = [i for i, a in enumerate(e.args) if T.root(a) == ("arg", 0)]
                        if ai != [0]:
                            res = (False, "output passed in an unexpected position at %s" % fn.loc(e.iid))
                            continue
                        r = clean_writer(t, depth + 1)
                        if not r[0]:
                            res = (False, "via %s: %s" % (t.sname, r[1]))
            if not res[0]:
                break
        memo[fn.key] = res
        return res
    for name in pubs:
        fn = need(name)
        ok, why = clean_writer(fn)
        chk.ob("R7.4-pub", fn, "output point is produced only by cofactor-clearing maps / validated addition", ok,
               detail=why, key="R7.4-pub %s" % name)
