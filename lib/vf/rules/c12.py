"""C12 — memory safety for in-contract calls: the clauses visible in the code's shape.

Decided clauses:
  R12.1 over-limit refusal: for every public function of a family with a documented
        *_MESSAGEBYTES_MAX, a message/ciphertext length above the limit cannot reach a successful
        return: on every succeeding path the length's interval (from branch facts, propagated
        backwards through +c, -c, /k) is within the limit, or the length is handed — unchanged or
        minus a constant — to a callee for which the same was shown (all dispatch targets).
        Limits within 4 KiB of SIZE_MAX are unreachable on this ABI and recorded as such.
  R12.2 alignment contract (E5): no aligned (> 1 byte) vector load/store goes through a pointer
        derived from a byte-pointer parameter of a public function.
  R12.3 capacity-dominated decoder accesses (shared with C15 R15.0).
  R12.4 minimum-length guards (E1 intervals + fixed-extent read summaries): wherever a function
        with a (buffer, length) parameter pair reads a constant extent of the buffer - a load at a
        constant offset, or a call handing buffer + k to a callee that reads a fixed number of bytes
        (fixed-size key/nonce/tag parameters, or an explicit constant length argument) - the branch
        facts on the path establish length >= that extent; when the rest (buffer + k, length - d) is
        passed on, the subtraction cannot wrap (length >= d) and stays inside (k <= d).
  R12.6 allocation requests driven by (attacker-chosen) cost parameters fail closed: the allocation typestate
        rules of C20 (tested before use, failing arm only reaches failing exits, released once) over everything
        reachable from the password-hashing and guarded-allocation APIs, reported as R12.6/R20.x.
  R12.5 no definite tail over-read: a fixed-size read at buffer + (length - r) - r being the remainder a
        word loop leaves, bounded by the branch facts - needs at least that many bytes to remain.
  R12.7 optional (nullable) pointer parameters: when a public function - with its small static helpers inlined - compares a
        pointer parameter with NULL anywhere, the parameter is optional by the function's own account; every access through it
        (load, store, memset / memcpy / memmove / sodium_memzero) must then sit on a path whose branch facts say it is not NULL.
        An access that comes before the test, or on the arm where the pointer is NULL, is a write / read through NULL for an
        in-contract call (tag-only verification with m == NULL, optional length out-parameters).
  R12.8 blockwise output writes stay inside what the code's own guards leave: a write through a pointer parameter at an offset that
        depends on a loop variable (`out + 32 * i`), on a path that holds a guard relating that offset to a length parameter
        (`32 * i < outlen`: the code's belief about the capacity), must fit the remainder the path facts establish - a constant
        extent E (store, memcpy / memset with a constant length, a callee that writes a fixed number of bytes - from its stores,
        or from the public *_BYTES constant of its documented output) needs remainder >= E; a variable extent must be the
        remainder itself or be bounded by it through a branch fact (linear arithmetic over the path terms, no wrap-around).
  R12.9 siblings agree on which pointers may be NULL: when one function hands the same argument list to several callees (a dispatcher
        over hash algorithms / variants), and one of those callees compares pointer parameter k with NULL, every other one does too
        (the SHA-256 twin of a hash-to-curve helper calling strlen(ctx) where the SHA-512 twin accepts ctx == NULL).
NOT decided: absence of out-of-bounds / undefined behaviour in general (needs a relational numeric
domain over loop indices; goto-analyzer was tried and is unusable — DESIGN §7).
"""
import re

from .. import terms as T
from ..build import AnalysisBroken
from ..terms import C
from . import common as cm
from . import c15

M64 = (1 << 64) - 1
SKIP_PARAMS = {"adlen", "ad_len", "ad_len_", "ic", "subkey_id"}


class Bounded:
    def __init__(self, prog, limit, slack):
        self.prog = prog
        self.limit = limit
        self.slack = slack
        self.memo = {}

    def ok(self, fn, i, kind, bind=()):
        key = (fn.key, i, kind, tuple(bind))
        if key in self.memo:
            return self.memo[key]
        self.memo[key] = (True, "recursion")
        r = self._ok(fn, i, kind, bind)
        self.memo[key] = r
        return r

    def _ok(self, fn, i, kind, bind):
        prog = self.prog
        try:
            ps = cm.paths(prog, fn, assume=list(bind))
        except AnalysisBroken as e:
            return (False, "%s: %s" % (fn.sname, e), None)
        P = ("arg", i)
        for p in ps:
            if p.kind != "ret":
                continue
            if kind == "Z" and not p.may_return_zero():
                continue
            if kind == "NZ" and not p.may_return_nonzero():
                continue
            iv = p.facts.interval(P) or (0, M64)
            if iv[1] <= self.limit + self.slack:
                continue
            if fn.params and fn.params[0]["ty"] == "i8*" and p.facts.zeroness(("arg", 0)) == "Z" and \
                    not any(e.kind in ("store", "call") and cm.writes_through(self.prog, p, e, ("arg", 0)) for e in p.events):
                continue        # verification-only mode (output pointer NULL): nothing is produced
            good = False
            for e in p.calls():
                tg, complete = cm.resolved_targets(prog, fn, e)
                if not tg or not complete:
                    continue
                for j, a in enumerate(e.args):
                    co, k = T.linear(a)
                    if co != {P: 1} or not (-64 <= k <= 0):
                        continue
                    z = p.facts.zeroness(e.res) if e.res is not None else None
                    if kind == "Z" and e.res is not None and e.res == p.ret:
                        z = "Z"
                    ck = {"Z": "Z", "NZ": "NZ"}.get(z, "any")
                    if all(self.ok(t, j, ck if t.ret != "void" else "any", cm.const_bindings(e, t))[0] for t in tg):
                        good = True
                        break
                if good:
                    break
            if not good:
                return (False, "%s can succeed with %s up to %d (limit %d)" % (fn.sname, fn.params[i]["name"], iv[1], self.limit), p)
        return (True, "")


ALSO_PORTABLE = True


def run(ctx, chk):
    prog = ctx.prog()
    cg = prog.callgraph()
    chk.configs.append("native -O0+mem2reg")
    chk.explanation = ("E1 interval facts with backward refinement and call-graph delegation for the documented message-length limits "
                       "(R12.1); E5 scan of every aligned vector access for a derivation from a public byte-pointer parameter (R12.2); "
                       "the decoder capacity rules of C15 (R12.3).")
    chk.not_decided = ("general absence of out-of-bounds accesses and arithmetic undefined behaviour (vector tails, limb overflow, parser "
                       "reads) is not decided; only the limit-refusal, alignment-contract and decoder-capacity clauses are.")
    K = prog.consts
    fams = sorted([n[:-len("_MESSAGEBYTES_MAX")] for n in K if n.endswith("_MESSAGEBYTES_MAX") and not re.search(r"_IETF_", n)],
                  key=len, reverse=True)
    n = ntriv = 0
    for f in sorted(prog.functions(), key=lambda f: f.name):
        if not f.public:
            continue
        fam = next((p for p in fams if f.name.startswith(p + "_")), None)
        if not fam:
            continue
        lim = K[fam + "_MESSAGEBYTES_MAX"]
        for i, prm in enumerate(f.params):
            if prm["ty"] != "i64" or prm["name"] in SKIP_PARAMS:
                continue
            if lim >= M64 - 4096:
                ntriv += 1
                continue
            n += 1
            abytes = max([v for k, v in K.items() if k.startswith(fam + "_") and k.endswith(("_ABYTES", "_MACBYTES"))] + [0])
            b = Bounded(prog, lim, abytes)
            kind = "Z" if f.ret == "i32" else "any"
            r = b.ok(f, i, kind)
            chk.ob("R12.1", f, "%s above %s_MESSAGEBYTES_MAX (%d%s) cannot reach a successful return" % (
                prm["name"], fam, lim, " + %d for the tag" % abytes if abytes else ""), r[0], detail=r[1],
                path=r[2] if len(r) > 2 else None, key="R12.1 %s %s" % (f.sname, prm["name"]))
    chk.floor("R12.1", "(public function, length parameter) pairs with a reachable documented limit", n, 20)
    chk.analysed["R12.1: pairs whose limit is within 4 KiB of SIZE_MAX (unreachable on this ABI, not checked)"] = ntriv

    # ---- R12.2 (E5) ------------------------------------------------------------------------------------
    nacc = nvec = nunk = 0
    for f in prog.functions():
        for iid, ins in enumerate(f.insts):
            if ins["op"] not in ("load", "store") or ins.get("align", 1) <= 8:
                continue
            nvec += 1
            ptr = ins["ops"][0] if ins["op"] == "load" else ins["ops"][1]
            roots, stride, unknown = chase_all(f, ptr)
            if unknown and not roots:
                nunk += 1
                continue
            for root, off in roots:
                if root[0] == "alloca":
                    al = f.insts[root[1]].get("align", 1)
                    ok = aligned_ok(al, off, stride, ins["align"])
                    nacc += 1
                    chk.ob("R12.2", f, "aligned(%d) access to a local: the local is at least that aligned and the offset a multiple" % ins["align"],
                           ok, loc=f.loc(iid), detail="local align %s, offset %s, stride %s" % (al, off, stride), key="R12.2 %s local-%d" % (f.sname, iid))
                elif root[0] == "g":
                    gd = prog.global_def(f, root[1])
                    al = gd[1]["align"] if gd else 1
                    ok = aligned_ok(al, off, stride, ins["align"])
                    nacc += 1
                    chk.ob("R12.2", f, "aligned(%d) access to global %s" % (ins["align"], root[1]), ok, loc=f.loc(iid),
                           detail="global align %s, offset %s" % (al, off), key="R12.2 %s global-%s" % (f.sname, root[1]))
                elif root[0] == "a":
                    prm = f.params[root[1]]
                    nacc += 1
                    declared = prm.get("align", 1)
                    if prm["ty"] == "i8*" and declared < ins["align"]:
                        # a byte pointer promises nothing: who calls this function with what?
                        ok = not f.public and callers_aligned(prog, cg, f, root[1], ins["align"], off, stride)
                        chk.ob("R12.2", f, "aligned(%d) access through byte-pointer parameter %s is backed by every caller" % (ins["align"], prm["name"]),
                               ok, loc=f.loc(iid), key="R12.2 %s param-%s" % (f.sname, prm["name"]))
                    else:
                        # typed pointer (state struct, vector type): the ABI alignment of the pointee type is the contract
                        chk.ob("R12.2", f, "aligned(%d) access through typed parameter %s (%s)" % (ins["align"], prm["name"], prm["ty"][:40]), True,
                               loc=f.loc(iid), key="R12.2 %s typed-%s" % (f.sname, prm["name"]))
    chk.floor("R12.2", "vector-aligned (>= 16) accesses in the library", nvec, 20)
    chk.analysed["R12.2: aligned accesses with a resolved root"] = nacc
    chk.analysed["R12.2: aligned accesses whose pointer comes from a load/call result (heap or state-internal pointers; not decided)"] = nunk

    # ---- R12.3 ------------------------------------------------------------------------------------------
    c15.decoder_rules(prog, chk, rule_prefix="R12.3")
    # ---- R12.4 ------------------------------------------------------------------------------------------
    min_length_rule(prog, chk)
    # ---- R12.6 ------------------------------------------------------------------------------------------
    # "sizes that cannot be served are refused with an error return": a cost parameter taken from an attacker-chosen hash
    # string reaches the allocators of the password-hashing cores; the allocation typestate of C20 (result tested before
    # use, failing arm only reaches failing exits, no use after release) is therefore also a clause of C12. Same engine,
    # reported under R12.6.
    from . import c20

    class _Renamed:
        def __init__(self, inner):
            self._c = inner

        def ob(self, rule, *a, **kw):
            if "key" in kw and kw["key"]:
                kw["key"] = "R12.6/" + kw["key"]
            return self._c.ob("R12.6/" + rule, *a, **kw)

        def floor(self, rule, *a, **kw):
            return self._c.floor("R12.6/" + rule, *a, **kw)

        def __getattr__(self, n):
            return getattr(self._c, n)
    c20.analyse(prog, _Renamed(chk), "native")
    null_rule(prog, chk)
    block_write_rule(prog, chk)
    sibling_null_rule(prog, chk)
    # R12.12 a (pointer, capacity) pair handed to the Argon2 string decoder never promises more room than the object has: in
    # _needs_rehash every store of a capacity next to a buffer pointer in the argon2_context is the size the buffer was allocated
    # with (the same term for calloc, or a constant not above the size of a local array)
    n1212 = 0
    for nr in [g for g in prog.functions() if not g.decl and g.sname == "_needs_rehash" and "crypto_pwhash/argon2/" in g.unit]:
        szof = {i: ins.get("size") for i, ins in enumerate(nr.insts) if ins["op"] == "alloca"}
        for p in cm.paths(prog, nr):
            if p.kind != "ret":
                continue
            st = [e for e in p.events if e.kind == "store"]
            ptrs = {e.addr: e for e in st if e.size == 8 and (e.val[0] == "alloca" or (e.val[0] == "call"))}
            for a, e in ptrs.items():
                base, off = (a, 0) if a[0] == "alloca" else ((a[1], a[2]) if a[0] == "gep" and not a[3] else (None, None))
                if base is None or base[0] != "alloca":
                    continue
                cap = [x for x in st if x.addr == ("gep", base, off + 8, ()) and x.size == 4]
                if not cap:
                    continue
                n1212 += 1
                L = cap[-1].val
                if L[0] == "cast":
                    L = L[2]
                V = e.val
                ok, how = False, "?"
                if V[0] == "alloca":
                    size = szof.get(V[1])
                    how = "a local array of %s bytes" % size
                    ok = size is not None and ((L[0] == "c" and L[1] <= size) or
                                               p.facts.truth(("icmp", "ule", L, C(size, 64))) is True)
                elif V[0] == "call":
                    al = [c for c in p.calls("calloc", "malloc") if c.res == V]
                    if al:
                        how = "%s(%s)" % (al[0].callee_name(), ", ".join(T.show(x, nr) for x in al[0].args))
                        ok = L in al[0].args
                    else:
                        continue
                chk.ob("R12.12", nr, "the capacity stored next to the buffer pointer at context offset %d is covered by the buffer" % off, ok,
                       loc=nr.loc(cap[-1].iid), detail="" if ok else "the buffer is %s, the capacity is %s: the decoder may write past the buffer "
                       "for a hash string with a long salt / hash field" % (how, T.show(L, nr)), path=None if ok else p,
                       key="R12.12 %s capacity@%d" % (nr.unit.split("/")[-1], off))
    chk.floor("R12.12", "(buffer, capacity) pairs set up for the Argon2 string decoder", n1212, 3)
    # R12.11 the four Argon2 backends fill the pseudo_rands array (malloc'ed with segment_length entries by argon2_initialize) with the
    # same index discipline: the scalar control skeletons of their generate_addresses() helpers agree (E7). A backend that stores
    # whole 128-entry address blocks writes up to 1016 bytes past the array whenever segment_length is not a multiple of 128.
    cm.sibling_skeleton_rule(prog, chk, "R12.11", [("generate_addresses", "argon2-fill-block-ref"), ("generate_addresses", "argon2-fill-block-ssse3"),
                                                    ("generate_addresses", "argon2-fill-block-avx2"), ("generate_addresses", "argon2-fill-block-avx512f")],
                             {0: "INST", 1: "POS", 2: "RANDS"}, ("llvm.memcpy.p0i8.p0i8.i64", "memcpy"), floor_shapes=4)
    # R12.10 the assembly fast paths of the big-number helpers touch exactly the `len` bytes their guard established (C14's R14.8
    # engine, extent part): a 64-bit limb on the last 4 bytes of a 12-byte nonce reads and writes 4 bytes past it
    from . import c14
    if not chk.relaxed:
        c14.asm_limb_rule(prog, chk, "R12.10", parts=("extent",))


DEREF_FILL = ("memset", "llvm.memset", "sodium_memzero")
DEREF_COPY = ("memcpy", "memmove", "llvm.memcpy", "llvm.memmove")


def null_tested_params(fn):
    out = set()
    for ins in fn.insts:
        if ins["op"] == "icmp" and ins.get("pred") in ("eq", "ne"):
            a, b = ins["ops"]
            for x, y in ((a, b), (b, a)):
                if x[0] == "a" and fn.params[x[1]]["ty"].endswith("*") and (y[0] == "null" or (y[0] == "i" and y[1] == 0)):
                    out.add(x[1])
    return out


def null_rule(prog, chk):
    """R12.7: no access through an optional pointer parameter unless the path knows it is not NULL"""
    from .. import inline
    n = nf = 0
    skipped = []
    for fn in sorted(prog.functions(), key=lambda f: (f.unit, f.name)):
        if not fn.public or len(fn.insts) > 2500:
            continue
        twin = inline.inlined(prog, fn, keep=cm.rule_named_functions()) if cm.os.environ.get("VERIF_INLINE", "1") == "1" else fn
        tested = null_tested_params(twin)
        if not tested:
            continue
        try:
            ps = cm.paths(prog, fn, max_paths=3000)
        except AnalysisBroken:
            skipped.append(fn.sname)       # path budget: function not judged (named in the evidence)
            continue
        nf += 1
        seen = set()
        for p in ps:
            for e in p.events:
                roots = []
                if e.kind in ("load", "store"):
                    roots.append(T.root(e.addr))
                elif e.kind == "call":
                    nm = e.callee_name() or ""
                    if nm.startswith(DEREF_FILL):
                        roots += [T.root(a) for a in e.args[:1] if isinstance(a, tuple)]
                    elif nm.startswith(DEREF_COPY):
                        roots += [T.root(a) for a in e.args[:2] if isinstance(a, tuple)]
                for r in roots:
                    if r[0] != "arg" or r[1] not in tested:
                        continue
                    n += 1
                    z = p.facts_before(e.idx).zeroness(r)
                    ok = z == "NZ"
                    if not ok and (e.iid, r) in seen:
                        continue
                    if not ok:
                        seen.add((e.iid, r))
                    pn = fn.params[r[1]]["name"]
                    chk.ob("R12.7", fn, "accesses through the optional pointer parameter are dominated by a non-NULL fact", ok,
                           loc=fn.loc(e.iid), path=None if ok else p,
                           detail="" if ok else "%s is compared with NULL in %s, but the %s at %s goes through it %s" %
                           (pn, fn.sname, (e.callee_name() or "call") if e.kind == "call" else e.kind, fn.loc(e.iid),
                            "on the arm where it IS NULL" if z == "Z" else "before / without the test: a caller using the NULL form "
                            "of the contract faults here"), key="R12.7 %s %s" % (fn.sname, pn))
    if skipped and not chk.relaxed:
        chk.note("R12.7 does not judge (path budget): %s" % ", ".join(sorted(skipped)))
    chk.floor("R12.7", "public functions with an optional pointer parameter", nf, 20)
    chk.floor("R12.7", "accesses through optional pointer parameters", n, 150)


def chase_all(f, o):
    """all (root, offset, stride) a pointer operand may derive from (phis / selects followed;
    a loop-carried pointer p = phi(init, p + k) contributes k to the stride)."""
    from math import gcd
    roots = []
    strides = [0]
    unknown = [False]

    def walk(o, off, visiting, depth):
        while depth < 60:
            depth += 1
            if o[0] == "a":
                roots.append((("a", o[1]), off))
                return
            if o[0] == "g":
                roots.append((("g", o[1]), off))
                return
            if o[0] == "ce":
                if o[1] == "getelementptr":
                    off += o[3].get("off", 0)
                    for _i, sc in o[3].get("var", []):
                        strides[0] = gcd(strides[0], sc)
                    o = o[2][0]
                    continue
                if o[1] == "bitcast":
                    o = o[2][0]
                    continue
                unknown[0] = True
                return
            if o[0] != "v":
                unknown[0] = True
                return
            d = f.insts[o[1]]
            op = d["op"]
            if op == "alloca":
                roots.append((("alloca", o[1]), off))
                return
            if op in ("bitcast", "freeze"):
                o = d["ops"][0]
                continue
            if op == "getelementptr":
                off += d["off"]
                for _i, sc in d["var"]:
                    strides[0] = gcd(strides[0], sc)
                o = d["ops"][0]
                continue
            if op in ("phi", "select"):
                if o[1] in visiting:
                    strides[0] = gcd(strides[0], abs(off - visiting[o[1]]))
                    return
                v2 = dict(visiting)
                v2[o[1]] = off
                vals = [v for v, _b in d["inc"]] if op == "phi" else d["ops"][1:]
                for v in vals:
                    walk(v, off, v2, depth)
                return
            unknown[0] = True
            return
        unknown[0] = True

    walk(o, 0, {}, 0)
    return roots, strides[0], unknown[0]


def chase(f, o, depth=0):
    roots, stride, unknown = chase_all(f, o)
    if len(roots) == 1 and not unknown:
        return roots[0][0], roots[0][1], stride
    return None, None, 0


def length_pairs(fn):
    """pointer parameter index -> index of the parameter holding its length (by the library's naming: X / Xlen, X_len)"""
    names = {p["name"]: i for i, p in enumerate(fn.params)}
    out = {}
    for nm, i in names.items():
        if not fn.params[i]["ty"].endswith("*"):
            continue
        for suf in ("len", "_len"):
            j = names.get(nm + suf)
            if j is not None and fn.params[j]["ty"] in ("i64", "i32"):
                out[i] = j
    return out


class FixedExtent:
    """number of leading bytes a function reads, on every returning path, through a pointer parameter that has no
    length parameter of its own (fixed-size keys, nonces, tags, ...): loads at constant offsets, memcpy/memmove
    sources with a constant length, and calls passing the pointer on (+ constant) to a callee with a constant length
    argument or with its own fixed extent. The minimum over paths is taken, so reads that happen only under a
    condition (e.g. on another length parameter) do not count. None when nothing is known."""

    def __init__(self, prog, kind="read"):
        self.prog = prog
        self.memo = {}
        self.kind = kind     # "read": leading bytes definitely read; "write": leading bytes definitely written

    def of(self, fn, j, depth=0):
        key = (fn.key, j)
        if key in self.memo:
            return self.memo[key]
        self.memo[key] = None
        if fn.decl or depth > 8:
            return None
        try:
            ps = cm.paths(self.prog, fn)
        except AnalysisBroken:
            return None
        root = ("arg", j)
        least = None
        for p in ps:
            if p.kind != "ret":
                continue
            best = 0
            for e in p.events:
                if e.kind == ("load" if self.kind == "read" else "store"):
                    if T.root(e.addr) == root:
                        co, k = T.linear(e.addr)
                        if set(co) == {root} and co[root] == 1 and k >= 0:
                            best = max(best, k + e.size)
                elif e.kind == "call":
                    name = e.callee_name() or ""
                    if e.callee[0] == "ext" and (name.startswith("llvm.memcpy") or name.startswith("llvm.memmove") or name in ("memcpy", "memmove")):
                        ai = 1 if self.kind == "read" else 0
                        if len(e.args) >= 3 and T.root(e.args[ai]) == root and e.args[2][0] == "c":
                            co, k = T.linear(e.args[ai])
                            if set(co) == {root} and k >= 0:
                                best = max(best, k + e.args[2][1])
                        continue
                    if e.callee[0] == "ext" and self.kind == "write" and (name.startswith("llvm.memset") or name == "memset"):
                        if len(e.args) >= 3 and T.root(e.args[0]) == root and e.args[2][0] == "c":
                            co, k = T.linear(e.args[0])
                            if set(co) == {root} and k >= 0:
                                best = max(best, k + e.args[2][1])
                        continue
                    if e.callee[0] != "fn":
                        continue
                    g = e.callee[1]
                    gp = length_pairs(g)
                    for k, a in enumerate(e.args):
                        if k >= len(g.params) or T.root(a) != root:
                            continue
                        co, off = T.linear(a)
                        if not (set(co) == {root} and co[root] == 1 and off >= 0):
                            continue
                        if k in gp and gp[k] < len(e.args):
                            ln = e.args[gp[k]]
                            if ln[0] == "c":
                                best = max(best, off + ln[1])
                        else:
                            ex = self.of(g, k, depth + 1)
                            if ex:
                                best = max(best, off + ex)
            least = best if least is None else min(least, best)
        self.memo[key] = least or None
        return self.memo[key]


def min_length_rule(prog, chk):
    fx = FixedExtent(prog)
    nob = nfn = 0
    for fn in sorted(prog.functions(), key=lambda f: (f.unit, f.name)):
        if fn.decl:
            continue
        pr = length_pairs(fn)
        if not pr:
            continue
        try:
            ps = cm.paths(prog, fn)
        except AnalysisBroken:
            continue
        had = False
        seen = set()
        for p in ps:
            for e in p.events:
                reqs = []      # (pointer param, required extent, what)
                if e.kind == "load":
                    r = T.root(e.addr)
                    if r[0] == "arg" and r[1] in pr:
                        co, k = T.linear(e.addr)
                        if set(co) == {r} and co[r] == 1 and k >= 0:
                            reqs.append((r[1], k + e.size, None, "load of %d byte(s) at offset %d" % (e.size, k)))
                elif e.kind == "call" and e.callee[0] == "fn":
                    g = e.callee[1]
                    gp = length_pairs(g)
                    for k, a in enumerate(e.args):
                        if k >= len(g.params):
                            continue
                        r = T.root(a)
                        if not (r[0] == "arg" and r[1] in pr):
                            continue
                        co, off = T.linear(a)
                        if not (set(co) == {r} and co[r] == 1 and off >= 0):
                            continue
                        LEN = ("arg", pr[r[1]])
                        if k in gp and gp[k] < len(e.args):
                            L = e.args[gp[k]]
                            lco, lk = T.linear(L)
                            if not lco:
                                reqs.append((r[1], off + lk, None, "%s reads %d byte(s) from offset %d" % (g.sname, lk, off)))
                            elif lco == {LEN: 1}:
                                # (buffer + off, length + lk): inside iff off + lk <= 0 and the subtraction cannot wrap
                                reqs.append((r[1], -lk, off + lk <= 0, "%s is handed (buffer + %d, length - %d)" % (g.sname, off, -lk)))
                        else:
                            ex = fx.of(g, k)
                            if ex is not None:
                                reqs.append((r[1], off + ex, None, "%s reads a fixed %d byte(s) from offset %d" % (g.sname, ex, off)))
                for pi, need, inside, what in reqs:
                    if need <= 0 and inside is not False:
                        continue
                    key = (e.iid, pi, need)
                    LEN = ("arg", pr[pi])
                    iv = p.facts_before(e.idx).interval(LEN) or (0, M64)
                    ok = iv[0] >= need and inside is not False
                    had = True
                    if ok and key in seen:
                        continue
                    seen.add(key)
                    nob += 1
                    chk.ob("R12.4", fn, "%s >= %d is established before %s" % (fn.params[pr[pi]]["name"], need, what), ok,
                           loc=fn.loc(e.iid), detail="" if ok else "branch facts give %s in [%d, %s]%s" % (
                               fn.params[pr[pi]]["name"], iv[0], "2^64-1" if iv[1] >= M64 else iv[1],
                               "; the part handed on extends past the end" if inside is False else ""),
                           path=None if ok else p, key="R12.4 %s %s" % (fn.sname, fn.params[pi]["name"]))
        if had:
            nfn += 1
    chk.floor("R12.4", "functions with a fixed-extent read of a length-paired buffer", nfn, 5)
    chk.floor("R12.4", "minimum-length obligations", nob, 8)

    # ---- R12.5 definite over-read at the tail ---------------------------------------------------------------------
    # A read of a fixed number of bytes at buffer + (length - r), where the branch facts bound r below that number
    # (r = length % 8 after a word loop, r = length & 15, ...), reads past the end whenever it executes.
    ntail = 0
    for fn in sorted(prog.functions(), key=lambda f: (f.unit, f.name)):
        if fn.decl:
            continue
        pr = length_pairs(fn)
        if not pr:
            continue
        try:
            ps = cm.paths(prog, fn)
        except AnalysisBroken:
            continue
        flagged = set()
        for p in ps:
            for e in p.events:
                reads = []          # (address term, extent, what)
                if e.kind == "load":
                    reads.append((e.addr, e.size, "load of %d byte(s)" % e.size))
                elif e.kind == "call" and e.callee[0] == "fn":
                    g = e.callee[1]
                    gp = length_pairs(g)
                    for k, a in enumerate(e.args):
                        if k < len(g.params) and k not in gp and g.params[k]["ty"].endswith("*"):
                            ex = fx.of(g, k)
                            if ex:
                                reads.append((a, ex, "%s reads a fixed %d byte(s)" % (g.sname, ex)))
                for a, ext, what in reads:
                    co, k = T.linear(a)
                    fb = None
                    # a loop-carried pointer that the exit test equates with an end pointer
                    for atom in list(co):
                        if atom[0] == "havoc" and co[atom] == 1:
                            fb = fb or p.facts_before(e.idx)
                            for t, v in fb.items:
                                if t[0] == "icmp" and t[1] == "eq" and v and atom in (t[2], t[3]):
                                    other = t[3] if t[2] == atom else t[2]
                                    oc, ok_ = T.linear(other)
                                    co = dict(co)
                                    del co[atom]
                                    for x, n in oc.items():
                                        co[x] = co.get(x, 0) + n
                                    k += ok_
                                    break
                    roots = [x for x in co if x[0] == "arg" and x[1] in pr and co[x] == 1]
                    if len(roots) != 1:
                        continue
                    P = roots[0]
                    LEN = ("arg", pr[P[1]])
                    rest = {x: n for x, n in co.items() if x != P and n}
                    if rest.get(LEN, 0) != 1:
                        continue
                    others = {x: n for x, n in rest.items() if x != LEN}
                    if len(others) != 1:
                        continue
                    (r, n), = others.items()
                    if n != -1:
                        continue
                    # remaining bytes at the access = r - k
                    fb = fb or p.facts_before(e.idx)
                    iv = fb.interval(r)
                    if r[0] == "bin" and r[1] == "urem" and r[3][0] == "c" and r[3][1] > 0:
                        iv = (0, min(r[3][1] - 1, iv[1] if iv else r[3][1] - 1))
                    if iv is None:
                        continue
                    ntail += 1
                    ok = iv[1] - k >= ext
                    if ok or e.iid in flagged:
                        continue
                    flagged.add(e.iid)
                    chk.ob("R12.5", fn, "a fixed-size read at the tail of %s stays inside the buffer" % fn.params[P[1]]["name"], False,
                           loc=fn.loc(e.iid), detail="%s at %s + (%s - %s)%+d, but at most %d byte(s) remain there"
                           % (what, fn.params[P[1]]["name"], fn.params[LEN[1]]["name"], T.show(r, fn), k, iv[1] - k), path=p,
                           key="R12.5 %s" % fn.sname)
    chk.ob("R12.5", "library", "no fixed-size read at buffer + (length - r) with fewer than that many bytes left "
           "(%d tail accesses with a bounded remainder examined)" % ntail, True, key="R12.5 scan")


def aligned_ok(base_align, off, stride, need):
    return base_align >= need and off % need == 0 and stride % need == 0


def callers_aligned(prog, cg, f, pi, need, off, stride):
    if off % need or stride % need:
        return False
    ok = True
    found = False
    for ck in cg.callers().get(f.key, ()):
        c = cg.by_key[ck]
        for ins in c.insts:
            if ins["op"] != "call":
                continue
            r = prog.resolve_callee(c, ins["callee"])
            if r[0] == "fn" and r[1] is f and pi < len(ins["ops"]):
                found = True
                root, o2, s2 = chase(c, ins["ops"][pi])
                if root is None or root[0] == "a":
                    ok = False
                elif root[0] == "alloca":
                    if not aligned_ok(c.insts[root[1]].get("align", 1), o2, s2, need):
                        ok = False
                elif root[0] == "g":
                    gd = prog.global_def(c, root[1])
                    if not gd or not aligned_ok(gd[1]["align"], o2, s2, need):
                        ok = False
    return ok and found


def _lin_sub(a, b):
    (ca, ka), (cb, kb) = a, b
    d = dict(ca)
    for k, v in cb.items():
        d[k] = d.get(k, 0) - v
    return {k: v for k, v in d.items() if v}, ka - kb


def _lin_add(a, b):
    (ca, ka), (cb, kb) = a, b
    d = dict(ca)
    for k, v in cb.items():
        d[k] = d.get(k, 0) + v
    return {k: v for k, v in d.items() if v}, ka + kb


def _guards(fb):
    """[(linear X, c)]: X >= c, from the unsigned comparison facts of the path"""
    out = []
    for t, v in fb.items:
        if t[0] != "icmp":
            continue
        pred, a, b = t[1], t[2], t[3]
        if not v:
            pred = {"ult": "uge", "ule": "ugt", "ugt": "ule", "uge": "ult"}.get(pred)
        if pred in ("ugt", "uge"):
            a, b = b, a
            pred = {"ugt": "ult", "uge": "ule"}[pred]
        if pred not in ("ult", "ule"):
            continue
        out.append((_lin_sub(T.linear(b), T.linear(a)), 1 if pred == "ult" else 0))
    return out


def contract_out_size(prog, g, k):
    """documented size of a fixed-size output parameter of a public function: crypto_auth_hmacsha256_final(state, out) writes
    crypto_auth_hmacsha256_BYTES (the longest prefix of the name that has a *_BYTES constant in the public headers)"""
    if not g.public or k >= len(g.params) or g.params[k]["name"] not in ("out", "h", "hash"):
        return None
    if k in length_pairs(g) or (g.params[k]["name"] + "len") in [q["name"] for q in g.params]:
        return None
    parts = g.sname.split("_")
    for n in range(len(parts), 1, -1):
        v = prog.consts.get("_".join(parts[:n]) + "_BYTES")
        if v is not None:
            return v
    return None


def block_write_rule(prog, chk):
    fxw = FixedExtent(prog, "write")
    n = 0
    for fn in sorted(prog.functions(), key=lambda f: (f.unit, f.name)):
        if len(fn.insts) > 2500 or not any(q["ty"].endswith("*") for q in fn.params):
            continue
        try:
            ps = cm.paths(prog, fn)
        except AnalysisBroken:
            continue
        seen = set()
        for p in ps:
            for e in p.events:
                ws = []
                if e.kind == "store":
                    ws.append((e.addr, C(e.size, 64), "store"))
                elif e.kind == "call":
                    nm = e.callee_name() or ""
                    if nm.startswith(("memcpy", "memmove", "memset", "llvm.memcpy", "llvm.memmove", "llvm.memset")) and len(e.args) >= 3:
                        ws.append((e.args[0], e.args[2], nm))
                    elif e.callee[0] == "fn":
                        g = e.callee[1]
                        for k, a in enumerate(e.args):
                            if isinstance(a, tuple) and k < len(g.params) and T.root(a)[0] == "arg":
                                ex = fxw.of(g, k) or contract_out_size(prog, g, k)
                                if ex:
                                    ws.append((a, C(ex, 64), g.sname))
                for addr, E, what in ws:
                    r = T.root(addr)
                    if r[0] != "arg":
                        continue
                    co, k0 = T.linear(addr)
                    if co.get(r) != 1:
                        continue
                    D = ({a: v for a, v in co.items() if a != r}, k0)
                    if not D[0] or all(a[0] == "arg" for a in D[0]):
                        continue            # constant offsets / plain functions of the parameters are R12.4's business
                    fb = p.facts_before(e.idx)
                    gs = _guards(fb)
                    beliefs = {}
                    for X, c in gs:
                        S = _lin_add(X, D)
                        if S[0] and all(a[0] == "arg" for a in S[0]):
                            key = tuple(sorted(S[0].items()))
                            beliefs[key] = max(beliefs.get(key, -(1 << 70)), c - S[1])
                    if not beliefs:
                        continue
                    n += 1
                    ok = False
                    for Sitems, c in beliefs.items():
                        S = (dict(Sitems), 0)
                        if E[0] == "c":
                            ok = ok or c >= E[1]
                            continue
                        rem = _lin_sub(S, D)
                        R = _lin_sub(rem, T.linear(E))
                        if not R[0] and R[1] >= 0:
                            ok = True
                        iv = fb.interval(E)
                        if iv and iv[1] <= c:
                            ok = True
                        for X2, c2 in gs:
                            R2 = _lin_sub(R, X2)
                            if not R2[0] and R2[1] + c2 >= 0:
                                ok = True
                    if not ok and (e.iid,) in seen:
                        continue
                    if not ok:
                        seen.add((e.iid,))
                    cap = " / ".join(" + ".join("%s%s" % ("" if v == 1 else "%d*" % v, fn.params[a[1]]["name"]) for a, v in Sitems)
                                     for Sitems in beliefs)
                    chk.ob("R12.8", fn, "a write at a loop-dependent offset fits the remainder the path's own guards establish", ok,
                           loc=fn.loc(e.iid), path=None if ok else p,
                           detail="" if ok else "%s writes %s byte(s) at %s; the guards on this path only establish that %s byte(s) remain below %s"
                           % (what, T.show(E, fn), T.show(addr, fn), max(beliefs.values()), cap), key="R12.8 %s %s" % (fn.sname, what))
    chk.floor("R12.8", "writes at loop-dependent offsets under a capacity guard", n, 1500)


def sibling_null_rule(prog, chk):
    cg = prog.callgraph()
    n = 0
    seen = set()
    for d in sorted(prog.functions(), key=lambda f: (f.unit, f.name)):
        groups = {}
        for iid, res in cg.sites[d.key]:
            ins = d.insts[iid]
            ops = tuple(tuple(o[:2]) if o[0] in ("a", "i") else None for o in ins.get("ops", []))
            if not ops or any(o is None for o in ops) or not any(o[0] == "a" for o in ops):
                continue
            for r in res:
                if r[0] == "fn" and len(r[1].params) == len(ops) and r[1].key != d.key:
                    groups.setdefault(ops, set()).add(r[1].key)
        for ops, keys in groups.items():
            if len(keys) < 2 or frozenset(keys) in seen:
                continue
            seen.add(frozenset(keys))
            sibs = [cg.by_key[k] for k in sorted(keys, key=str)]
            if len({tuple(q["ty"] for q in g.params) for g in sibs}) != 1:
                continue
            tested = {g.key: null_tested_params(g) for g in sibs}
            for k in range(len(sibs[0].params)):
                if not sibs[0].params[k]["ty"].endswith("*"):
                    continue
                yes = [g for g in sibs if k in tested[g.key]]
                no = [g for g in sibs if k not in tested[g.key]]
                if not yes:
                    continue
                n += 1
                chk.ob("R12.9", d, "the callees %s agree that their parameter %d may be NULL" % ("/".join(g.sname for g in sibs), k), not no,
                       loc=(no[0].loc() if no else d.loc()),
                       detail="" if not no else "%s tests %s against NULL, %s uses it unconditionally: the same call is safe for one variant "
                       "and a NULL dereference for the other" % (yes[0].sname, yes[0].params[k]["name"], no[0].sname),
                       key="R12.9 %s param %d" % ("/".join(g.sname for g in sibs), k))
    chk.floor("R12.9", "sibling groups with an optional pointer parameter", n, 1)
