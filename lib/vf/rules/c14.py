"""C14 — constant-time helpers: every byte is compared; wiping covers exactly the request.

Decided clauses:
  R14.1 coverage: sodium_memcmp / sodium_is_zero / sodium_compare read exactly [0, len) of each
        operand (E9 scalar evolution: unit stride, exact trip count, no early exit) and
        crypto_verify_16/32/64 read exactly [0, N) of both operands (loop unrolled by conditional
        constant propagation for N = 16, 32, 64), all loads feeding the returned value.
  R14.2 wipe: sodium_memzero hands exactly its (pointer, length) to a non-elidable primitive;
        sodium_stackzero wipes a local of the requested length the same way.
  R14.4 (E12 known-bits, contradiction rule) no carry of sodium_increment / sodium_add / sodium_sub /
        sodium_compare (C bodies) is identically zero.
  R14.6 carry-flag typestate of the amd64 inline-assembly fast paths of increment / add / sub: every adc / sbb is
        fed by a carry-producing instruction (add, adc, sub, sbb, stc ...) with only CF-preserving instructions in
        between; inc / dec and logical instructions do not qualify.
  R14.5 carry-chain continuity: in the byte loops of sodium_increment / add / sub the loop-carried carry
        is recomputed from its previous value (data dependence of the next carry on the incoming one).
  R14.8 limb structure of every assembly block of sodium/utils.c: only the first limb operation ignores the carry, every limb
        is updated once, and under `len == C` the limb widths add up to exactly C.
  R14.7 limb pairing in the same fast paths: every `op %reg, K(out)` uses a register loaded by `mov K(in), %reg` from the other
        operand at the same offset and width, each loaded limb is consumed once, and the limbs are contiguous from offset 0.
NOT decided: the -1/0/1 value of sodium_compare, the values of the carries of increment/add/sub (and
the inline-asm fast paths).
"""
from .. import deps
from .. import e9
from .. import terms as T
from ..build import AnalysisBroken
from ..callgraph import covers, _norm_ranges
from ..terms import C
from . import common as cm
from .. import pathai

NONELIDABLE = {"explicit_bzero", "memset_s", "memset_explicit", "explicit_memset", "SecureZeroMemory"}


def or_tree(t, load_addr, acc_roots, params):
    """set of difference atoms if t is an OR-accumulation of per-position differences, else None.
    atoms: 'PREV' (previous accumulator value), ('D', offset linear form) for x[off] ^ y[off] or a single n[off]"""
    while t[0] == "cast" or (t[0] == "op" and t[1] in ("bitcast", "zext", "sext", "trunc") and len(t) == 3):
        t = t[2]
    if t[0] == "c":
        return set() if t[1] == 0 else None
    if t[0] == "op" and t[1] in ("zeroinitializer",):
        return set()
    if t[0] == "load":
        a = load_addr.get(t)
        if a is None:
            return None
        r = T.root(a)
        if r in acc_roots:
            return {"PREV"}
        if r in params:
            return {("D", str(sorted((str(k), v) for k, v in T.linear(a)[0].items() if k != r)), T.linear(a)[1])}
        return None
    k = t[1] if t[0] in ("bin", "op") else None
    if k == "xor":
        a, b = t[2], t[3]
        sa = or_tree(a, load_addr, acc_roots, params)
        sb = or_tree(b, load_addr, acc_roots, params)
        # only x[off] ^ y[off]: two single loads of the same position of the two operands
        if sa is not None and sb is not None and len(sa) == 1 and len(sb) == 1 and "PREV" not in sa and "PREV" not in sb:
            (da,), (db,) = sa, sb
            if da[1:] == db[1:] and _is_single_load(a) and _is_single_load(b):
                return {da}
        return None
    if k == "or":
        sa = or_tree(t[2], load_addr, acc_roots, params)
        sb = or_tree(t[3], load_addr, acc_roots, params)
        if sa is None or sb is None:
            return None
        return sa | sb
    return None


def _is_single_load(t):
    while t[0] == "cast" or (t[0] == "op" and t[1] in ("bitcast", "zext", "sext", "trunc") and len(t) == 3):
        t = t[2]
    return t[0] == "load"


def accumulation_rule(prog, chk, fn, paths_, params, what, tag=""):
    """R14.3: wherever per-position differences of the operands are combined into an accumulator, the
    combiner is OR (differences can never cancel each other)"""
    n = 0
    for p in paths_:
        load_addr = {}
        for e in p.events:
            if e.kind == "load" and e.res is not None and e.res[0] == "load" and e.res not in load_addr:
                load_addr[e.res] = e.addr       # the originating load (later reloads of a forwarded copy do not count)
        acc_roots = {T.root(e.addr) for e in p.events if e.kind == "store" and T.root(e.addr)[0] == "alloca"}
        seen_loads = {}
        for e in p.stores():
            r = T.root(e.addr)
            if r[0] != "alloca":
                continue
            oper = {l for l in T.leaves(e.val) if l in load_addr and T.root(load_addr[l]) in set(params)}
            fresh = oper - seen_loads.get(r, set())
            seen_loads.setdefault(r, set()).update(oper)
            if not fresh:
                continue        # reduction of the finished accumulator (d--, shifts, mask), not an accumulation step
            roots = {T.root(load_addr[l]) for l in T.leaves(e.val) if l in load_addr}
            if not (roots & set(params)):
                continue
            # a value derived from operand bytes is being accumulated
            if not any(x in ("PREV",) for x in ()) and len(roots & set(params)) == 0:
                continue
            tr = or_tree(e.val, load_addr, acc_roots, set(params))
            if tr is not None and len(tr - {"PREV"}) == 0:
                continue
            # plain copies of one operand lane (v1 = load x) are not accumulations
            if _is_single_load(e.val):
                continue
            n += 1
            chk.ob("R14.3", fn, "%s: per-position differences are combined with OR only (no cancellation)%s" % (what, tag), tr is not None,
                   loc=fn.loc(e.iid), detail="" if tr is not None else "accumulated value is not an OR of x[i]^y[i] terms: %s" % T.show(e.val, fn)[:300],
                   path=None, key="R14.3 %s accumulator" % fn.sname)
    return n


def verify_rules(prog, chk, tag=""):
    n = 0
    for N in (16, 32, 64):
        fn = prog.need("crypto_verify_%d" % N, rule="R14.1")
        want = prog.K("crypto_verify_%d_BYTES" % N)
        # follow the (possibly out-of-line) worker with the constant length bound
        for p in cm.paths(prog, fn):
            if p.kind != "ret":
                continue
            calls = [e for e in p.calls() if e.callee[0] == "fn"]
            if len(calls) != 1 or p.ret != calls[0].res or calls[0].args[0] != ("arg", 0) or calls[0].args[1] != ("arg", 1):
                chk.ob("R14.1", fn, "crypto_verify_%d returns its worker's verdict on (x, y)" % N + tag, False, loc=fn.loc(p.end_iid), path=p,
                       key="R14.1 crypto_verify_%d wrapper" % N)
                continue
            w = calls[0].callee[1]
            bind = cm.const_bindings(calls[0], w)
            ok_len = len(calls[0].args) >= 3 and calls[0].args[2] == C(want, 32)
            chk.ob("R14.1", fn, "worker is asked for %d bytes (crypto_verify_%d_BYTES)" % (want, N) + tag, ok_len, loc=fn.loc(calls[0].iid),
                   key="R14.1 crypto_verify_%d length" % N)
            ai = pathai.PathAI(prog, w, assume=bind, unroll=True, writers=prog.callgraph(), max_paths=64)
            wp = [q for q in ai.run() if q.kind == "ret"]
            chk.ob("R14.1", w, "worker has a single path for n = %d (no data-dependent exit)" % N + tag, len(wp) == 1,
                   detail="%d paths" % len(wp), key="R14.1 crypto_verify_n n=%d paths" % N)
            accumulation_rule(prog, chk, w, wp, [("arg", 0), ("arg", 1)], "crypto_verify_n n=%d" % N, tag)
            for q in wp:
                for ai_, nm in ((0, "x"), (1, "y")):
                    n += 1
                    rs = deps.return_deps(prog, q, ("arg", ai_))
                    ok = _norm_ranges(rs) == [(0, want)]
                    chk.ob("R14.1", w, "returned value depends on exactly bytes [0, %d) of %s" % (want, nm) + tag, ok,
                           detail="depends on %s" % rs, key="R14.1 crypto_verify_n n=%d coverage-%s" % (N, nm))
    return n


def _dominating_length(f, b):
    """constant C such that block b is only reached with `param == C` (the true edge of an `icmp eq param, C` branch of a
    dominator); None when there is no such fact"""
    x = b
    while x not in (-1, None):
        d = f.blocks[x].get("idom", -1)
        if d in (-1, None):
            return None
        term = f.insts[f.blocks[d]["insts"][-1]]
        if term["op"] == "br" and term.get("cond") and term["cond"][0] == "v" and term["succ"][0] == x and term["succ"][1] != x \
                and f.blocks[x].get("preds") == [d]:
            c = f.insts[term["cond"][1]]
            if c["op"] == "icmp" and c.get("pred") == "eq":
                a, k = c["ops"]
                if a[0] == "i":
                    a, k = k, a
                if a[0] == "a" and k[0] == "i":
                    return (f.params[a[1]]["name"], k[1])
        x = d
    return None


def asm_limb_rule(prog, chk, rule, parts=("carry", "once", "guard", "extent"), floor=True):
    """Limb structure of every inline-assembly block of sodium/utils.c (helpers included). Over the instructions with a memory
    destination `op src, K(base)` / `inc K(base)`:
      carry   a carry-ignoring operation (add / sub / inc / dec) may only be the first of them: a second one in the chain
              overwrites CF with the carry of a partial sum and drops the one the previous operation produced;
      once    no limb K(base) is the destination of two arithmetic operations of one block;
      guard   a block with more than one limb operation is reached only under `len == C` (or the helper it lives in is only
              called under one): the carry out of its last limb is not available to anything that would process further bytes;
      extent  when the block is only reached under `len == C`, the limb widths are contiguous from 0 and add up to exactly C
              (wider: bytes past the buffer are read and written; narrower: the top bytes never receive the carry)."""
    import re
    width = {"q": 8, "l": 4, "w": 2, "b": 1}
    nblk = next_ = 0
    for f in prog.functions():
        if f.decl or f.unit != "sodium/utils.c":
            continue
        for i, ins in enumerate(f.insts):
            cal = ins.get("callee")
            if ins["op"] != "call" or not cal or cal[0] != "asm":
                continue
            ops = []
            for line in [l.strip() for l in cal[1].replace(";", "\n").split("\n") if l.strip()]:
                m = re.match(r"(\w+)\s+(?:([^,]+?)\s*,\s*)?(-?\d*)\((\$\d+)\)$", line)
                if not m:
                    continue
                mn = m.group(1).lower()
                if mn[:3] not in ("add", "adc", "sub", "sbb", "inc", "dec") or (m.group(2) is None and mn[:3] not in ("inc", "dec")):
                    continue
                ops.append((mn, int(m.group(3) or 0), width.get(mn[-1], 0), m.group(4), line))
            if not ops:
                continue
            nblk += 1
            if "carry" in parts:
                late = [o for o in ops[1:] if o[0][:3] in ("add", "sub", "inc", "dec")]
                chk.ob(rule, f, "assembly block at %s: only the first limb operation ignores the incoming carry" % f.loc(i), not late, loc=f.loc(i),
                       detail="" if not late else "`%s` comes after `%s` and %s: the carry / borrow of the earlier operation is lost whenever "
                       "the two do not both produce one" % (late[0][4], ops[0][4], "leaves CF alone" if late[0][0][:3] in ("inc", "dec") else
                                                            "overwrites CF with the carry of its own partial result"),
                       key="%s %s carry-first@%d" % (rule, f.sname, ops[-1][1] + ops[-1][2]))
            if "once" in parts:
                seen, dup = set(), []
                for o in ops:
                    if (o[3], o[1]) in seen:
                        dup.append(o[4])
                    seen.add((o[3], o[1]))
                chk.ob(rule, f, "assembly block at %s: every limb is the destination of one arithmetic operation" % f.loc(i), not dup, loc=f.loc(i),
                       detail="" if not dup else "`%s` updates a limb that an earlier operation of the block already updated: the two "
                       "operations each produce their own carry and only the second one is propagated" % dup[0],
                       key="%s %s once@%d" % (rule, f.sname, ops[-1][1] + ops[-1][2]))
            if "guard" in parts and len(ops) > 1:
                # a chain of limb operations ends with a carry nobody reads: it is only complete when the block handles the whole
                # operand, i.e. when it is reached under a length *equality* (directly, or at every call site of the helper it
                # lives in). Under `len >= C` the bytes after the block would need the carry out of its last limb.
                fact = _dominating_length(f, ins["b"])
                via = ""
                if fact is None and f.internal:
                    sites = [(g, j) for g in prog.functions() if not g.decl and g.unit == f.unit
                             for j, c_ in enumerate(g.insts) if c_["op"] == "call" and c_.get("callee") and c_["callee"][0] == "g"
                             and c_["callee"][1] == f.name]
                    if sites and all(_dominating_length(g, g.insts[j]["b"]) is not None for g, j in sites):
                        fact, via = True, " (at all %d call sites of %s)" % (len(sites), f.sname)
                chk.ob(rule, f, "assembly block at %s handles a whole operand: it is reached only under a length equality%s" % (f.loc(i), via),
                       fact is not None, loc=f.loc(i), detail="" if fact is not None else "no `len == C` fact dominates the block: the carry / "
                       "borrow out of its last limb is dropped, whatever processes the remaining bytes starts without it",
                       key="%s %s guard@%d" % (rule, f.sname, ops[-1][1] + ops[-1][2]))
            if "extent" in parts:
                fact = _dominating_length(f, ins["b"])
                if fact is None:
                    continue
                next_ += 1
                limbs = sorted({(o[1], o[2]) for o in ops})
                contiguous = limbs[0][0] == 0 and all(limbs[j][0] + limbs[j][1] == limbs[j + 1][0] for j in range(len(limbs) - 1))
                total = limbs[-1][0] + limbs[-1][1]
                ok = contiguous and total == fact[1] and all(w for _k, w in limbs)
                chk.ob(rule, f, "assembly block at %s, reached only with %s == %d: its limbs cover exactly bytes [0, %d)" % (f.loc(i), fact[0], fact[1], fact[1]),
                       ok, loc=f.loc(i), detail="" if ok else "limbs (offset, width) %s cover bytes [0, %d)%s: %s" %
                       (limbs, total, "" if contiguous else " with gaps",
                        "%d bytes past the %d-byte buffer are read and written" % (total - fact[1], fact[1]) if total > fact[1]
                        else "the carry never reaches the remaining bytes"),
                       key="%s %s extent-%d" % (rule, f.sname, fact[1]))
    if floor:
        chk.floor(rule, "inline-assembly blocks of sodium/utils.c with limb operations", nblk, 0 if chk.relaxed else 6)
        if "extent" in parts:
            chk.floor(rule, "assembly blocks guarded by a length equality", next_, 0 if chk.relaxed else 6)


def run(ctx, chk):
    prog = ctx.prog()
    chk.configs.append("native -O0+mem2reg; -O2 (no unroll/vectorise/inline) for scalar evolution")
    chk.explanation = ("E9 byte coverage of the scan loops of sodium_memcmp/is_zero/compare from LLVM scalar evolution (unit stride, exact "
                       "trip count len, hence no early exit); conditional-constant-propagation unrolling of crypto_verify_n for n = 16, 32, "
                       "64 with a data-dependence slice of the result on both operands; E1 on the wipe functions.")
    chk.not_decided = "ordering value of sodium_compare; carries of sodium_increment/add/sub incl. inline-asm fast paths."
    n = verify_rules(prog, chk)
    chk.floor("R14.1", "crypto_verify_n operand coverage obligations", n, 6)
    if ctx.tier == "thorough":
        pp = ctx.prog(config="portable")
        chk.configs.append("portable (no SSE2: byte-wise crypto_verify_n)")
        verify_rules(pp, chk, " [portable]")

    u = e9.O2Unit(ctx, "sodium/utils.c")
    for name, ops, ln in (("sodium_memcmp", (0, 1), 2), ("sodium_is_zero", (0,), 1), ("sodium_compare", (0, 1), 2)):
        fn = prog.need(name, rule="R14.1")
        f2 = u.fn(name)
        for oi in ops:
            ok, desc = e9.coverage(f2, fn.params[oi]["name"], fn.params[ln]["name"])
            chk.ob("R14.1-scan", fn, "%s reads exactly [0, %s) of operand %s with no early exit" % (name, fn.params[ln]["name"], fn.params[oi]["name"]),
                   ok, detail=desc, key="R14.1-scan %s %s" % (name, "ab"[oi]))
        if name != "sodium_compare":
            k3 = accumulation_rule(prog, chk, fn, [p for p in cm.paths(prog, fn) if p.kind == "ret"], [("arg", i) for i in ops], name)
            chk.floor("R14.3", "accumulating stores in %s" % name, k3, 1)
        # the loads feed the result (O0 dependence)
        for p in cm.paths(prog, fn):
            if p.kind != "ret" or not any(e.kind == "load" and T.root(e.addr) == ("arg", 0) for e in p.events):
                continue
            for oi in ops:
                rs = deps.return_deps(prog, p, ("arg", oi))
                chk.ob("R14.1-scan", fn, "result depends on the bytes loaded from operand %s" % fn.params[oi]["name"], bool(rs),
                       loc=fn.loc(p.end_iid), key="R14.1-scan %s dep-%s" % (name, "ab"[oi]))

    # ---- R14.2 ---------------------------------------------------------------------------------------
    mz = prog.need("sodium_memzero", rule="R14.2")
    k = 0
    for p in cm.paths(prog, mz):
        if p.kind != "ret":
            continue
        k += 1
        prim = [e for e in p.calls() if e.callee_name() in NONELIDABLE]
        ok = len(prim) == 1 and prim[0].args[0] == ("arg", 0) and prim[0].args[-1] == ("arg", 1)
        if not ok:
            # weak-symbol / volatile-loop arms
            ms = [e for e in p.calls("memset") if e.args[0] == ("arg", 0) and e.args[1] == C(0, 32) and e.args[2] == ("arg", 1)]
            barrier = [e for e in p.calls() if (e.callee[0] == "asm" or e.callee_name() == "_sodium_dummy_symbol_to_prevent_memzero_lto")
                       and ms and e.idx > ms[0].idx and any(a == ("arg", 0) for a in e.args)]
            ok = (bool(ms) and bool(barrier)) or p.facts.zeroness(("arg", 1)) == "Z"
            vst = [e for e in p.events if e.kind == "store" and e.vol and T.root(e.addr) == ("arg", 0)]
            if not ok and vst:
                ok = None
        chk.ob("R14.2", mz, "sodium_memzero hands exactly (pnt, len) to a non-elidable wipe", bool(ok), loc=mz.loc(p.end_iid),
               path=None if ok else p, key="R14.2 sodium_memzero")
    chk.floor("R14.2", "paths of sodium_memzero", k, 1)
    sz = prog.need("sodium_stackzero", rule="R14.2")
    for p in cm.paths(prog, sz):
        if p.kind != "ret":
            continue
        ev = [e for e in p.calls("sodium_memzero")]
        ok = len(ev) == 1 and T.root(ev[0].args[0])[0] in ("alloca", "call") and ev[0].args[1] == ("arg", 0)
        chk.ob("R14.2", sz, "sodium_stackzero wipes a stack object of the requested length through sodium_memzero", ok,
               loc=sz.loc(p.end_iid), path=None if ok else p, key="R14.2 sodium_stackzero")
    # ---- R14.4 ---------------------------------------------------------------------------------------------------
    from .. import knownbits
    knownbits.dead_carry_rule(prog, chk, "R14.4", ("sodium/utils.c",), floor=5)
    # ---- R14.5 carry / borrow chains are continuous ------------------------------------------------------------------------
    # In the byte loops of sodium_increment / sodium_add / sodium_sub the carry is the one loop-carried scalar besides the
    # index: its next value must be computed from its current value (a borrow taken from a[i] - b[i] alone forgets an incoming
    # borrow whenever the two bytes are equal).
    knownbits.carry_continuity_rule(prog, chk, "R14.5", [("sodium_increment", None), ("sodium_add", None), ("sodium_sub", None)], floor=3)
    # ---- R14.6 carry flag typestate of the inline-assembly fast paths ------------------------------------------------------
    # Every adc / sbb consumes the carry flag: scanning back over instructions that leave CF alone (mov, lea, inc, dec, not,
    # push, pop, nop, xchg), the nearest CF-affecting instruction must be one that *produces* the carry of the previous limb
    # (add, adc, sub, sbb, neg) or sets it explicitly (stc / clc). `inc` / `dec` do not write CF, and xor / and / or / test
    # clear it - an adc after those never sees the carry out of the lower limb.
    PRESERVE = ("mov", "lea", "inc", "dec", "not", "push", "pop", "nop", "xchg", "bswap", "cmov", "set")
    PRODUCE = ("add", "adc", "sub", "sbb", "neg", "stc", "clc", "cmp", "shl", "shr", "sal", "sar", "rcl", "rcr", "bt")
    nasm = ncons = 0
    for f in prog.functions():
        if f.decl or f.unit != "sodium/utils.c":
            continue
        for i, ins in enumerate(f.insts):
            cal = ins.get("callee")
            if ins["op"] != "call" or not cal or cal[0] != "asm":
                continue
            text = cal[1]
            lines = [l.strip() for l in text.replace(";", "\n").split("\n") if l.strip()]
            mns = [l.split()[0].lower() for l in lines]
            if not mns:
                continue
            nasm += 1
            for k, mn in enumerate(mns):
                if not mn.startswith(("adc", "sbb")):
                    continue
                ncons += 1
                src = None
                for prev in reversed(mns[:k]):
                    if prev.startswith(PRESERVE):
                        continue
                    src = prev
                    break
                ok = src is not None and src.startswith(PRODUCE)
                chk.ob("R14.6", f, "`%s` in the inline assembly at %s consumes a carry produced by the previous limb" % (mn, f.loc(i)), ok,
                       loc=f.loc(i), detail="" if ok else ("no carry-producing instruction precedes it in the block" if src is None else
                                                           "the nearest flag-writing instruction before it is `%s`, which does not leave "
                                                           "the previous limb's carry in CF" % src) +
                       (" (inc / dec leave CF unchanged)" if any(m.startswith(("inc", "dec")) for m in mns[:k]) else ""),
                       key="R14.6 %s" % f.sname)
    chk.floor("R14.6", "adc / sbb instructions in the inline assembly of sodium/utils.c", ncons, 0 if chk.relaxed else 10)
    # ---- R14.7 limb pairing in the inline-assembly fast paths of sodium_add / sodium_sub ---------------------------------------
    # `op %reg, K(out)` combines limb K of the first operand with a register: that register must have been loaded from limb K of
    # the *second* operand (`mov K(in), %reg`), every loaded limb is consumed exactly once, and the limbs cover [0, len) of the
    # path's length fact without gaps. A register loaded from the wrong buffer or offset gives a + a or mixes limbs.
    import re
    npair = 0
    for f in sorted((g for g in prog.functions() if not g.decl and g.unit == "sodium/utils.c"), key=lambda g: g.name):
        name = f.sname
        if len(f.params) < 2 or f.params[0]["ty"] != "i8*" or f.params[1]["ty"] != "i8*":
            continue                       # (the two-operand helpers: sodium_add, sodium_sub and whatever they delegate to)
        for i, ins in enumerate(f.insts):
            cal = ins.get("callee")
            if ins["op"] != "call" or not cal or cal[0] != "asm" or len(cal) < 3:
                continue
            cons = cal[2].split(",")
            nout = sum(1 for c in cons if c.startswith("="))
            inputs = [c for c in cons if not c.startswith(("=", "~"))]
            opnd = {}
            for k, o in enumerate(ins.get("ops", [])):
                if o[0] == "a":
                    opnd["$%d" % (nout + k)] = f.params[o[1]]["name"]
            OUT, IN = f.params[0]["name"], f.params[1]["name"]
            regs, used, limbs, bad = {}, set(), [], []
            width = {"q": 8, "l": 4, "w": 2, "b": 1}
            for line in [l.strip() for l in cal[1].replace(";", "\n").split("\n") if l.strip()]:
                m = re.match(r"(\w+)\s+(\d*)\((\$\d+)\)\s*,\s*(\$\d+)$", line)
                if m and m.group(1).startswith("mov"):
                    regs[m.group(4)] = (opnd.get(m.group(3)), int(m.group(2) or 0), width.get(m.group(1)[-1], 0))
                    continue
                m = re.match(r"(\w+)\s+(\$\d+)\s*,\s*(\d*)\((\$\d+)\)$", line)
                if m and m.group(1)[:3] in ("add", "adc", "sub", "sbb"):
                    dst, k = opnd.get(m.group(4)), int(m.group(3) or 0)
                    src = regs.get(m.group(2))
                    w = width.get(m.group(1)[-1], 0)
                    npair += 1
                    ok = dst == OUT and src is not None and src == (IN, k, w) and m.group(2) not in used
                    used.add(m.group(2))
                    limbs.append((k, w))
                    if not ok:
                        bad.append("`%s` combines %s[%d..%d) with a register holding %s" %
                                   (line, dst, k, k + w, "nothing loaded" if src is None else "%s[%d..%d)" % (src[0], src[1], src[1] + src[2])))
            if not limbs:
                continue
            limbs.sort()
            contiguous = limbs[0][0] == 0 and all(limbs[j][0] + limbs[j][1] == limbs[j + 1][0] for j in range(len(limbs) - 1))
            chk.ob("R14.7", f, "assembly fast path at %s: limb K of %s is combined with limb K of %s, limbs contiguous from 0" % (f.loc(i), OUT, IN),
                   not bad and contiguous, loc=f.loc(i), detail="; ".join(bad) or ("" if contiguous else "limbs %s leave a gap" % limbs),
                   key="R14.7 %s asm-%d" % (name, limbs[-1][0] + limbs[-1][1]))
    chk.floor("R14.7", "limb operations in the assembly fast paths of sodium_add / sodium_sub", npair, 0 if chk.relaxed else 10)
    # ---- R14.8 limb structure of every assembly block of the unit (helpers included) -----------------------------------------
    asm_limb_rule(prog, chk, "R14.8")
