"""C05 — X25519: failure is reported exactly through the all-zero test of the whole output.

Decided clause:
  R5.1 crypto_scalarmult_curve25519 reports success only if (i) the selected ladder (every
       function the dispatch slot may hold) returned 0 and (ii) the returned status is computed
       from an accumulator fed by loads of all crypto_scalarmult_curve25519_BYTES bytes of q with
       no early exit (E9: the scan loop's add-recurrence and exact trip count cover [0, 32)).
  R5.2 key-exchange session keys (E1 + sibling cross-check on crypto_kx_{client,server}_session_keys):
       for every combination of NULL / non-NULL (rx, tx) the function either fails (the X25519 status
       was non-zero, nothing written) or: hashes exactly (q, client_pk, server_pk) in that order into
       a 64-byte BLAKE2b output `keys`, with q = crypto_scalarmult(own sk, peer pk); each requested
       output buffer finally holds keys[o .. o+32) for one constant offset o (last store per index wins
       when the two pointers were aliased); and the offsets are crossed: client rx = server tx and
       client tx = server rx, in every mode against every mode.
  R5.3 in-place calls: in every X25519 ladder entry (ref10, sandy2x) all reads of the scalar n and the
       point p - direct or through callees - precede the first write through the output q on every
       path, so q == p or q == n (the peer key replaced by the shared secret) computes the same
       function as distinct buffers.
  R5.4 (E11 bit-flow on the -O2 IR, helpers in other units resolved) clamping and the ignored top bit:
       in every ladder entry the scalar bits 0, 1, 2 and 254, 255 cannot influence anything (they are
       cleared / forced in the local copy before any use) while each of the other 251 scalar bits
       can; bit 255 of the point cannot influence anything (masked by the decoder and by the
       low-order blocklist comparison) while each of the other 255 point bits can.
  R5.6 (E16) re-entrancy: no function of the X25519 / box / kx / HSalsa20 units writes a writable static object (scratch field
       elements in a file-scope static make concurrent key agreements corrupt each other); the implementation slot is set only
       by *_pick_best_implementation.
  R5.7 (E2 who-may-call) primitive-specific units of crypto_box / crypto_scalarmult / crypto_kx / crypto_secretbox never call the
       generic front end of their own operation: `crypto_box_beforenm` from the XChaCha20 box is the HSalsa20 derivation, so the
       one-shot and the precomputed API would disagree on the shared key.
  R5.10 (E12) has_small_order (ref10) narrows its accumulated differences only where the dropped bits are known zero.
  R5.9 (E17) fe51_pack.S: the mask that selects the final subtraction of p depends on all five limbs of the value being encoded.
  R5.8 (E12) in the X25519 units (incl. the field arithmetic inlined from the private headers) no carry / shifted limb is identically
       zero: a limb masked before its carry is taken makes the ladder's result wrong whenever that limb overflows.
  R5.5 (E12 known-bits) in the X25519 units `(hi << k) | lo` packings have provably bit-disjoint operands; the
       loosely reduced output limbs of the assembly ladder are therefore repacked with `+`.
NOT decided: RFC 7748 values, the ladder arithmetic, the BLAKE2b values, seeded key-pair values.
"""
from .. import deps
from .. import e9
from .. import terms as T
from ..build import AnalysisBroken
from ..callgraph import covers
from . import common as cm


ALSO_PORTABLE = True


def run(ctx, chk):
    prog = ctx.prog()
    cg = prog.callgraph()
    chk.configs.append("native -O0+mem2reg; -O2 (no unroll/vectorise/inline) for scalar evolution")
    chk.explanation = ("E1: every exit of crypto_scalarmult_curve25519 that may return 0 holds 'the ladder in the dispatch slot returned 0' "
                       "(all slot targets enumerated) and the status depends on q; E9: LLVM scalar evolution of the scan loop shows the "
                       "loads through q are {q,+,1} with exact trip count 32 = crypto_scalarmult_curve25519_BYTES, i.e. every output "
                       "byte feeds the zero test and there is no early exit.")
    chk.not_decided = ("RFC 7748 outputs, clamping, the HSalsa20/HChaCha20 and BLAKE2b values and seeded key generation values "
                       "are arithmetic and not decided.")
    fn = prog.need("crypto_scalarmult_curve25519", rule="R5.1")
    nbytes = prog.K("crypto_scalarmult_curve25519_BYTES")
    n = 0
    for p, conj in cm.exits_returning(prog, fn, "Z"):
        n += 1
        slot = [e for e in p.calls() if e.callee[0] == "ind"]
        tg = []
        ok = False
        if slot:
            tg, complete = cm.resolved_targets(prog, fn, slot[0])
            ok = complete and bool(tg) and cm.call_is_zero(p, slot[0], conj) and \
                slot[0].args[0] == ("arg", 0) and slot[0].args[1] == ("arg", 1) and slot[0].args[2] == ("arg", 2)
        chk.ob("R5.1", fn, "success => the selected ladder returned 0 on (q, n, p)", ok, loc=fn.loc(p.end_iid),
               detail="slot targets: %s" % [t.sname for t in tg], path=None if ok else p, key="R5.1 ladder-status")
        rs = deps.return_deps(prog, p, ("arg", 0), slot[0].idx if slot else -1)
        okd = bool(rs)
        chk.ob("R5.1", fn, "success status is data-dependent on the output q written by the ladder", okd, loc=fn.loc(p.end_iid),
               detail="depends on bytes %s of q" % rs, path=None if okd else p, key="R5.1 status-ignores-q")
    chk.floor("R5.1", "exits that may report success", n, 1)
    # every function that can sit in the slot is known (so "returned 0" above speaks about real code)
    u = e9.O2Unit(ctx, fn.unit)
    ok, desc = e9.coverage(u.fn(fn.name), fn.params[0]["name"], nbytes)
    chk.ob("R5.1-cov", fn, "the zero test reads exactly bytes [0, %d) of q without early exit" % nbytes, ok, detail=desc,
           key="R5.1-cov crypto_scalarmult_curve25519")
    # the scan must come after the ladder call and nothing may return 0 before it
    for p in cm.paths(prog, fn):
        if p.kind == "ret" and p.ret is not None and p.ret[0] == "c":
            chk.ob("R5.1", fn, "constant returns are failures", p.ret[1] != 0, loc=fn.loc(p.end_iid), path=p if p.ret[1] == 0 else None,
                   key="R5.1 constant-success")

    kx_rule(prog, chk)
    inplace_rule(prog, chk)
    clamp_rule(ctx, prog, chk)
    # R5.5: in the X25519 units limbs / words are packed with `|` only when provably bit-disjoint (the ladder's output limbs
    # are only loosely reduced: repacking them needs `+`)
    from .. import knownbits
    knownbits.or_packing_rule(prog, chk, "R5.5", ("crypto_scalarmult/curve25519/",), floor=3)
    # R5.8: no carry of the field arithmetic behind the portable ladder is identically zero (E12; `h0 &= mask; carry = h0 >> 51` never
    # carries: the product is 2^51 short whenever limb 0 overflows)
    knownbits.dead_carry_rule(prog, chk, "R5.8", ("crypto_scalarmult/curve25519/",), floor=20,
                              allowed=[("_sodium_scalarmult_curve25519_sandy2x_fe_frombytes",
                                        "sandy2x decoder: h9 has 25 bits by construction, `carry9 = h9 >> 25` is zero by design")])
    # R5.10: the portable backend's low-order rejection looks at whole words
    small_order_rule(prog, chk, "R5.10")
    # R5.9: the canonical encoding of the assembly backend: the final conditional subtraction of p is decided from all five limbs (E17)
    from .. import asmstr
    asmstr.freeze_rule(prog, chk, "R5.9", "crypto_scalarmult/curve25519/sandy2x/fe51_pack.S")
    # R5.7: who-may-call: the box / scalarmult / kx / secretbox families never go through the generic front end of their own operation
    cm.layering_rule(prog, chk, "R5.7", ("crypto_box", "crypto_scalarmult", "crypto_kx", "crypto_secretbox", "crypto_core"), floor=50)
    # R5.6: "for every schedule": the key-agreement units keep no per-call state in static storage (E16)
    from .. import staticstate
    staticstate.static_state_rule(prog, chk, "R5.6", ("crypto_scalarmult/curve25519/", "crypto_scalarmult/crypto_scalarmult.c", "crypto_box/",
                                                       "crypto_kx/", "crypto_core/hsalsa20/", "crypto_core/hchacha20/"), floor=30)


KX = {"crypto_kx_client_session_keys": {"own_sk": 3, "peer_pk": 4, "client_pk": 2, "server_pk": 4},
      "crypto_kx_server_session_keys": {"own_sk": 3, "peer_pk": 4, "client_pk": 4, "server_pk": 2}}


def kx_rule(prog, chk):
    """R5.2: transcript, split and cross-equality of the session keys, per NULL-mode"""
    C = T.C
    nkey = prog.K("crypto_kx_SESSIONKEYBYTES")
    offs = {}       # (function, mode, 'rx'|'tx') -> offset into keys
    where = {}
    nsucc = 0
    for name, role in KX.items():
        fn = prog.need(name, rule="R5.2")
        RX, TX = ("arg", 0), ("arg", 1)
        for p in cm.paths(prog, fn):
            if p.kind != "ret":
                continue
            # a pointer the path never compares with NULL is used unconditionally: it was supplied
            zrx, ztx = p.facts.zeroness(RX) or "NZ", p.facts.zeroness(TX) or "NZ"
            mode = ("rx" if zrx == "NZ" else "") + ("+" if zrx == ztx == "NZ" else "") + ("tx" if ztx == "NZ" else "")
            sm = [e for e in p.calls("crypto_scalarmult")]
            wr = [e for e in p.events if (e.kind == "store" and T.root(e.addr) in (RX, TX)) or
                  (e.kind == "call" and (e.callee_name() or "").startswith(("llvm.memcpy", "llvm.memmove", "memcpy", "memmove"))
                   and T.root(e.args[0]) in (RX, TX))]
            if p.may_return_nonzero():
                ok = not wr and (not sm or p.facts.zeroness(sm[0].res) != "Z")
                chk.ob("R5.2", fn, "failing exit: the X25519 status was non-zero and no session key was written", ok,
                       loc=fn.loc(p.end_iid), path=None if ok else p, key="R5.2 %s failure-exit" % name)
                continue
            nsucc += 1
            # shared point: own secret key with the peer's public key, status tested
            ok = len(sm) == 1 and sm[0].args[1] == ("arg", role["own_sk"]) and sm[0].args[2] == ("arg", role["peer_pk"]) \
                and p.facts.zeroness(sm[0].res) == "Z" and sm[0].args[0][0] == "alloca"
            chk.ob("R5.2", fn, "success => q = crypto_scalarmult(own secret key, peer public key) returned 0", ok,
                   loc=fn.loc(p.end_iid), path=None if ok else p, key="R5.2 %s shared-point" % name)
            q = sm[0].args[0] if sm else None
            # transcript: init(outlen = 2*32, no key), update(q), update(client_pk), update(server_pk), final(keys, 64)
            seq = [e for e in p.calls("crypto_generichash_init", "crypto_generichash_update", "crypto_generichash_final")]
            want = [("crypto_generichash_init", None), ("crypto_generichash_update", q),
                    ("crypto_generichash_update", ("arg", role["client_pk"])),
                    ("crypto_generichash_update", ("arg", role["server_pk"])), ("crypto_generichash_final", None)]
            okt = len(seq) == 5 and all(e.callee_name() == w[0] for e, w in zip(seq, want))
            keys = None
            if okt:
                st = seq[0].args[0]
                okt = all(e.args[0] == st for e in seq) and seq[0].args[1] == C(0, 64) and seq[0].args[2] == C(0, 64) \
                    and seq[0].args[3] == C(2 * nkey, 64) \
                    and all(seq[i].args[1] == want[i][1] and seq[i].args[2] == C(32, 64) for i in (1, 2, 3)) \
                    and seq[4].args[2] == C(2 * nkey, 64) and seq[4].args[1][0] == "alloca" \
                    and (not sm or sm[0].idx < seq[1].idx)
                keys = seq[4].args[1]
                # q must not be rewritten between the ladder and its absorption
                if okt and q is not None:
                    okt = not any(cm.writes_through(prog, p, e, T.root(q)) for e in p.events[sm[0].idx + 1:seq[1].idx]
                                  if e.kind in ("store", "call"))
            chk.ob("R5.2", fn, "keys = BLAKE2b-%d(q || client_pk || server_pk), unkeyed, in that order" % (16 * nkey), okt,
                   loc=fn.loc(p.end_iid), path=None if okt else p, key="R5.2 %s transcript" % name)
            if not okt:
                continue
            # split: which half of keys each supplied buffer finally holds
            loads = {e.res: e for e in p.events if e.kind == "load"}
            final = {}
            okf = True
            for e in wr:
                if e.idx < seq[4].idx:
                    okf = False
                    continue
                if e.kind == "call":
                    # block copy: buf <- keys + o, exactly one key long
                    dst, src, ln = e.args[0], e.args[1], e.args[2]
                    sco, sk = T.linear(src)
                    if dst in (RX, TX) and T.root(src) == keys and set(sco) == {keys} and ln == C(nkey, 64):
                        final[dst] = sk
                    else:
                        okf = False
                    continue
                base = T.root(e.addr)
                co, k = T.linear(e.addr)
                ld = loads.get(e.val)
                if ld is None or T.root(ld.addr) != keys or e.size != 1:
                    okf = False
                    continue
                lco, lk = T.linear(ld.addr)
                d1 = dict(co); d1.pop(base, None)
                d2 = dict(lco); d2.pop(keys, None)
                if d1 != d2 or k != 0 or len(d1) != 1:
                    okf = False       # not "buf[i] = keys[o + i]"
                    continue
                (iv, sc), = d1.items()
                fb = p.facts_before(e.idx)
                if sc != 1 or fb.truth(T.mk_icmp("ult", iv, C(nkey, T.term_bits(iv) or 64))) is not True:
                    # the signed loop test `i < 32` with i starting at 0 is what the sources use
                    if fb.truth(("icmp", "slt", _strip(iv), C(nkey, 32))) is not True:
                        okf = False
                        continue
                final[base] = lk      # later stores to the same index overwrite earlier ones
            for who, a in (("rx", RX), ("tx", TX)):
                if (p.facts.zeroness(a) or "NZ") != "NZ":
                    continue
                if a not in final:
                    okf = False
                    continue
                offs[(name, mode, who)] = final[a]
                where[(name, mode, who)] = (fn, fn.loc(p.end_iid))
            chk.ob("R5.2", fn, "after the hash, every supplied buffer is filled by buf[i] = keys[o + i], i < %d" % nkey, okf,
                   loc=fn.loc(p.end_iid), path=None if okf else p, key="R5.2 %s split-form %s" % (name, mode))
            for o in final.values():
                oko = o in (0, nkey)
                chk.ob("R5.2", fn, "the halves are keys[0..%d) and keys[%d..%d)" % (nkey, nkey, 2 * nkey), oko,
                       loc=fn.loc(p.end_iid), path=None if oko else p, key="R5.2 %s split-offset %s" % (name, mode))
            # the hash output must not be wiped before it is copied out
            wipes = [e for e in p.calls("sodium_memzero") if T.root(e.args[0]) == keys]
            okw = all(w.idx > e.idx for w in wipes for e in wr)
            chk.ob("R5.2", fn, "keys is wiped only after the copy", okw, loc=fn.loc(p.end_iid), path=None if okw else p,
                   key="R5.2 %s wipe-order" % name)
    chk.floor("R5.2", "successful (mode, function) paths of the kx session-key functions", nsucc, 6)
    # cross-equality: client rx = server tx and client tx = server rx, every mode against every mode
    cn, sn = "crypto_kx_client_session_keys", "crypto_kx_server_session_keys"
    ncross = 0
    for (f1, m1, w1), o1 in sorted(offs.items()):
        if f1 != cn:
            continue
        for (f2, m2, w2), o2 in sorted(offs.items()):
            if f2 != sn or w2 == w1:
                continue
            ncross += 1
            fn, loc = where[(f1, m1, w1)] if m1 != "rx+tx" else where[(f2, m2, w2)]
            chk.ob("R5.2", fn, "client %s (client asked for %s) and server %s (server asked for %s) are the same half of keys"
                   % (w1, m1, w2, m2), o1 == o2, loc=loc, detail="client %s = keys[%d..], server %s = keys[%d..]" % (w1, o1, w2, o2),
                   key="R5.2 cross client-%s/%s server-%s/%s" % (w1, m1, w2, m2))
    chk.floor("R5.2", "client/server key pairs compared across modes", ncross, 8)


def _strip(t):
    while t[0] == "cast":
        t = t[2]
    return t


def inplace_rule(prog, chk, rule="R5.3", names=("crypto_scalarmult_curve25519_ref10", "crypto_scalarmult_curve25519_sandy2x"),
                 out=0, inputs=(1, 2), what="the scalar and the point", floor=1):
    """R5.3: inputs are consumed before the output is touched"""
    cg = prog.callgraph()
    rr = cg.ranges()
    n = 0
    for name in names:
        fn = prog.fn(name)
        if fn is None:
            continue            # backend not compiled in this configuration
        Q, ins = ("arg", out), tuple(("arg", k) for k in inputs)
        for p in cm.paths(prog, fn):
            if p.kind != "ret":
                continue
            first_w = None
            last_r = None
            for e in p.events:
                if e.kind in ("store", "call") and first_w is None and cm.writes_through(prog, p, e, Q):
                    first_w = e
                reads = False
                if e.kind == "load" and T.root(e.addr) in ins:
                    reads = True
                elif e.kind == "call":
                    for k, a in enumerate(e.args):
                        if T.root(a) in ins:
                            if e.callee[0] == "fn":
                                reads = reads or bool(rr.reads(e.callee[1], k))
                            else:
                                reads = True
                if reads:
                    last_r = e
            if first_w is None or last_r is None:
                continue
            n += 1
            ok = last_r.idx <= first_w.idx
            chk.ob(rule, fn, "every read of %s precedes the first write through %s" % (what, fn.params[out]["name"]), ok,
                   loc=fn.loc(first_w.iid), detail="" if ok else "%s is written at %s, an input is still read at %s"
                   % (fn.params[out]["name"], fn.loc(first_w.iid), fn.loc(last_r.iid)), path=None if ok else p, key="%s %s" % (rule, name))
    chk.floor(rule, "returning paths of %s that write the output" % ", ".join(names), n, floor)


def clamp_rule(ctx, prog, chk):
    """R5.4: which bits of scalar and point the ladder entries can be influenced by"""
    from .. import bitflow
    units = {}

    def bf_of(unit):
        if unit not in units:
            units[unit] = bitflow.BitFlow(e9.O2Unit(ctx, unit), resolver)
        return units[unit]

    def resolver(irname):
        for f in prog.functions():
            if f.name == irname and not f.decl:
                return bf_of(f.unit)
        return None
    units_u = {}

    def bf_unrolled(unit):
        if unit not in units_u:
            units_u[unit] = bitflow.BitFlow(e9.O2Unit(ctx, unit, opt="O2u"), resolver_u)
        return units_u[unit]

    def resolver_u(irname):
        for f in prog.functions():
            if f.name == irname and not f.decl:
                return bf_unrolled(f.unit)
        return None

    CLAMPED = {(0, 0), (0, 1), (0, 2), (31, 6), (31, 7)}
    n = 0
    for name in ("crypto_scalarmult_curve25519_ref10", "crypto_scalarmult_curve25519_sandy2x"):
        fn = prog.fn(name)
        if fn is None:
            continue
        bf = bf_of(fn.unit)
        if fn.name not in bf.unit.fns:
            raise AnalysisBroken("R5.4: %s vanished from the -O2 IR" % name)
        for pidx, what, ignored in ((1, "scalar", CLAMPED), (2, "point", {(31, 7)})):
            leak, blind = [], []
            for byte in range(32):
                for bit in range(8):
                    r = bf.analyse(fn.name, pidx, byte, bit)
                    seen = bool(r["ret"] or r["branches"] or r["calls"] or r["stores"])
                    n += 1
                    if (byte, bit) in ignored and seen:
                        leak.append((byte, bit))
                    elif (byte, bit) not in ignored and not seen:
                        blind.append((byte, bit))
            if leak:
                # E11 is a may-analysis: a word array filled in a counted loop merges the bits of all its words. Ask again on the IR
                # with constant-trip loops unrolled; a bit leaks only if it does in both.
                bu = bf_unrolled(fn.unit)
                if fn.name in bu.unit.fns:
                    def seen_u(byte, bit):
                        r = bu.analyse(fn.name, pidx, byte, bit)
                        return bool(r["ret"] or r["branches"] or r["calls"] or r["stores"])
                    leak = [x for x in leak if seen_u(*x)]
            chk.ob("R5.4", fn, "%s bits %s cannot influence the computation" % (what, sorted(8 * b + k for b, k in ignored)), not leak,
                   detail="(byte, bit) %s reach a use" % leak if leak else "", key="R5.4 %s %s ignored-bits" % (name, what))
            chk.ob("R5.4", fn, "every other %s bit can influence the computation" % what, not blind,
                   detail="(byte, bit) %s never reach a use" % blind[:12] if blind else "", key="R5.4 %s %s used-bits" % (name, what))
    chk.floor("R5.4", "(ladder entry, operand, byte, bit) flows analysed", n, 512)



def small_order_rule(prog, chk, rule):
    """the low-order rejection of the portable X25519 backend compares the *whole* encoding (bit 255 masked) with its blocklist: no
    narrowing on the way from the accumulated differences to the verdict drops bits that may be set (E12). A comparison that drops
    part of a word rejects valid points that agree with a blocklisted one on the remaining bits - on this backend only."""
    from .. import knownbits
    knownbits.lossless_trunc_rule(prog, chk, rule, [("has_small_order", "crypto_scalarmult/curve25519/ref10/")], floor=1)
