"""C05 — X25519: failure is reported exactly through the all-zero test of the whole output.

Decided clause:
  R5.1 crypto_scalarmult_curve25519 reports success only if (i) the selected ladder (every
       function the dispatch slot may hold) returned 0 and (ii) the returned status is computed
       from an accumulator fed by loads of all crypto_scalarmult_curve25519_BYTES bytes of q with
       no early exit (E9: the scan loop's add-recurrence and exact trip count cover [0, 32)).
NOT decided: RFC 7748 values, clamping arithmetic, kx cross-equality, seeded key-pair values.
"""
from .. import deps
from .. import e9
from .. import terms as T
from ..build import AnalysisBroken
from ..callgraph import covers
from . import common as cm


ALSO_PORTABLE = True


def run(ctx, chk):
    prog = ctx.prog()
    cg = prog.callgraph()
    chk.configs.append("native -O0+mem2reg; -O2 (no unroll/vectorise/inline) for scalar evolution")
    chk.explanation = ("E1: every exit of crypto_scalarmult_curve25519 that may return 0 holds 'the ladder in the dispatch slot returned 0' "
                       "(all slot targets enumerated) and the status depends on q; E9: LLVM scalar evolution of the scan loop shows the "
                       "loads through q are {q,+,1} with exact trip count 32 = crypto_scalarmult_curve25519_BYTES, i.e. every output "
                       "byte feeds the zero test and there is no early exit.")
    chk.not_decided = ("RFC 7748 outputs, clamping, that both sides of box/kx derive equal secrets and seeded key generation values "
                       "are arithmetic and not decided.")
    fn = prog.need("crypto_scalarmult_curve25519", rule="R5.1")
    nbytes = prog.K("crypto_scalarmult_curve25519_BYTES")
    n = 0
    for p, conj in cm.exits_returning(prog, fn, "Z"):
        n += 1
        slot = [e for e in p.calls() if e.callee[0] == "ind"]
        tg = []
        ok = False
        if slot:
            tg, complete = cm.resolved_targets(prog, fn, slot[0])
            ok = complete and bool(tg) and cm.call_is_zero(p, slot[0], conj) and \
                slot[0].args[0] == ("arg", 0) and slot[0].args[1] == ("arg", 1) and slot[0].args[2] == ("arg", 2)
        chk.ob("R5.1", fn, "success => the selected ladder returned 0 on (q, n, p)", ok, loc=fn.loc(p.end_iid),
               detail="slot targets: %s" % [t.sname for t in tg], path=None if ok else p, key="R5.1 ladder-status")
        rs = deps.return_deps(prog, p, ("arg", 0), slot[0].idx if slot else -1)
        okd = bool(rs)
        chk.ob("R5.1", fn, "success status is data-dependent on the output q written by the ladder", okd, loc=fn.loc(p.end_iid),
               detail="depends on bytes %s of q" % rs, path=None if okd else p, key="R5.1 status-ignores-q")
    chk.floor("R5.1", "exits that may report success", n, 1)
    # every function that can sit in the slot is known (so "returned 0" above speaks about real code)
    u = e9.O2Unit(ctx, fn.unit)
    ok, desc = e9.coverage(u.fn(fn.name), fn.params[0]["name"], nbytes)
    chk.ob("R5.1-cov", fn, "the zero test reads exactly bytes [0, %d) of q without early exit" % nbytes, ok, detail=desc,
           key="R5.1-cov crypto_scalarmult_curve25519")
    # the scan must come after the ladder call and nothing may return 0 before it
    for p in cm.paths(prog, fn):
        if p.kind == "ret" and p.ret is not None and p.ret[0] == "c":
            chk.ob("R5.1", fn, "constant returns are failures", p.ret[1] != 0, loc=fn.loc(p.end_iid), path=p if p.ret[1] == 0 else None,
                   key="R5.1 constant-success")
