"""C09 — secretstream delivers exactly the pushed sequence.

Decided clauses:
  R9.1 a rejected pull leaves the state unchanged: no event that may write through `state` on any
       failing path; every state-writing event (and the plaintext write) is preceded by the fact
       "sodium_memcmp(recomputed mac, stored mac, 16) == 0".
  R9.2 push and pull advance the state identically: after the MAC is finalised, the ordered
       state-update events and the rekey condition (explicit REKEY tag OR counter wrapped to zero)
       have equal role-normalised shapes on the success paths of both; the Poly1305 transcript
       (ad, pad, tag block, ciphertext, pad, lengths) is fed in the same order with the same roles;
       init_push / init_pull initialise the state by the same events.
  R9.2-order a rekey after a chunk is preceded by the counter increment (the next key is derived from the
       incremented nonce), also when the common tail is factored into a static helper (inlined).
  R9.4 the chunk counter restarts at 1: on every returning path of rekey(), init_push() and init_pull() the bytes of the counter
       (the region the wrap test of push reads with sodium_is_zero) end as the constants 01 00 00 00, whatever they held before:
       each byte's last writer on the path is a constant store / fill (byte ranges of the writers from their constant offsets,
       loop-index intervals and, for callees, E8's store extents). A reset that only sets the low byte keeps the old high bytes
       after an explicit rekey, and the stream no longer matches the documented construction.
  R9.5 the authenticated length block is LE64(adlen) || LE64(64 + mlen) of the *caller's* lengths: the values stored into the
       8-byte buffer that is fed to Poly1305 after the ciphertext are, in order, exactly the adlen parameter and the message
       length plus the size of the tag block (push: mlen + 64; pull: inlen - ABYTES + 64) - also when the absorbing steps are
       factored into helpers that return byte counts (inlined).
  R9.6 the whole header is in the state: when init_push / init_pull return, the key bytes were last written by
       crypto_core_hchacha20(state->k, header, k) (which reads header[0..16)) and the inonce region of the nonce is a verbatim
       copy of header[16..24) - byte provenance of the final state (last writer per byte; copies through loops and memcpy are
       tracked with their offset). A reset that runs after the copy wipes it, and the last 8 header bytes are unauthenticated.
  R9.7 rekey transforms (k || inonce): the 40 bytes handed to ChaCha20 are state bytes [0, 32) followed by the inonce region (not
       the counter), and the result is written back to the same two regions.
  R9.8 the zero padding of the Poly1305 transcript has the documented lengths: after the associated data (-adlen) mod 16 bytes, after the
       ciphertext (mlen - 48) mod 16 = mlen mod 16 bytes - the historical quirk that defines the wire format. Both are `x & 15`
       with x affine in the length parameter; the coefficient and the constant are compared modulo 16 (so any algebraically
       equivalent spelling passes, a "fixed" (-(64 + mlen)) mod 16 does not).
  R9.3 short input rejected, *mlen_p == 0 on failure (instances of R2.3 / R2.4).
NOT decided: history-level delivery/ordering, behaviour at counter wrap as arithmetic, interop bytes.
"""
from .. import terms as T
from ..build import AnalysisBroken
from ..terms import C
from . import common as cm

PFX = "crypto_secretstream_xchacha20poly1305_"


def state_writers(prog, p, root, start=0):
    out = []
    for e in p.events[start:]:
        if e.kind in ("store", "call") and cm.writes_through(prog, p, e, root):
            out.append(e)
    return out


ALSO_PORTABLE = True


def run(ctx, chk):
    prog = ctx.prog()
    chk.configs.append("native -O0+mem2reg")
    chk.explanation = (
        "Path-sensitive analysis (E1) of crypto_secretstream_xchacha20poly1305_pull/push/init_*: "
        "(R9.1) on every failing exit of pull there is no store or writer call through the state "
        "parameter, and every state or plaintext write is preceded by the passed 16-byte MAC "
        "comparison; (R9.2, E7 sibling agreement) the post-MAC state update (nonce XOR, counter "
        "increment, rekey condition incl. the counter-wrap arm, rekey call) and the Poly1305 "
        "transcript have identical role-normalised effect signatures in push and pull, and "
        "init_push/init_pull agree; (R9.3) short input is refused and *mlen_p is 0 on failure.")
    chk.not_decided = ("delivery/ordering over whole histories, the arithmetic of counter wrap, and "
                       "byte-level interoperability are behavioural and not decided statically.")
    chk.assumptions += ["parameter positions of the public push/pull/init prototypes are the ABI roles",
                        "writer summaries over-approximate which arguments a callee may write"]
    pull = prog.need(PFX + "pull", rule="R9.1")
    push = prog.need(PFX + "push", rule="R9.2")
    ipush = prog.need(PFX + "init_push", rule="R9.2")
    ipull = prog.need(PFX + "init_pull", rule="R9.2")
    # small static helpers defined in the same file are inlined (E1 on the synthetic function), so factoring the common tail
    # of push / pull into a helper leaves every rule below looking at the same events
    from .. import inline
    pull, push = inline.inlined(prog, pull), inline.inlined(prog, push)
    ipush, ipull = inline.inlined(prog, ipush), inline.inlined(prog, ipull)
    ST = ("arg", 0)
    macbytes = prog.K("crypto_onetimeauth_poly1305_BYTES")

    # ---- R9.1 -----------------------------------------------------------------------------
    from . import c02
    auth = c02.Auth(prog, chk)
    ps = cm.paths(prog, pull)
    nfail = nwr = 0
    for p in ps:
        if p.kind != "ret":
            continue
        # index of the event that establishes authentication on this path (comparator, or a helper shown
        # to return "match" only after one: shared with C02)
        cmp_idx = None
        for conj in ([[]] if not p.may_return_zero() else (cm.success_conjunctions(p) or [[]])):
            w = auth.witness(pull, p, conj)
            if w is not None and (macbytes in w[1]):
                cmp_idx = w[3].idx
                break
        wr = state_writers(prog, p, ST)
        mwr = state_writers(prog, p, ("arg", 1))
        if p.may_return_nonzero():
            nfail += 1
            chk.ob("R9.1", pull, "failing exit: no write through `state` on the path", not wr,
                   loc=pull.loc(wr[0].iid) if wr else pull.loc(p.end_iid),
                   detail="state may be written at %s before the failing return" % pull.loc(wr[0].iid) if wr else "",
                   path=p if wr else None, key="R9.1 %s state-write-on-failure" % pull.name)
        for e in wr + mwr:
            nwr += 1
            ok = cmp_idx is not None and cmp_idx < e.idx
            chk.ob("R9.1-order", pull, "write to %s at %s is preceded by the passed MAC comparison"
                   % ("state" if e in wr else "m", pull.loc(e.iid)), ok, loc=pull.loc(e.iid),
                   path=None if ok else p, key="R9.1-order %s" % pull.name)
    chk.floor("R9.1", "failing exits of pull", nfail, 3)
    chk.floor("R9.1-order", "state/plaintext write events on pull paths", nwr, 10)

    # positive fixture for the zero-expected rule: push DOES write the state after finalising;
    # the same detector must see those writes
    wpush = sum(len(state_writers(prog, p, ST)) for p in cm.paths(prog, push))
    chk.floor("R9.1", "fixture: state writes detected in push (detector is live)", wpush, 4)

    # ---- R9.2 state-update agreement ----------------------------------------------------------
    def post_final_signature(fn, roles, tag_term_of, mlen_rewrite):
        sigs = {}
        trans = {}
        for p in cm.paths(prog, fn):
            if not (p.kind == "ret" and p.may_return_zero()):
                continue
            fin = [e for e in p.calls("crypto_onetimeauth_poly1305_final")]
            if len(fin) != 1:
                raise AnalysisBroken("R9.2: expected exactly one Poly1305 finalisation on a success path of %s" % fn.name)
            rew = dict(mlen_rewrite)
            tt = tag_term_of(p)
            if tt is not None:
                rew[tt] = "TAG"
            # the MAC object: second argument of the finaliser
            rew[fin[0].args[1]] = "MAC"
            sh = cm.Shaper(prog, p, roles, rew)
            first_sw = next((e.idx for e in p.events[fin[0].idx + 1:]
                             if e.kind in ("call", "store") and cm.writes_through(prog, p, e, ST)), 1 << 30)
            sig = []
            for e in p.events[fin[0].idx + 1:]:
                if e.kind == "fact":
                    lv = T.leaves(e.term)
                    # pointer-NULL tests of optional out-parameters and the MAC comparison itself differ
                    # by design between the two directions; everything else is the rekey condition
                    if e.term[0] == "icmp" and e.term[2][0] == "arg" and e.term[3] == C(0, 64):
                        continue
                    if e.idx < first_sw:
                        continue        # the authentication decision (comparator or helper) precedes the state update
                    sig.append(sh.event(e))
                elif e.kind in ("call", "store") and cm.writes_through(prog, p, e, ST):
                    sig.append(sh.event(e))
                elif e.kind == "call" and e.callee_name() in ("sodium_is_zero",):
                    sig.append(sh.event(e))
            sigs.setdefault(tuple(sig), p)
            tr = []
            for e in p.events[:fin[0].idx + 1]:
                if e.kind == "call" and (e.callee_name() or "").startswith("crypto_onetimeauth_poly1305_"):
                    ev = sh.event(e)
                    # first argument is the local Poly1305 state in both
                    tr.append((ev[1],) + tuple(ev[2][1:]))
            trans.setdefault(tuple(tr), p)
        return sigs, trans

    def pull_tag(p):
        last = None
        for e in p.events:
            if e.kind == "store" and e.addr == ("arg", 3):
                last = e
        return last.val if last is not None and last.val[0] != "c" else None

    abytes = prog.K(PFX + "ABYTES")
    roles_push = {0: "ST", 1: "OUT", 3: "M", 4: "MLEN", 5: "AD", 6: "ADLEN", 7: "TAG"}
    roles_pull = {0: "ST", 4: "OUT", 1: "M", 6: "AD", 7: "ADLEN"}
    s_push, t_push = post_final_signature(push, roles_push, lambda p: None, {})
    s_pull, t_pull = post_final_signature(
        pull, roles_pull, pull_tag, {("bin", "sub", ("arg", 5), C(abytes, 64), 64): "MLEN"})
    # success paths of pull where tag_p == NULL have no store to learn the tag term from: their
    # rekey-condition leaf is rewritten through the paths that do have one (same SSA value)
    tagterms = set()
    for p in cm.paths(prog, pull):
        t = pull_tag(p) if p.kind == "ret" else None
        if t is not None:
            tagterms.add(t)
    if len(tagterms) != 1:
        raise AnalysisBroken("R9.2: cannot identify the decoded tag value in pull (%d candidates)" % len(tagterms))
    tagterm = next(iter(tagterms))
    s_pull, t_pull = post_final_signature(
        pull, roles_pull, lambda p: tagterm, {("bin", "sub", ("arg", 5), C(abytes, 64), 64): "MLEN"})

    chk.floor("R9.2", "distinct post-MAC state-update signatures of push", len(s_push), 3)
    only_push = set(s_push) - set(s_pull)
    only_pull = set(s_pull) - set(s_push)
    chk.ob("R9.2", push, "every post-MAC state-update signature of push (%d) also occurs in pull" % len(s_push),
           not only_push, detail="" if not only_push else "push-only: %s" % (sorted(map(str, only_push))[0][:900]),
           path=s_push[next(iter(only_push))] if only_push else None, key="R9.2 push-only-state-update")
    chk.ob("R9.2", pull, "every post-MAC state-update signature of pull (%d) also occurs in push" % len(s_pull),
           not only_pull, detail="" if not only_pull else "pull-only: %s" % (sorted(map(str, only_pull))[0][:900]),
           path=s_pull[next(iter(only_pull))] if only_pull else None, key="R9.2 pull-only-state-update")
    # the rekey condition must mention both the REKEY tag bit and the wrapped counter
    for fn, sigs in ((push, s_push), (pull, s_pull)):
        txt = " ".join(str(s) for s in sigs)
        has_tag = "'TAG'" in txt and "('c', %d)" % prog.K(PFX + "TAG_REKEY") in txt
        has_wrap = "sodium_is_zero" in txt
        has_rekey = PFX + "rekey" in txt
        chk.ob("R9.2-rekey", fn, "rekey is conditioned on (tag & TAG_REKEY) and on the counter having wrapped to zero",
               has_tag and has_wrap and has_rekey,
               detail="tag-bit test %s, counter-zero test %s, rekey call %s" % (has_tag, has_wrap, has_rekey),
               key="R9.2-rekey %s" % fn.name)

    # the documented construction increments the counter first and derives the next key from the *incremented* nonce:
    # on every success path a rekey in the post-MAC tail is preceded by the counter increment
    nrk = 0
    for fn in (push, pull):
        for p in cm.paths(prog, fn):
            if not (p.kind == "ret" and p.may_return_zero()):
                continue
            fin = [e for e in p.calls("crypto_onetimeauth_poly1305_final")]
            if not fin:
                continue
            for rk in [e for e in p.calls(PFX + "rekey") if e.idx > fin[0].idx]:
                nrk += 1
                inc = [e for e in p.calls("sodium_increment") if fin[0].idx < e.idx < rk.idx and T.root(e.args[0]) == ST]
                chk.ob("R9.2-order", fn, "the counter is incremented before the state is rekeyed", bool(inc), loc=fn.loc(rk.iid),
                       detail="" if inc else "rekey() derives the next key from the nonce (counter || inonce): without the increment it uses "
                       "the counter of the chunk just processed, not the documented next one", path=None if inc else p,
                       key="R9.2-order %s" % fn.sname)
    chk.floor("R9.2-order", "rekeying success paths of push / pull", nrk, 4)

    # transcript agreement
    chk.floor("R9.2", "Poly1305 transcript variants of push", len(t_push), 1)
    chk.ob("R9.2-transcript", pull, "push and pull feed the same role-normalised Poly1305 transcript",
           set(t_push) == set(t_pull),
           detail="" if set(t_push) == set(t_pull) else "push: %s | pull: %s" % (
               sorted(map(str, set(t_push) - set(t_pull)))[:1], sorted(map(str, set(t_pull) - set(t_push)))[:1]),
           key="R9.2-transcript push/pull")

    # init agreement: init_push and init_pull leave the same state - compared as final byte provenance (which byte of the header /
    # which constant / the output of which call each state byte holds when the function returns), not as event order
    from .. import hazard as _hz
    hz_init = _hz.Hazards(ctx, prog)

    def init_sig(fn):
        out = set()
        for p in cm.paths(prog, fn):
            if p.kind != "ret":
                continue
            fin = byte_prov(prog, hz_init, p, ST, 0, 52)
            row = []
            for b_ in fin:
                if isinstance(b_, tuple) and b_[0] == "cp":
                    r = b_[1]
                    row.append(("cp", {0: "ST", 1: "HDR", 2: "K"}.get(r[1], "P%d" % r[1]) if r[0] == "arg" else r[0], b_[2]))
                elif isinstance(b_, tuple) and b_[0] == "w":
                    e = p.events[b_[1]]
                    sh = cm.Shaper(prog, p, {0: "ST", 1: "HDR", 2: "K"})
                    row.append(("w", e.callee_name(), tuple(str(sh.ptr(a)) if isinstance(a, tuple) and a[0] in ("gep", "arg", "alloca") else "*"
                                                            for a in e.args)))
                else:
                    row.append(b_)
            out.add(tuple(row))
        return out
    a, b = init_sig(ipush), init_sig(ipull)
    chk.ob("R9.2-init", ipull, "init_push and init_pull leave the same state (byte provenance at exit)", a == b and all(a),
           detail="" if a == b else "init_push: %s | init_pull: %s" % (sorted(map(str, a - b))[:1], sorted(map(str, b - a))[:1]),
           key="R9.2-init init_push/init_pull")

    # ---- R9.3 ------------------------------------------------------------------------------------
    n = 0
    for p in ps:
        if p.kind != "ret":
            continue
        # mlen = inlen - ABYTES is only formed after inlen >= ABYTES
        for e in p.events:
            if e.kind == "call":
                for a in e.args:
                    for st in T.subterms(a):
                        if st[0] == "bin" and st[1] == "sub" and st[2] == ("arg", 5) and st[3][0] == "c":
                            n += 1
                            ok = p.facts_before(e.idx).truth(T.mk_icmp("uge", st[2], st[3])) is True
                            chk.ob("R9.3", pull, "inlen - %d is used only after inlen >= %d was established" % (st[3][1], st[3][1]),
                                   ok, loc=pull.loc(e.iid), path=None if ok else p, key="R9.3 %s short-input" % pull.name)
        if p.may_return_nonzero():
            last = None
            for e in p.events:
                if e.kind == "store" and e.addr == ("arg", 2):
                    last = e
            ok = (last is not None and last.val == C(0, 64)) or p.facts.zeroness(("arg", 2)) == "Z"
            chk.ob("R9.3", pull, "failing exit: *mlen_p == 0 (or mlen_p NULL)", ok, loc=pull.loc(p.end_iid),
                   path=None if ok else p, key="R9.3 %s mlen_p" % pull.name)
    chk.floor("R9.3", "uses of inlen - ABYTES on pull paths", n, 10)
    counter_reset_rule(ctx, prog, chk, push)
    length_block_rule(prog, chk, push, pull)
    layout_rule(ctx, prog, chk, push)
    pad_rule(prog, chk, push, pull)


def region_final(prog, hz, p, root, lo, hi):
    """content of bytes [lo, hi) of the object `root` at the end of path p: per byte a constant, "old" (never written on the
    path) or "unk" (last written with data that is not a known constant)"""
    M = 1 << 62
    cur = ["old"] * (hi - lo)

    def span(addr, size):
        co, c = T.linear(addr)
        if co.get(root, 0) != 1:
            return None
        a = b = c
        for atom, n in co.items():
            if atom == root:
                continue
            iv = p.facts.interval(atom)
            if iv is None or iv[1] > M:
                return (0, M)
            a += min(n * iv[0], n * iv[1])
            b += max(n * iv[0], n * iv[1])
        return (a, b + size)

    def put(a, b, v, exact):
        for k in range(max(a, lo), min(b, hi)):
            if exact:
                cur[k - lo] = v
            elif cur[k - lo] != v:
                cur[k - lo] = "unk"
    for e in p.events:
        if e.kind == "store":
            if T.root(e.addr) != root:
                continue
            sp = span(e.addr, e.size)
            if sp is None:
                continue
            exact = sp[1] - sp[0] == e.size
            if e.val[0] == "c" and e.size == 1:
                put(sp[0], sp[1], e.val[1] & 0xff, exact)
            elif e.val[0] == "c" and exact:
                for k in range(e.size):
                    put(sp[0] + k, sp[0] + k + 1, (e.val[1] >> (8 * k)) & 0xff, True)
            else:
                put(sp[0], sp[1], "unk", exact)
        elif e.kind == "call":
            nm = e.callee_name() or ""
            for k, a in enumerate(e.args or ()):
                if not (isinstance(a, tuple) and T.root(a) == root):
                    continue
                if nm in ("memset", "llvm.memset") or nm.startswith("llvm.memset"):
                    if k != 0:
                        continue
                    n = e.args[2]
                    sp = span(a, n[1] if n[0] == "c" else M)
                    if sp is None:
                        continue
                    v = e.args[1][1] & 0xff if e.args[1][0] == "c" else "unk"
                    put(sp[0], sp[1], v, n[0] == "c" and sp[1] - sp[0] == n[1])
                    continue
                if nm in ("store32_le", "store64_le", "store32_be", "store64_be") and k == 0:
                    width = 4 if "32" in nm else 8
                    sp = span(a, width)
                    v = e.args[1]
                    if sp is not None:
                        exact = sp[1] - sp[0] == width
                        if v[0] == "c" and exact:
                            bs = [(v[1] >> (8 * j)) & 0xff for j in range(width)]
                            if nm.endswith("_be"):
                                bs.reverse()
                            for j, b in enumerate(bs):
                                put(sp[0] + j, sp[0] + j + 1, b, True)
                        else:
                            put(sp[0], sp[1], "unk", exact)
                    continue
                if nm == "sodium_memzero" and k == 0:
                    n = e.args[1]
                    sp = span(a, n[1] if n[0] == "c" else M)
                    if sp is not None:
                        put(sp[0], sp[1], 0, n[0] == "c" and sp[1] - sp[0] == n[1])
                    continue
                if nm.startswith(("memcpy", "memmove", "llvm.memcpy", "llvm.memmove")):
                    if k != 0:
                        continue
                    n = e.args[2]
                    sp = span(a, n[1] if n[0] == "c" else M)
                    if sp is not None:
                        put(sp[0], sp[1], "unk", n[0] == "c" and sp[1] - sp[0] == n[1])
                    continue
                if not cm.writes_through(prog, p, e, root):
                    continue
                ext = None
                if e.callee[0] == "fn":
                    ext = hz.callee_extent(e.callee[1], k, "store")
                sp0 = span(a, 0)
                if sp0 is None:
                    continue
                if ext is None:
                    put(sp0[0], M, "unk", False)
                else:
                    put(sp0[0] + ext[0], sp0[1] + ext[1], "unk", sp0[0] == sp0[1])
    return cur


def counter_reset_rule(ctx, prog, chk, push):
    from .. import hazard, inline
    hz = hazard.Hazards(ctx, prog)
    ST = ("arg", 0)
    # the counter is the region the wrap test reads
    region = set()
    for p in cm.paths(prog, push):
        for e in p.calls("sodium_is_zero"):
            if T.root(e.args[0]) == ST and e.args[1][0] == "c":
                co, c = T.linear(e.args[0])
                if co == {ST: 1}:
                    region.add((c, c + e.args[1][1]))
    if len(region) != 1:
        raise AnalysisBroken("R9.4: the counter-wrap test sodium_is_zero(state + off, n) of push was found %d times with different regions" % len(region))
    lo, hi = region.pop()
    n = 0
    for name in ("rekey", "init_push", "init_pull"):
        fn = inline.inlined(prog, prog.need(PFX + name, rule="R9.4"))
        for p in cm.paths(prog, fn):
            if p.kind != "ret":
                continue
            n += 1
            fin = region_final(prog, hz, p, ST, lo, hi)
            want = [1] + [0] * (hi - lo - 1)
            ok = fin == want
            chk.ob("R9.4", fn, "the chunk counter state[%d..%d) is the constant 1 (little endian) when %s returns" % (lo, hi, name), ok,
                   loc=fn.loc(p.end_iid), path=None if ok else p,
                   detail="" if ok else "counter bytes at exit: %s (old = value from before the call survives, unk = not a constant)" %
                   " ".join("%02x" % b if isinstance(b, int) else b for b in fin), key="R9.4 %s counter" % name)
    chk.floor("R9.4", "returning paths of rekey / init_push / init_pull", n, 3)


def length_block_rule(prog, chk, push, pull):
    """R9.5: LE64(adlen) || LE64(sizeof block + mlen) with the caller's lengths"""
    ab = prog.K("crypto_secretstream_xchacha20poly1305_ABYTES")
    n = 0
    for fn, mname, mconst in ((push, "mlen", 64), (pull, "inlen", 64 - ab)):
        ADLEN = ("arg", fn.param_index("adlen"))
        MLEN = ("arg", fn.param_index(mname))
        if ADLEN[1] is None or MLEN[1] is None:
            raise AnalysisBroken("R9.5: %s has no parameters named adlen / %s" % (fn.sname, mname))
        for p in cm.paths(prog, fn):
            if p.kind != "ret" or not p.may_return_zero():
                continue
            fin = [e for e in p.calls("crypto_onetimeauth_poly1305_final")]
            if not fin:
                continue
            vals = []
            for e in p.calls("crypto_onetimeauth_poly1305_update"):
                if e.idx > fin[0].idx or len(e.args) < 3 or not (e.args[2][0] == "c" and e.args[2][1] == 8):
                    continue
                buf = e.args[1]
                if T.root(buf)[0] != "alloca":
                    continue
                w = [x for x in p.events[:e.idx] if x.kind == "call" and (x.callee_name() or "").startswith(("store64_le", "memcpy", "llvm.memcpy"))
                     and x.args and x.args[0] == buf]
                if not w:
                    w = [x for x in p.events[:e.idx] if x.kind == "store" and x.addr == buf and x.size == 8]
                    vals.append((e, w[-1].val if w else None))
                else:
                    vals.append((e, w[-1].args[1] if (w[-1].callee_name() or "").startswith("store64_le") else None))
            n += 1
            ok = len(vals) == 2 and vals[0][1] is not None and vals[1][1] is not None and \
                T.linear(vals[0][1]) == ({ADLEN: 1}, 0) and T.linear(vals[1][1]) == ({MLEN: 1}, mconst)
            chk.ob("R9.5", fn, "the MAC covers LE64(adlen) || LE64(64 + message length) of the caller's lengths", ok,
                   loc=fn.loc(vals[0][0].iid) if vals else fn.loc(fin[0].iid), path=None if ok else p,
                   detail="" if ok else "length block values on this path: %s" %
                   ", ".join(T.show(v, fn) if v is not None else "?" for _e, v in vals), key="R9.5 %s length-block" % fn.sname)
    chk.floor("R9.5", "authenticating success paths of push / pull", n, 4)


M = 1 << 62

def byte_prov(prog, hz, p, root, lo, hi, upto=None):
    """provenance of bytes [lo, hi) of object `root` after the events p.events[:upto]: per byte an int (constant), "old",
    "unk", or ("cp", source root, source offset) for a verbatim copy of another object's byte"""
    cur = ["old"] * (hi - lo)
    evs = p.events if upto is None else p.events[:upto]

    def lin_span(addr, size):
        co, c = T.linear(addr)
        if co.get(root, 0) != 1:
            return None
        a = b = c
        var = {}
        for atom, n in co.items():
            if atom == root:
                continue
            iv = p.facts.interval(atom)
            if iv is None or iv[1] > M:
                return (0, M, None)
            a += min(n * iv[0], n * iv[1])
            b += max(n * iv[0], n * iv[1])
            var[atom] = n
        return (a, b + size, var)

    def put(a, b, f, exact):
        for k in range(max(a, lo), min(b, hi)):
            v = f(k)
            if exact:
                cur[k - lo] = v
            elif cur[k - lo] != v:
                cur[k - lo] = "unk"
    load_addr = {e.res: e.addr for e in evs if e.kind == "load" and e.res is not None}
    for e in evs:
        if e.kind == "store":
            if T.root(e.addr) != root:
                continue
            sp = lin_span(e.addr, e.size)
            if sp is None:
                continue
            a, b, var = sp
            val = e.val
            while val[0] == "cast":
                val = val[2]
            if val[0] == "c" and e.size == 1:
                put(a, b, lambda k, v=val[1] & 0xff: v, b - a == e.size)
            elif val in load_addr and e.size == 1 and var is not None:
                # byte copy dst[c1 + i] = src[c2 + i]: same loop atoms with the same coefficients
                sco, sc = T.linear(load_addr[val])
                sroot = T.root(load_addr[val])
                svar = {at: n for at, n in sco.items() if at != sroot}
                dco, dc = T.linear(e.addr)
                if sco.get(sroot) == 1 and svar == var:
                    delta = sc - dc
                    put(a, b, lambda k, r=sroot, d=delta: ("cp", r, k + d), True)
                else:
                    put(a, b, lambda k: "unk", b - a == e.size)
            else:
                put(a, b, lambda k: "unk", b - a == e.size)
        elif e.kind == "call":
            nm = e.callee_name() or ""
            for k_, a_ in enumerate(e.args or ()):
                if not (isinstance(a_, tuple) and T.root(a_) == root):
                    continue
                if nm.startswith(("memset", "llvm.memset")) and k_ == 0:
                    n = e.args[2]
                    sp = lin_span(a_, n[1] if n[0] == "c" else M)
                    if sp is None:
                        continue
                    v = e.args[1][1] & 0xff if e.args[1][0] == "c" else "unk"
                    put(sp[0], sp[1], lambda k, v=v: v, n[0] == "c" and sp[1] - sp[0] == n[1])
                elif nm == "sodium_memzero" and k_ == 0:
                    n = e.args[1]
                    sp = lin_span(a_, n[1] if n[0] == "c" else M)
                    if sp is not None:
                        put(sp[0], sp[1], lambda k: 0, n[0] == "c" and sp[1] - sp[0] == n[1])
                elif nm.startswith(("memcpy", "memmove", "llvm.memcpy", "llvm.memmove")):
                    if k_ != 0:
                        continue
                    n = e.args[2]
                    sp = lin_span(a_, n[1] if n[0] == "c" else M)
                    if sp is None:
                        continue
                    exact = n[0] == "c" and sp[1] - sp[0] == n[1]
                    sco, sc = T.linear(e.args[1])
                    sroot = T.root(e.args[1])
                    if exact and sco == {sroot: 1}:
                        put(sp[0], sp[1], lambda k, r=sroot, d=sc - sp[0]: ("cp", r, k + d), True)
                    else:
                        put(sp[0], sp[1], lambda k: "unk", exact)
                elif nm in ("store32_le", "store64_le", "store32_be", "store64_be") and k_ == 0:
                    width = 4 if "32" in nm else 8
                    sp = lin_span(a_, width)
                    if sp is not None:
                        v = e.args[1]
                        if v[0] == "c" and sp[1] - sp[0] == width:
                            bs = [(v[1] >> (8 * j)) & 0xff for j in range(width)]
                            if nm.endswith("_be"):
                                bs.reverse()
                            put(sp[0], sp[1], lambda k, bs=bs, a0=sp[0]: bs[k - a0], True)
                        else:
                            put(sp[0], sp[1], lambda k: "unk", sp[1] - sp[0] == width)
                else:
                    if not cm.writes_through(prog, p, e, root):
                        continue
                    ext = hz.callee_extent(e.callee[1], k_, "store") if e.callee[0] == "fn" else None
                    sp0 = lin_span(a_, 0)
                    if sp0 is None:
                        continue
                    tag = ("w", e.idx)
                    if ext is None:
                        put(sp0[0], M, lambda k: "unk", False)
                    else:
                        put(sp0[0] + ext[0], sp0[1] + ext[1], lambda k, t=tag: t, sp0[0] == sp0[1])
    return cur


def layout_rule(ctx, prog, chk, push):
    """R9.6 / R9.7: byte provenance of the state after init and around the rekey transform"""
    from .. import hazard, inline
    hz = hazard.Hazards(ctx, prog)
    ST = ("arg", 0)
    region = set()
    for p in cm.paths(prog, push):
        for e in p.calls("sodium_is_zero"):
            if T.root(e.args[0]) == ST and e.args[1][0] == "c":
                co, c = T.linear(e.args[0])
                if co == {ST: 1}:
                    region.add((c, c + e.args[1][1]))
    if len(region) != 1:
        raise AnalysisBroken("R9.6: counter region not identified")
    clo, chi = region.pop()
    KB = prog.K("crypto_stream_chacha20_ietf_KEYBYTES")
    HB = prog.K("crypto_secretstream_xchacha20poly1305_HEADERBYTES")
    HIN = prog.K("crypto_core_hchacha20_INPUTBYTES")
    inlo, inhi = chi, chi + (HB - HIN)
    n = 0
    for name in ("init_push", "init_pull"):
        fn = inline.inlined(prog, prog.need(PFX + name, rule="R9.6"))
        HDR = ("arg", 1)
        for p in cm.paths(prog, fn):
            if p.kind != "ret":
                continue
            n += 1
            fin = byte_prov(prog, hz, p, ST, 0, inhi)
            kw = {b for b in fin[:KB]}
            hc = [e for e in p.calls("crypto_core_hchacha20")]
            ok_k = len(kw) == 1 and isinstance(fin[0], tuple) and fin[0][0] == "w" and bool(hc) and fin[0][1] == hc[-1].idx and \
                hc[-1].args[1] == HDR and T.linear(hc[-1].args[0]) == ({ST: 1}, 0)
            ok_n = all(fin[inlo + j] == ("cp", HDR, HIN + j) for j in range(inhi - inlo))
            chk.ob("R9.6", fn, "the state depends on the whole header: k = HChaCha20(key, header[0..%d)), inonce = header[%d..%d)" % (HIN, HIN, HB),
                   ok_k and ok_n, loc=fn.loc(p.end_iid), path=None if ok_k and ok_n else p,
                   detail="" if ok_k and ok_n else "at exit the inonce bytes are %s%s" %
                   (" ".join("%02x" % b if isinstance(b, int) else (b if isinstance(b, str) else "%s[%s]" % (T.show(b[1], fn) if b[0] == "cp" else "call", b[2] if b[0] == "cp" else b[1]))
                             for b in fin[inlo:inhi]), "" if ok_k else "; the key is not the output of crypto_core_hchacha20(state->k, header, k)"),
                   key="R9.6 %s header" % name)
    chk.floor("R9.6", "returning paths of init_push / init_pull", n, 2)
    rk = inline.inlined(prog, prog.need(PFX + "rekey", rule="R9.7"))
    n7 = 0
    for p in cm.paths(prog, rk):
        if p.kind != "ret":
            continue
        xs = [e for e in p.calls("crypto_stream_chacha20_ietf_xor")]
        if len(xs) != 1:
            chk.ob("R9.7", rk, "rekey runs one ChaCha20 transform", False, loc=rk.loc(p.end_iid), path=p, key="R9.7 rekey transform")
            continue
        x = xs[0]
        buf = T.root(x.args[0])
        n7 += 1
        want_in = [("cp", ST, j) for j in range(KB)] + [("cp", ST, inlo + j) for j in range(inhi - inlo)]
        ln = KB + inhi - inlo
        got_in = byte_prov(prog, hz, p, buf, 0, ln, upto=x.idx) if buf[0] == "alloca" else None
        ok_in = got_in == want_in and x.args[0] == x.args[1] and x.args[2] == C(ln, 64)
        fin = byte_prov(prog, hz, p, ST, 0, inhi)
        ok_out = all(fin[j] == ("cp", buf, j) for j in range(KB)) and all(fin[inlo + j] == ("cp", buf, KB + j) for j in range(inhi - inlo))
        chk.ob("R9.7", rk, "rekey encrypts k || inonce (state[0..%d) || state[%d..%d)) in place and writes both back" % (KB, inlo, inhi),
               ok_in and ok_out, loc=rk.loc(x.iid), path=None if ok_in and ok_out else p,
               detail="" if ok_in and ok_out else ("transform input bytes %d..%d come from %s" %
               (KB, ln, " ".join("state[%s]" % b[2] if isinstance(b, tuple) and b[0] == "cp" and b[1] == ST else str(b) for b in (got_in or [])[KB:ln]))
                                                    if not ok_in else "the transformed bytes are not what the key / inonce regions hold at exit"),
               key="R9.7 rekey layout")
    chk.floor("R9.7", "returning paths of rekey", n7, 1)


def pad_rule(prog, chk, push, pull):
    ab = prog.K("crypto_secretstream_xchacha20poly1305_ABYTES")
    n = 0
    for fn, mname, mconst in ((push, "mlen", 0), (pull, "inlen", -ab)):
        ADLEN = ("arg", fn.param_index("adlen"))
        MLEN = ("arg", fn.param_index(mname))
        for p in cm.paths(prog, fn):
            if p.kind != "ret" or not p.may_return_zero():
                continue
            pads = [e for e in p.calls("crypto_onetimeauth_poly1305_update") if len(e.args) >= 3 and T.root(e.args[1])[0] == "g"]
            if len(pads) != 2:
                continue
            n += 1
            why = []
            for e, var, coef, const, what in ((pads[0], ADLEN, -1, 0, "after the associated data"), (pads[1], MLEN, 1, mconst, "after the ciphertext")):
                L = e.args[2]
                while L[0] == "cast":
                    L = L[2]
                if not (L[0] == "bin" and L[1] == "and" and (L[3] == C(15, 64) or L[2] == C(15, 64) or
                                                             (L[3][0] == "c" and L[3][1] == 15) or (L[2][0] == "c" and L[2][1] == 15))):
                    why.append("padding %s is not of the form x & 15" % what)
                    continue
                X = L[2] if L[3][0] == "c" else L[3]
                co, k = T.linear(X)
                if set(co) != {var} or co[var] % 16 != coef % 16 or k % 16 != const % 16:
                    why.append("padding %s is (%s) & 15: documented is (%d * %s %+d) mod 16" %
                               (what, T.show(X, fn), coef, fn.params[var[1]]["name"], const))
            chk.ob("R9.8", fn, "transcript padding: (-adlen) mod 16 zero bytes after the AD, (mlen - 48) mod 16 after the ciphertext", not why,
                   loc=fn.loc(pads[1].iid), path=None if not why else p, detail="; ".join(why), key="R9.8 %s padding" % fn.sname)
    chk.floor("R9.8", "authenticating success paths of push / pull with both paddings", n, 4)
