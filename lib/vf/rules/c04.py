"""C04 — hashes / MACs / KDFs: out-of-range lengths refused; verify == full comparison.

Decided clauses:
  R4.1 range refusal: every success exit (and every hand-over to the BLAKE2b / HMAC core) of the
       generic-hash, BLAKE2b, KDF and HKDF entry points has its length parameters inside the
       [MIN, MAX] constants of the public header.
  R4.2 verify functions return 0 only if a full-length constant-time comparison of the caller's
       tag with the tag just recomputed by the one-shot MAC over the same (in, inlen, key)
       returned 0.
  R4.4 (E12 known-bits, contradiction rule) carry chains are not cut: in the Poly1305 units no right
       shift / mask of a non-literal value is identically zero - a limb that is masked to k bits
       before `>> k` reads its carry makes the final reduction dead code.
  R4.5 branch-free selects `x ^ ((x ^ y) & mask)` in the Poly1305 units choose between the two values they
       mix (the final "h or h - p" selection limb by limb).
  R4.6 (E13, peeled paths) in the hash / MAC / KDF units no store is overwritten before it can be read: in
       padding and finalisation code every stored byte is part of the padded block (the 0x01 terminator of
       the last Poly1305 block, the 0x80 of SHA-2, BLAKE2b's zero fill).
  R4.7 the BLAKE2b KDF hands (key, salt = LE64(subkey_id) || 0^8, personal = the caller's 8 context bytes copied
       verbatim || 0^8, outlen = subkey_len, empty message) to the keyed hash.
  R4.8 (E14 lane provenance) the vectorised BLAKE2b compression functions (SSSE3, SSE4.1, AVX2) add the message words the
       sigma table of the reference implementation prescribes: the words of the block that reach each `add` of a round are
       read off the shuffles; round 0 (sigma[0] is the identity) calibrates which sigma position every slot takes, and for
       every round r and slot s the word must be blake2b_sigma[r][position(s)]. Each round therefore uses each of the 16
       words exactly once, in the same places as the portable code.
  R4.9 HMAC key preparation (RFC 2104): in crypto_auth_hmacsha256_init / _hmacsha512_init the block size B is the length of the
       ipad / opad block handed to the hash; the caller's key is hashed first exactly on the paths whose branch facts give
       keylen >= B + 1, and used directly only with keylen <= B (which also bounds the `pad[i] ^= key[i]` loop).
  R4.13 the SipHash absorption loops read every word of the stride they advance by, once.
  R4.12 the two Poly1305 update functions (donna, SSE2) have the same buffering skeleton (E7 sibling agreement).
  R4.11 blake2b_update compresses only under a strict `remaining > K` guard followed by `remaining -= K` (the last block is left
        to *_final).
  R4.10 HKDF-Expand chains each block to its predecessor (RFC 5869: T(i) = HMAC(PRK, T(i-1) || info || i)): wherever a block of the
        output buffer is fed back into the HMAC, its address is the destination of the block being produced minus the hash length -
        in both the full-block loop and the partial tail, for SHA-256 and SHA-512.
NOT decided: digest values, chunking associativity, the values of the Poly1305 carries, HKDF chaining.
"""
from .. import terms as T
from ..build import AnalysisBroken
from ..terms import C
from . import common as cm

P = lambda i: ("param", i)
V = lambda n: ("var", n)


ALSO_PORTABLE = True


def run(ctx, chk):
    prog = ctx.prog()
    K = prog.K
    chk.configs.append("native -O0+mem2reg")
    chk.explanation = ("E1 interval facts at success exits and core hand-overs against the header constants (R4.1); checklist on the MAC "
                       "verify functions: recomputation over the caller's (in, inlen, k) then full-length constant-time comparison (R4.2).")
    chk.notes.append("outlen lower bound is 1 (BLAKE2b's own range, what the API accepts and the suite exercises); "
                     "BYTES_MIN = 16 is the documented *recommended* minimum and is not enforced by design")
    chk.not_decided = "digest/tag values, incremental-vs-one-shot equality and KDF chaining are numeric."
    gh = "crypto_generichash"
    b2 = "crypto_generichash_blake2b"
    rows = [
        (gh, {1: ("outlen", 1, K(gh + "_BYTES_MAX")), 5: ("keylen", 0, K(gh + "_KEYBYTES_MAX"))}, None),
        (gh + "_init", {3: ("outlen", 1, K(gh + "_BYTES_MAX")), 2: ("keylen", 0, K(gh + "_KEYBYTES_MAX"))}, None),
        (b2, {1: ("outlen", 1, K(b2 + "_BYTES_MAX")), 5: ("keylen", 0, K(b2 + "_KEYBYTES_MAX"))}, {"blake2b"}),
        (b2 + "_salt_personal", {1: ("outlen", 1, K(b2 + "_BYTES_MAX")), 5: ("keylen", 0, K(b2 + "_KEYBYTES_MAX"))},
         {"blake2b_salt_personal"}),
        (b2 + "_init", {3: ("outlen", 1, K(b2 + "_BYTES_MAX")), 2: ("keylen", 0, K(b2 + "_KEYBYTES_MAX"))},
         {"blake2b_init", "blake2b_init_key"}),
        (b2 + "_init_salt_personal", {3: ("outlen", 1, K(b2 + "_BYTES_MAX")), 2: ("keylen", 0, K(b2 + "_KEYBYTES_MAX"))},
         {"blake2b_init_salt_personal", "blake2b_init_key_salt_personal"}),
        ("crypto_kdf_blake2b_derive_from_key", {1: ("subkey_len", K("crypto_kdf_blake2b_BYTES_MIN"), K("crypto_kdf_blake2b_BYTES_MAX"))},
         {b2 + "_salt_personal"}),
        ("crypto_kdf_derive_from_key", {1: ("subkey_len", K("crypto_kdf_BYTES_MIN"), K("crypto_kdf_BYTES_MAX"))}, None),
        ("crypto_kdf_hkdf_sha256_expand", {1: ("out_len", 0, K("crypto_kdf_hkdf_sha256_BYTES_MAX"))}, {"crypto_auth_hmacsha256_init"}),
        ("crypto_kdf_hkdf_sha512_expand", {1: ("out_len", 0, K("crypto_kdf_hkdf_sha512_BYTES_MAX"))}, {"crypto_auth_hmacsha512_init"}),
    ]
    n = cm.limits_rule(chk, "R4.1", prog, rows)
    chk.floor("R4.1", "success exits / core hand-overs checked", n, 20)

    vrows = [
        ("crypto_auth_hmacsha256_verify", "crypto_auth_hmacsha256", "crypto_verify_32"),
        ("crypto_auth_hmacsha512_verify", "crypto_auth_hmacsha512", "crypto_verify_64"),
        ("crypto_auth_hmacsha512256_verify", "crypto_auth_hmacsha512256", "crypto_verify_32"),
        ("crypto_onetimeauth_poly1305_donna_verify", "crypto_onetimeauth_poly1305_donna", "crypto_verify_16"),
        ("crypto_onetimeauth_poly1305_sse2_verify", "crypto_onetimeauth_poly1305_sse2", "crypto_verify_16"),
    ]
    n = 0
    for name, mac, cmpf in vrows:
        if prog.fn(name) is None and chk.relaxed:
            continue        # backend not compiled in this configuration
        fn = prog.need(name, rule="R4.2")
        checks = [(mac, None, {0: V("tag"), 1: P(1), 3: P(3)}), (cmpf, "Z", {0: P(0), 1: V("tag")})]
        for p, conj in cm.exits_returning(prog, fn, "Z"):
            n += 1
            b, missing = cm.find_checks(p, conj, checks)
            ok = b is not None
            detail = ""
            if ok:
                ev_mac, ev_cmp = b["__events__"]
                if not (ev_mac.idx < ev_cmp.idx and ev_mac.args[2] == ("arg", 2) and b["tag"][0] == "alloca"):
                    ok, detail = False, "tag is not recomputed over (in, inlen, k) before the comparison"
            else:
                detail = "missing: " + cm.describe_check(checks[missing], fn)
            chk.ob("R4.2", fn, "accept => %s(h, recomputed tag) == 0 with the tag recomputed over the caller's (in, inlen, k)" % cmpf,
                   ok, loc=fn.loc(p.end_iid), detail=detail, path=None if ok else p, key="R4.2 %s" % name)
    chk.floor("R4.2", "accepting exits of MAC verify functions", n, 5)
    # generic front ends reach only these (through the dispatch slot or directly)
    from . import c02
    auth = c02.Auth(prog, chk)
    for name in ("crypto_auth_verify", "crypto_onetimeauth_verify", "crypto_onetimeauth_poly1305_verify"):
        fn = prog.need(name, rule="R4.2")
        s = auth.summary(fn)
        chk.ob("R4.2w", fn, "front end accepts only through a verified MAC comparison (all dispatch targets)", s["ok"],
               detail="compared lengths %s" % sorted(map(str, s["lens"])), key="R4.2w %s" % name)
    # ---- R4.4 ---------------------------------------------------------------------------------------------------
    from .. import knownbits
    knownbits.dead_carry_rule(prog, chk, "R4.4", ("crypto_onetimeauth/poly1305/",), floor=20)
    # ---- R4.5 ---------------------------------------------------------------------------------------------------
    knownbits.select_idiom_rule(prog, chk, "R4.5", ("crypto_onetimeauth/poly1305/",), floor=3)
    # ---- R4.6 ---------------------------------------------------------------------------------------------------
    from .. import deadstore
    deadstore.dead_store_rule(prog, chk, "R4.6", ("crypto_onetimeauth/", "crypto_auth/", "crypto_hash/", "crypto_generichash/",
                                                  "crypto_shorthash/", "crypto_kdf/"), floor=100)
    # ---- R4.7 KDF: subkey id as salt, context as personalisation ---------------------------------------------------------
    kdf = prog.need("crypto_kdf_blake2b_derive_from_key", rule="R4.7")
    ctxb = K("crypto_kdf_blake2b_CONTEXTBYTES")
    n47 = 0
    COPY = ("memcpy", "llvm.memcpy", "memmove", "llvm.memmove")
    FILL = ("memset", "llvm.memset")
    for p in cm.paths(prog, kdf):
        for e in p.calls("crypto_generichash_blake2b_salt_personal"):
            n47 += 1
            salt, pers = T.root(e.args[6]), T.root(e.args[7])
            why = []
            if not (e.args[0] == ("arg", 0) and e.args[1] == ("arg", 1) and e.args[4] == ("arg", 4) and e.args[5] == C(K("crypto_kdf_blake2b_KEYBYTES"), 64)
                    and e.args[3] == C(0, 64)):
                why.append("output / key / empty-message arguments are not (subkey, subkey_len, NULL, 0, key, KEYBYTES)")

            def writers(root):
                return [w for w in p.events[:e.idx] if w.kind in ("store", "call") and cm.writes_through(prog, p, w, root)]
            # personalisation = the caller's 8 context bytes, verbatim, then zeros
            got_ctx = got_zero = False
            for w in writers(pers):
                nm = (w.callee_name() or "") if w.kind == "call" else ""
                if nm.startswith(COPY) and w.args[0] == e.args[7] and w.args[1] == ("arg", 3) and w.args[2] == C(ctxb, 64):
                    got_ctx = True
                elif nm.startswith(FILL) and w.args[1][0] == "c" and w.args[1][1] == 0:
                    got_zero = True
                elif w.kind == "store" and w.val[0] == "c" and w.val[1] == 0:
                    got_zero = True
                else:
                    why.append("personalisation buffer written by %s at %s (not a byte-exact copy of ctx[0..%d) / zero fill)"
                               % (nm or "a store", kdf.loc(w.iid), ctxb))
            if not (got_ctx and got_zero):
                why.append("personalisation is not memcpy(ctx, %d) followed by zero padding" % ctxb)
            # salt = subkey_id as 8 little-endian bytes, then zeros
            got_id = got_zero = False
            for w in writers(salt):
                nm = (w.callee_name() or "") if w.kind == "call" else ""
                if nm == "store64_le" and w.args[0] == e.args[6] and w.args[1] == ("arg", 2):
                    got_id = True
                elif nm.startswith(COPY) and w.args[0] == e.args[6] and w.args[2] == C(8, 64):
                    got_id = True       # native little-endian: memcpy(salt, &subkey_id, 8)
                elif (nm.startswith(FILL) and w.args[1][0] == "c" and w.args[1][1] == 0) or (w.kind == "store" and w.val[0] == "c" and w.val[1] == 0):
                    got_zero = True
                elif w.kind == "store" and T.linear(w.addr) == ({salt: 1}, 0) and w.val == ("arg", 2):
                    got_id = True
                else:
                    why.append("salt buffer written by %s at %s" % (nm or "a store", kdf.loc(w.iid)))
            if not (got_id and got_zero):
                why.append("salt is not LE64(subkey_id) followed by zero padding")
            chk.ob("R4.7", kdf, "subkey = BLAKE2b(key, salt = LE64(subkey_id) || 0^8, personal = ctx[0..%d) || 0^8, outlen = subkey_len)" % ctxb,
                   not why, loc=kdf.loc(e.iid), detail="; ".join(why), path=p if why else None, key="R4.7 crypto_kdf_blake2b_derive_from_key")
    chk.floor("R4.7", "BLAKE2b hand-overs in crypto_kdf_blake2b_derive_from_key", n47, 1)
    schedule_rule(prog, chk)
    hmac_key_rule(prog, chk)
    hkdf_chain_rule(prog, chk)
    last_block_rule(prog, chk)
    # R4.12: "any split into chunks", on every backend: the buffering logic of the two Poly1305 update functions (portable donna,
    # SSE2) is one algorithm written twice - when to keep bytes, when to absorb the buffer, what remains buffered. Their scalar
    # control skeletons (every branch condition, role-normalised) must be the same set (E7). A condition changed in one of them
    # (returning with a full buffer, absorbing a partial one) changes the tag for some chunkings on that backend only.
    poly1305_sibling_rule(prog, chk)
    stride_tiling_rule(prog, chk)


BLAKE2B_VECTOR = ("blake2b_compress_ssse3", "blake2b_compress_sse41", "blake2b_compress_avx2")


def schedule_rule(prog, chk):
    """R4.8: message schedule of the vector BLAKE2b backends == blake2b_sigma of the portable one"""
    from .. import lanes
    ref = prog.need("blake2b_compress_ref", rule="R4.8")
    g = prog.global_def(ref, "blake2b_sigma")
    if g is None or "init" not in g[1] or g[1]["init"][0] != "agg":
        raise AnalysisBroken("R4.8: constant table blake2b_sigma not found in %s" % ref.unit)
    sigma = [row[1] for row in g[1]["init"][1]]
    if len(sigma) != 12 or any(len(r) != 16 for r in sigma):
        raise AnalysisBroken("R4.8: blake2b_sigma is not 12 x 16")
    chk.ob("R4.8", ref, "sigma[0] is the identity and every row is a permutation of 0..15",
           sigma[0] == list(range(16)) and all(sorted(r) == list(range(16)) for r in sigma), key="R4.8 blake2b_sigma permutations")
    nb = 0
    for name in BLAKE2B_VECTOR:
        fn = prog.fn(name)
        if fn is None:
            continue                      # backend not compiled in this configuration
        bi = fn.param_index("block")
        if bi is None:
            raise AnalysisBroken("R4.8: %s has no parameter named block" % name)
        adds = lanes.message_adds(fn, bi)
        slots = [(i, w) for i, ws in adds for w in ws]
        ok_shape = len(slots) == 12 * 16
        chk.ob("R4.8", fn, "12 rounds x 16 message words are added into the state", ok_shape,
               detail="%d word additions found" % len(slots), key="R4.8 %s shape" % name)
        if not ok_shape:
            continue
        nb += 1
        pos = [w for _i, w in slots[:16]]
        okp = sorted(pos) == list(range(16))
        chk.ob("R4.8", fn, "round 0 uses each message word once (calibration of slot -> sigma position)", okp,
               loc=fn.loc(slots[0][0]), detail="round 0 adds words %s" % pos, key="R4.8 %s round0" % name)
        if not okp:
            continue
        for r in range(12):
            bad = [(s, slots[16 * r + s]) for s in range(16) if slots[16 * r + s][1] != sigma[r][pos[s]]]
            chk.ob("R4.8", fn, "round %d adds m[sigma[%d][k]] in every slot" % (r, r), not bad,
                   loc=fn.loc(bad[0][1][0]) if bad else fn.loc(slots[16 * r][0]),
                   detail="; ".join("slot %d (sigma position %d) adds m[%d], blake2b_sigma[%d][%d] = %d" %
                                    (s, pos[s], w, r, pos[s], sigma[r][pos[s]]) for s, (_i, w) in bad[:4]),
                   key="R4.8 %s round %d" % (name, r))
    if prog.config == "native":
        chk.floor("R4.8", "vector BLAKE2b backends with a recovered message schedule", nb, 3)


def hmac_key_rule(prog, chk):
    """R4.9: a key is hashed iff it is longer than the hash's block size"""
    n = 0
    for name in ("crypto_auth_hmacsha256_init", "crypto_auth_hmacsha512_init"):
        fn = prog.need(name, rule="R4.9")
        KEY, KLEN = ("arg", 1), ("arg", 2)
        for p in cm.paths(prog, fn):
            if p.kind != "ret":
                continue
            ups = [e for e in p.calls() if (e.callee_name() or "").endswith("_update") and len(e.args) >= 3]
            blocks = {e.args[2][1] for e in ups if T.root(e.args[1])[0] == "alloca" and e.args[2][0] == "c"}
            if len(blocks) != 1:
                raise AnalysisBroken("R4.9: %s feeds pad blocks of %s bytes to the hash" % (name, sorted(blocks)))
            B = blocks.pop()
            hashed = [e for e in ups if e.args[1] == KEY]
            iv = p.facts.interval(KLEN) or (0, (1 << 64) - 1)
            n += 1
            if hashed:
                ok = iv[0] == B + 1
                chk.ob("R4.9", fn, "the key is hashed first only when it is longer than the block size (%d)" % B, ok, loc=fn.loc(hashed[0].iid),
                       path=None if ok else p, detail="" if ok else "on this path keylen can be as small as %d: a key of exactly %d bytes is "
                       "replaced by its hash, RFC 2104 uses it as it is" % (iv[0], iv[0]), key="R4.9 %s hashed" % name)
            else:
                ok = iv[1] <= B
                chk.ob("R4.9", fn, "a key used directly is at most one block (%d bytes) long" % B, ok, loc=fn.loc(p.end_iid),
                       path=None if ok else p, detail="" if ok else "keylen may be %d on this path" % iv[1], key="R4.9 %s direct" % name)
    chk.floor("R4.9", "returning paths of the HMAC init functions", n, 4)


def _ptr_key(fn, o, depth=0):
    """structural key of a pointer operand: bitcasts and zero-offset geps looked through, a gep is (base key, index keys)"""
    if o[0] != "v" or depth > 8:
        return tuple(o[:2])
    ins = fn.insts[o[1]]
    if ins["op"] == "bitcast":
        return _ptr_key(fn, ins["ops"][0], depth + 1)
    if ins["op"] == "getelementptr":
        if not ins.get("var") and ins.get("off") == 0:
            return _ptr_key(fn, ins["ops"][0], depth + 1)
        return ("gep", _ptr_key(fn, ins["ops"][0], depth + 1), ins.get("off") if not ins.get("var") else None,
                tuple(tuple(x[:2]) for x in ins["ops"][1:]))
    return tuple(o[:2])


def _phi_is_last_block(fn, call_iid):
    """the data operand of the update call is a loop-carried pointer: every non-null value it can take (through any chain of phis) is,
    structurally, the address a *_final call writes its block to"""
    finals = set()
    for j in fn.insts:
        cal = j.get("callee")
        if j["op"] == "call" and cal and cal[0] == "g" and cal[1].endswith("_final") and len(j["ops"]) >= 2:
            finals.add(_ptr_key(fn, j["ops"][1]))
    leaves, seen, stack = set(), set(), [fn.insts[call_iid]["ops"][1]]
    while stack:
        o = stack.pop()
        while o[0] == "v" and fn.insts[o[1]]["op"] == "bitcast":
            o = fn.insts[o[1]]["ops"][0]
        if o[0] == "v" and fn.insts[o[1]]["op"] == "phi":
            if o[1] in seen:
                continue
            seen.add(o[1])
            stack.extend(v for v, _b in fn.insts[o[1]]["inc"])
        elif o[0] == "null" or (o[0] == "i" and o[1] == 0):
            continue
        else:
            leaves.add(_ptr_key(fn, o))
    return bool(seen) and bool(leaves) and leaves <= finals


def stride_tiling_rule(prog, chk):
    """R4.13 the SipHash absorption loops read every word of the stride they advance by: for a loop-carried input pointer that moves
    by S bytes per iteration, the reads load64_le(p + k) inside the loop tile [0, S) exactly - no offset twice, none missing. (An
    unrolled loop that absorbs one word twice and skips another keeps the output length and the tests for short inputs.)"""
    from ..loopinv import natural_loops
    WIDTH = {"load64_le": 8, "load32_le": 4, "load64_be": 8, "load32_be": 4}
    n = 0
    for f in sorted((g for g in prog.functions() if not g.decl and g.unit.startswith("crypto_shorthash/siphash24/ref/")), key=lambda g: g.name):
        loops = natural_loops(f)
        for h, body in loops.items():
            for pid in f.blocks[h]["insts"]:
                ph = f.insts[pid]
                if ph["op"] != "phi" or ph.get("ty") != "i8*":
                    continue
                strides = set()
                for v, b in ph["inc"]:
                    if b in body and v[0] == "v":
                        d = f.insts[v[1]]
                        if d["op"] == "getelementptr" and d["ops"][0] == ["v", pid] and d.get("off") is not None and not d.get("var"):
                            strides.add(d["off"])
                if len(strides) != 1:
                    continue
                S = strides.pop()
                reads = []
                for i, ins in enumerate(f.insts):
                    if ins["b"] not in body:
                        continue
                    c = ins.get("callee")
                    if ins["op"] == "call" and c and c[0] == "g" and c[1] in WIDTH:
                        o = ins["ops"][0]
                        k = None
                        if o == ["v", pid]:
                            k = 0
                        elif o[0] == "v" and f.insts[o[1]]["op"] == "getelementptr" and f.insts[o[1]]["ops"][0] == ["v", pid] \
                                and f.insts[o[1]].get("off") is not None and not f.insts[o[1]].get("var"):
                            k = f.insts[o[1]]["off"]
                        if k is not None:
                            reads.append((k, WIDTH[c[1]], i))
                if not reads:
                    continue
                n += 1
                reads.sort()
                pos, why, at = 0, "", reads[0][2]
                for k, w, i in reads:
                    if k != pos:
                        why = ("bytes [%d, %d) are read twice" % (k, min(pos, k + w))) if k < pos else ("bytes [%d, %d) are never read" % (pos, k))
                        at = i
                        break
                    pos = k + w
                if not why and pos != S:
                    why = "the reads end at byte %d, the pointer advances by %d" % (pos, S)
                chk.ob("R4.13", f, "the reads inside the absorbing loop at %s tile the %d bytes it advances by" % (f.loc(reads[0][2]), S), not why,
                       loc=f.loc(at), detail="" if not why else why + ": those message bytes do not influence the hash (or do twice)",
                       key="R4.13 %s tiling" % f.sname)
    chk.floor("R4.13", "absorbing loops of the SipHash reference code", n, 2)


def poly1305_sibling_rule(prog, chk):
    """R4.12 (E7). The block size differs between the siblings (16 / 32 bytes): it is read from the call that absorbs the buffer,
    poly1305_blocks(st, st->buffer, B), and B, B - 1 and ~(B - 1) are renamed before the skeletons are compared; so are the offsets of
    the state fields (ordinal position among the fields the function touches)."""
    import re as _re
    sets, fns = {}, {}
    for usub in ("poly1305/donna/", "poly1305/sse2/"):
        cands = [f for f in prog.functions() if not f.decl and f.sname == "poly1305_update" and usub in f.unit]
        if not cands:
            continue
        fn = cands[0]
        S = {}
        for p in cm.paths(prog, fn):
            sh = cm.Shaper(prog, p, {0: "ST", 1: "M", 2: "BYTES"})
            for e in p.events:
                if e.kind == "fact" or (e.kind == "call" and (e.callee_name() or "") == "poly1305_blocks"):
                    S.setdefault(str(sh.event(e)), (fn, e.iid))
        B = None
        for k in S:
            m = _re.match(r"\('call', 'poly1305_blocks', \('ST', .*'ST'.*, \('c', (\d+)\)\)\)$", k)
            if m:
                B = int(m.group(1))
        if B is None:
            raise AnalysisBroken("R4.12: %s: no poly1305_blocks(st, st->buffer, <constant>) call: block size not found" % fn.unit)
        N = {}
        offs = sorted({int(x) for k in S for x in _re.findall(r"'ST', (\d+),", k)})
        for k, v in S.items():
            k = _re.sub(r"'ST', (\d+),", lambda m: "'ST', field#%d," % offs.index(int(m.group(1))), k)   # state layouts differ
            k2 = k.replace("('c', %d)" % B, "BLOCK").replace("('c', %d)" % (B - 1), "BLOCK-1").replace("('c', %d)" % ((1 << 64) - B), "~(BLOCK-1)")
            N.setdefault(k2, v)
        sets[usub] = N
        fns[usub] = fn
    if len(sets) < 2:
        if chk.relaxed or prog.config != "native":
            return
        raise AnalysisBroken("R4.12: fewer than two Poly1305 update siblings")
    ref_name = next(iter(sets))
    ref = sets[ref_name]
    for nm, S in sets.items():
        only = sorted(set(S) - set(ref))
        missing = sorted(set(ref) - set(S))
        ok = not only and not missing
        where = S[only[0]] if only else (ref[missing[0]] if missing else None)
        chk.ob("R4.12", fns[nm], "buffering skeleton of poly1305_update (%d shapes, block size renamed) equals that of the %s sibling" % (len(S), ref_name), ok,
               loc=where[0].loc(where[1]) if where else None,
               detail="" if ok else "only here: %s | only in %s: %s" % ([x[:260] for x in only[:1]], ref_name, [x[:260] for x in missing[:1]]),
               key="R4.12 %s" % nm)
    chk.floor("R4.12", "skeleton shapes of poly1305_update", len(ref), 6)


def last_block_rule(prog, chk):
    """R4.11: BLAKE2b's update never compresses what may be the last block (only *_final may, with the finalisation flag set).
    Every compression in blake2b_update sits under the true edge of a strict guard `remaining > K` on a loop-carried length
    counter, and the counter is decremented by that same K in the same iteration - so input remains after every compression.
    A fast path that compresses while `remaining > 0` (or `>= K`) hashes inputs whose length is a multiple of the block size
    differently from the one-shot call."""
    from ..loopinv import natural_loops
    fn = prog.need("blake2b_update", rule="R4.11")
    blocks = fn.blocks

    def dominates(a, b):
        while b not in (-1, None):
            if a == b:
                return True
            b = blocks[b].get("idom", -1)
        return False

    def is_compress(ins):
        if ins["op"] != "call":
            return False
        cal = ins.get("callee")
        if not cal:
            return False
        if cal[0] == "g":
            return cal[1].startswith("blake2b_compress")
        if cal[0] == "v":
            src = fn.insts[cal[1]]
            return src["op"] == "load" and src["ops"][0][0] == "g" and src["ops"][0][1].startswith("blake2b_compress")
        return False
    loops = natural_loops(fn)
    # decrement sites of loop-carried 64-bit counters: (header phi id, block of the sub, amount operand)
    decs = []
    for h, body in loops.items():
        for pid in blocks[h]["insts"]:
            ph = fn.insts[pid]
            if ph["op"] != "phi" or ph.get("ty") != "i64":
                continue
            seen, stack = set(), [v for v, b in ph["inc"] if b in body]
            while stack:
                v = stack.pop()
                if v[0] != "v" or v[1] in seen:
                    continue
                seen.add(v[1])
                d = fn.insts[v[1]]
                if d["op"] == "phi" and d["b"] in body and v[1] != pid:
                    stack.extend(x for x, _b in d["inc"])
                elif d["op"] == "sub" and d["ops"][0] == ["v", pid]:
                    decs.append((pid, d["b"], d["ops"][1]))
                elif d["op"] == "add" and d["ops"][0] == ["v", pid] and d["ops"][1][0] == "i" and d["ops"][1][1] >= 1 << 63:
                    decs.append((pid, d["b"], ["i", (1 << 64) - d["ops"][1][1], 64]))
    n = 0
    for i, ins in enumerate(fn.insts):
        if not is_compress(ins):
            continue
        n += 1
        B = ins["b"]
        near = [(pid, k) for pid, b, k in decs if dominates(B, b)]
        ok, why = False, "no loop-carried length counter is decremented after this compression"
        for pid, k in near:
            # a dominating strict guard `counter > k`
            x = B
            found = None
            while x not in (-1, None):
                d = blocks[x].get("idom", -1)
                if d in (-1, None):
                    break
                term = fn.insts[blocks[d]["insts"][-1]]
                if term["op"] == "br" and term.get("cond") and term["cond"][0] == "v" and len(term["succ"]) == 2 and term["succ"][0] != term["succ"][1]:
                    c = fn.insts[term["cond"][1]]
                    t_edge = dominates(term["succ"][0], B) and not dominates(term["succ"][1], B)
                    if c["op"] == "icmp" and t_edge:
                        a, b2, pr = c["ops"][0], c["ops"][1], c.get("pred")
                        if pr == "ult":
                            a, b2, pr = b2, a, "ugt"
                        if a == ["v", pid]:
                            found = (pr, b2)
                            if pr == "ugt" and b2[:2] == k[:2]:
                                ok = True
                                break
                x = d
            if ok:
                break
            nm = fn.insts[pid].get("name", "%%%d" % pid)
            why = ("the length counter %s is decremented by %s after the compression, but the compression is %s: the counter may reach 0 here, "
                   "i.e. the last block of the input is compressed as a non-final block" %
                   (nm, T.show(cm.operand_term(fn, k), fn) if hasattr(cm, "operand_term") else k[1],
                    "not under a guard on it" if found is None else "only guarded by `%s %s %s`" % (nm, found[0], found[1][1])))
        chk.ob("R4.11", fn, "compression at %s happens only while input remains after it (strict guard `remaining > K`, then `remaining -= K`)" % fn.loc(i),
               ok, loc=fn.loc(i), detail="" if ok else why, key="R4.11 blake2b_update compress")
    chk.floor("R4.11", "compressions in blake2b_update", n, 1)


def hkdf_chain_rule(prog, chk):
    n = 0
    for name in ("crypto_kdf_hkdf_sha256_expand", "crypto_kdf_hkdf_sha512_expand"):
        fn = prog.need(name, rule="R4.10")
        OUT = ("arg", 0)
        for p in cm.paths(prog, fn):
            if p.kind != "ret" or not p.may_return_zero():
                continue
            evs = list(p.calls())
            for x, e in enumerate(evs):
                nm = e.callee_name() or ""
                if nm.endswith("_update") and len(e.args) >= 3 and e.args[2][0] == "c" and T.root(e.args[1])[0] == "havoc":
                    # a loop-carried pointer is fed back: decided on the SSA graph - the value it takes around the loop must be the
                    # very pointer the iteration's *_final call writes its block through
                    n += 1
                    ok = _phi_is_last_block(fn, e.iid)
                    chk.ob("R4.10", fn, "the block fed back into the HMAC is the one just before the block being produced", ok, loc=fn.loc(e.iid),
                           path=None if ok else p, detail="" if ok else "the fed-back pointer is loop-carried and does not take the address "
                           "of the block written by *_final in the previous iteration", key="R4.10 %s chain" % name)
                    continue
                if not nm.endswith("_update") or len(e.args) < 3 or T.root(e.args[1]) != OUT or e.args[2][0] != "c":
                    continue
                H = e.args[2][1]
                # the block being produced: next final into out, or next memcpy of the temporary into out
                dst = None
                for w in evs[x + 1:]:
                    wn = w.callee_name() or ""
                    if wn.endswith("_final") and T.root(w.args[1]) == OUT:
                        dst = w.args[1]
                        break
                    if wn.startswith(("memcpy", "llvm.memcpy")) and T.root(w.args[0]) == OUT:
                        dst = w.args[0]
                        break
                    if wn.endswith("_init"):
                        break
                n += 1
                ok = False
                if dst is not None:
                    (ca, ka), (cb, kb) = T.linear(e.args[1]), T.linear(dst)
                    ok = ca == cb and ka == kb - H
                chk.ob("R4.10", fn, "the block fed back into the HMAC is the one just before the block being produced", ok, loc=fn.loc(e.iid),
                       path=None if ok else p, detail="" if ok else "feeds %s back while producing %s" %
                       (T.show(e.args[1], fn), T.show(dst, fn) if dst is not None else "?"), key="R4.10 %s chain" % name)
    chk.floor("R4.10", "fed-back blocks on HKDF-Expand paths", n, 4)
