"""C15 — codecs decode strictly within capacity and fail rather than truncate.

Decided clauses (shared with C12 R12.3):
  R15.0 every store through `bin` in sodium_hex2bin / sodium_base642bin is at an index i for which
        the fact i < bin_maxlen holds on the path; every load of the encoded text is at an index
        below its stated length (also in _sodium_base642bin_skip_padding).
  R15.1 every path that takes the refusing arm of the capacity test ends in a failing return
        (fails rather than truncates); a successful return with no end-pointer out-parameter holds
        the fact "position == length" (the whole text was consumed).
  R15.5 the capacity test concerns a character that produces output: on every path through the refusing arm of
        `position >= bin_maxlen` the current iteration has already loaded a text character and holds a branch fact about it
        (digit / alphabet member). A test hoisted above the classification refuses well-formed text whose decoded size is
        exactly the capacity when an ignored or foreign character follows.
  R15.2 zero trailing bits: sodium_base642bin can report success only on a path holding both
        "leftover bit count W <= 4" and "(accumulator & ((1 << W) - 1)) == 0" for the *same* W - all
        bits left over after the last full byte were compared with zero.
  R15.4 sodium_hex2bin skips an ignored character only between complete digit pairs: wherever strchr(ignore, c)
        accepted the character, the branch facts establish that the nibble toggle (the loop-carried value whose
        next value is its complement) is 0, i.e. no high nibble is pending.
  R15.3 bytes of the text are classified as values 0..255: in the decoders no sign-extended text byte reaches a
        classification helper or arithmetic ("only alphabet characters" over the full 8-bit character set; a
        sign-extended byte >= 0x80 makes the branch-free EQ() of the Base64 tables true for '+' and '/').
  R15.8 every decoder function that walks over the encoded text (public decoder or helper handed the text) consults the ignore set.
  R15.7 both decoders hand back through *end the same position the end-pointer-less form compares with the length.
  R15.6 (E18, exact finite-domain evaluation of the branch-free table functions) reader's and writer's alphabets agree per variant: for
        every byte c, b64_char_to_byte(c) != 0xFF exactly when some digit x < 64 has b64_byte_to_char(x) == c, and then it returns x;
        the same for the URL-safe pair, whose alphabets differ from the original in exactly the two documented characters.
NOT decided: the rest of the accepted language, round-trip equality, NUL termination and the
encoded-length formula.
"""
from .. import terms as T
from ..build import AnalysisBroken
from . import common as cm


def index_of(addr, base):
    """the single scale-1 index term of base[idx], or None"""
    if addr == base:
        return T.C(0, 64)
    if addr[0] == "gep" and addr[1] == base and not addr[3] and addr[2] >= 0:
        return T.C(addr[2], 64)
    if addr[0] == "gep" and addr[1] == base and addr[2] == 0 and len(addr[3]) == 1 and addr[3][0][1] == 1:
        return addr[3][0][0]
    return None


def decoder_rules(prog, chk, rule_prefix="R15"):
    rows = [("sodium_hex2bin", 0, 1, 2, 3, 6), ("sodium_base642bin", 0, 1, 2, 3, 6)]
    nst = nld = ncap = nend = ncls = 0
    for name, ibin, imax, itxt, ilen, iend in rows:
        fn = prog.need(name, rule=rule_prefix)
        BIN, MAXL, TXT, LEN, END = (("arg", i) for i in (ibin, imax, itxt, ilen, iend))
        for p in cm.paths(prog, fn):
            if p.kind != "ret":
                continue
            for e in p.events:
                if e.kind == "store" and T.root(e.addr) == BIN:
                    nst += 1
                    idx = index_of(e.addr, BIN)
                    ok = idx is not None and p.facts_before(e.idx).truth(T.mk_icmp("ult", idx, MAXL)) is True
                    chk.ob(rule_prefix + ".0", fn, "store to bin[i] at %s holds i < bin_maxlen" % fn.loc(e.iid), ok,
                           loc=fn.loc(e.iid), detail="index %s" % (T.show(idx, fn) if idx else T.show(e.addr, fn)),
                           path=None if ok else p, key="%s.0 %s store" % (rule_prefix, name))
                elif e.kind == "call" and cm.writes_through(prog, p, e, BIN):
                    nst += 1
                    chk.ob(rule_prefix + ".0", fn, "no bulk write to bin", False, loc=fn.loc(e.iid),
                           detail="call %s may write bin without a per-byte capacity test" % e.callee_name(),
                           path=p, key="%s.0 %s bulk" % (rule_prefix, name))
                elif e.kind == "load" and T.root(e.addr) == TXT:
                    nld += 1
                    idx = index_of(e.addr, TXT)
                    ok = idx is not None and p.facts_before(e.idx).truth(T.mk_icmp("ult", idx, LEN)) is True
                    chk.ob(rule_prefix + ".0", fn, "load of text[i] at %s holds i < text_len" % fn.loc(e.iid), ok,
                           loc=fn.loc(e.iid), path=None if ok else p, key="%s.0 %s load" % (rule_prefix, name))
            # refusing arm of the capacity test
            refused = [t for t, v in p.facts.items
                       if v and t[0] == "icmp" and t[1] == "uge" and t[3] == MAXL]
            if refused:
                ncap += 1
                ok = p.ret_zeroness() == "NZ"
                chk.ob(rule_prefix + ".1", fn, "capacity exhausted (%s >= bin_maxlen) => failing return" % T.show(refused[0][2], fn),
                       ok, loc=fn.loc(p.end_iid), path=None if ok else p, key="%s.1 %s truncates" % (rule_prefix, name))
            # R15.5: the capacity test concerns the character at hand: since the last loop head the path has loaded a character
            # of the text and holds a branch fact about it (it is a digit / an alphabet character that produces output)
            for ce in p.events:
                if not (ce.kind == "fact" and ce.term is not None and ce.term[0] == "icmp" and MAXL in (ce.term[2], ce.term[3])):
                    continue
                full = (ce.term[1] in ("uge", "ugt") and ce.truth) or (ce.term[1] in ("ult", "ule") and not ce.truth)
                if ce.term[2] == MAXL:
                    full = (ce.term[1] in ("ule", "ult") and ce.truth) or (ce.term[1] in ("ugt", "uge") and not ce.truth)
                if not full:
                    continue
                lh = max([x.idx for x in p.events[:ce.idx] if x.kind == "loophead"] or [-1])
                window = p.events[lh + 1:ce.idx]
                derived = {x.res for x in window if x.kind == "load" and T.root(x.addr) == TXT}
                for x in window:
                    if x.kind == "call" and x.res is not None and any(d in T.subterms(a) for a in x.args if isinstance(a, tuple) for d in derived):
                        derived.add(x.res)
                ok = any(x.kind == "fact" and x.term is not None and any(d in T.subterms(x.term) for d in derived) for x in window)
                ncls += 1
                chk.ob(rule_prefix + ".5", fn, "the output is declared full only for a character that has been read and classified as producing "
                       "output", ok, loc=fn.loc(ce.iid), path=None if ok else p,
                       detail="" if ok else "the capacity test at %s fails the call before the current character is examined: text whose decoded "
                       "size equals bin_maxlen and that continues with an ignored character or ends at a foreign one is refused with ERANGE"
                       % fn.loc(ce.iid), key="%s.5 %s capacity-before-classification" % (rule_prefix, name))
            if p.may_return_zero() and p.facts.zeroness(END) == "Z":
                nend += 1
                ok = any(v and t[0] == "icmp" and t[1] == "eq" and t[3] == LEN for t, v in p.facts.items)
                chk.ob(rule_prefix + ".1", fn, "success without end pointer => position == length was established", ok,
                       loc=fn.loc(p.end_iid), path=None if ok else p, key="%s.1 %s trailing" % (rule_prefix, name))
    sk = prog.need("_sodium_base642bin_skip_padding", rule=rule_prefix)
    for p in cm.paths(prog, sk):
        for e in p.events:
            if e.kind == "load" and T.root(e.addr) == ("arg", 0):
                nld += 1
                idx = index_of(e.addr, ("arg", 0))
                ok = idx is not None and p.facts_before(e.idx).truth(T.mk_icmp("ult", idx, ("arg", 1))) is True
                chk.ob(rule_prefix + ".0", sk, "load of b64[*pos] at %s holds *pos < b64_len" % sk.loc(e.iid), ok,
                       loc=sk.loc(e.iid), path=None if ok else p, key="%s.0 skip_padding load" % rule_prefix)
    chk.floor(rule_prefix + ".0", "stores through bin on decoder paths", nst, 50)
    chk.floor(rule_prefix + ".0", "loads of encoded text on decoder paths", nld, 100)
    chk.floor(rule_prefix + ".1", "paths through the refusing arm of the capacity test", ncap, 4)
    chk.floor(rule_prefix + ".1", "successful exits without end pointer", nend, 4)
    chk.floor(rule_prefix + ".5", "refusing capacity tests on decoder paths", ncls, 4)


ALSO_PORTABLE = True


def run(ctx, chk):
    prog = ctx.prog()
    chk.configs.append("native -O0+mem2reg")
    chk.explanation = ("E1 on sodium_hex2bin, sodium_base642bin and the padding skipper: every store through the output and every "
                       "load of the encoded text on every path must be preceded by the bounding fact on the very index used; "
                       "capacity exhaustion can only end in a failing return; success without an end pointer requires pos == len.")
    chk.not_decided = "accepted language, round-trip, NUL termination and length formulas of the encoders are value-level."
    chk.assumptions.append("loop-carried positions are havocked at loop heads; facts are those re-established in the iteration")
    decoder_rules(prog, chk)
    trailing_bits_rule(prog, chk)
    signedness_rule(prog, chk)
    hex_pairs_rule(prog, chk)
    alphabet_agreement_rule(prog, chk)
    end_position_rule(prog, chk)
    ignore_everywhere_rule(prog, chk)


def _strip(t):
    while t[0] == "cast":
        t = t[2]
    return t


def _lowmask_width(t):
    """t == (1 << W) - 1  ->  W (casts stripped), else None"""
    t = _strip(t)
    if t[0] != "bin" or t[3][0] != "c":
        return None
    minus_one = (t[1] == "sub" and t[3][1] == 1) or (t[1] == "add" and t[3][1] == (1 << t[3][2]) - 1)
    if minus_one:
        s = _strip(t[2])
        if s[0] == "bin" and s[1] == "shl" and s[2][0] == "c" and s[2][1] == 1:
            return _strip(s[3])
    return None


def trailing_bits_rule(prog, chk):
    fn = prog.need("sodium_base642bin", rule="R15.2")
    n = 0
    for p in cm.paths(prog, fn):
        if p.kind != "ret" or not p.may_return_zero():
            continue
        n += 1
        bounded = set()     # W with W <= 4
        zeroed = set()      # W with (acc & ((1 << W) - 1)) == 0
        for t, v in p.facts.items:
            if t[0] != "icmp" or not v:
                continue
            if t[1] == "ule" and t[3][0] == "c" and t[3][1] <= 4:
                bounded.add(_strip(t[2]))
            if t[1] == "ult" and t[3][0] == "c" and t[3][1] <= 5:
                bounded.add(_strip(t[2]))
            if t[1] == "eq" and t[3][0] == "c" and t[3][1] == 0:
                a = _strip(t[2])
                if a[0] == "bin" and a[1] == "and":
                    for m_ in (a[2], a[3]):
                        w = _lowmask_width(m_)
                        if w is not None:
                            zeroed.add(w)
        ok = bool(bounded & zeroed)
        chk.ob("R15.2", fn, "success => leftover bit count W <= 4 and (acc & ((1 << W) - 1)) == 0 for the same W", ok,
               loc=fn.loc(p.end_iid), detail="" if ok else "bounded: %s; zero-tested widths: %s" % (
                   [T.show(x, fn) for x in bounded][:3], [T.show(x, fn) for x in zeroed][:3]),
               path=None if ok else p, key="R15.2 sodium_base642bin trailing-bits")
    chk.floor("R15.2", "success exits of sodium_base642bin", n, 4)


def signedness_rule(prog, chk):
    """R15.3: text bytes are zero-extended before they are classified"""
    from ..cone import Cones
    n = 0
    for name, itxt in (("sodium_hex2bin", 2), ("sodium_base642bin", 2), ("_sodium_base642bin_skip_padding", 0)):
        fn = prog.need(name, rule="R15.3")
        cn = Cones(fn, prog)
        users = fn.users()
        for i, ins in enumerate(fn.insts):
            if ins["op"] not in ("sext", "zext") or ins.get("srcbits") != 8:
                continue
            src = ins["ops"][0]
            if src[0] != "v" or fn.insts[src[1]]["op"] != "load":
                continue
            roots = cn.roots(fn.insts[src[1]]["ops"][0])
            if ("a", itxt) not in roots:
                continue
            n += 1
            if ins["op"] == "zext":
                chk.ob("R15.3", fn, "text byte at %s is zero-extended" % fn.loc(i), True, key="R15.3 %s zext" % name)
                continue
            bad = []
            for u in users.get(i, ()):
                ui = fn.insts[u]
                if ui["op"] == "call":
                    cal = ui.get("callee") or ["", ""]
                    if cal[0] == "g" and cal[1] in ("strchr",):
                        continue            # strchr() converts its int argument back to char
                    bad.append(u)
                elif ui["op"] == "icmp" and ui["pred"] in ("eq", "ne") and any(o[0] == "i" and 0 <= o[1] < 128 for o in ui["ops"]):
                    continue                # == '=' etc.: a negative value simply does not match
                else:
                    bad.append(u)
            ok = not bad
            chk.ob("R15.3", fn, "a sign-extended text byte is used only for equality with an ASCII constant or by strchr()", ok,
                   loc=fn.loc(bad[0]) if bad else fn.loc(i), detail="" if ok else "the byte loaded at %s is sign-extended and then "
                   "classified / computed with at %s: bytes 0x80..0xff arrive as negative numbers" % (fn.loc(src[1]), fn.loc(bad[0])),
                   key="R15.3 %s sext" % name)
    chk.floor("R15.3", "extensions of text bytes in the decoders", n, 3)


def hex_pairs_rule(prog, chk):
    fn = prog.need("sodium_hex2bin", rule="R15.4")
    toggles = []
    for i, ins in enumerate(fn.insts):
        if ins["op"] != "phi" or not fn.blocks[ins["b"]].get("loophdr"):
            continue
        def uncast(o):
            while o[0] == "v" and fn.insts[o[1]]["op"] in ("zext", "sext", "trunc"):
                o = fn.insts[o[1]]["ops"][0]
            return o
        for v, _b in ins["inc"]:
            v = uncast(v)
            if v[0] == "v":
                d = fn.insts[v[1]]
                if d["op"] == "xor" and any(uncast(o) == ["v", i] for o in d["ops"]) and \
                        any(o[0] == "i" and (o[1] + 1) & o[1] == 0 and o[1] for o in d["ops"]):
                    toggles.append(i)
    if len(toggles) != 1:
        raise AnalysisBroken("R15.4: expected one nibble toggle (x = ~x) in sodium_hex2bin, found %d" % len(toggles))
    P = toggles[0]
    n = 0
    for p in cm.paths(prog, fn):
        for e in p.calls("strchr"):
            if p.facts.zeroness(e.res) != "NZ":
                continue            # the character was not in the ignore set on this path
            n += 1
            fb = p.facts_before(e.idx)
            ok = any(t[0] == "icmp" and t[1] == "eq" and v and t[3][0] == "c" and t[3][1] == 0 and
                     _strip(t[2])[0] == "havoc" and _strip(t[2])[1] == P for t, v in fb.items)
            chk.ob("R15.4", fn, "an ignored character is skipped only when no high nibble is pending", ok, loc=fn.loc(e.iid),
                   detail="" if ok else "strchr(ignore, c) is consulted without the fact `%s == 0`: a digit pair may be split by an ignored "
                   "character" % fn.insts[P].get("name", "state"), path=None if ok else p, key="R15.4 sodium_hex2bin")
    chk.floor("R15.4", "paths of sodium_hex2bin on which an ignored character is skipped", n, 1)


def _reaching(fn, slot):
    """reaching definitions of a local scalar kept in memory: load inst id -> frozenset of defining inst ids (stores to the slot,
    calls that receive its address); -1 = uninitialised"""
    defs = {}
    for i, ins in enumerate(fn.insts):
        if ins["op"] == "store" and ins["ops"][1] == ["v", slot]:
            defs[i] = ins["b"]
        elif ins["op"] == "call" and ["v", slot] in [o[:2] for o in ins.get("ops", [])]:
            c = ins.get("callee")
            if not (c and c[0] == "g" and c[1].startswith(("llvm.lifetime", "llvm.dbg"))):
                defs[i] = ins["b"]
    nb = len(fn.blocks)
    last = {}
    for i in sorted(defs):
        last[defs[i]] = i
    IN = [frozenset() for _ in range(nb)]
    IN[0] = frozenset([-1])
    changed = True
    while changed:
        changed = False
        for b in range(nb):
            acc = set(IN[b])
            for q in fn.blocks[b].get("preds", []):
                acc |= ({last[q]} if q in last else IN[q])
            if frozenset(acc) != IN[b]:
                IN[b] = frozenset(acc)
                changed = True
    out = {}
    for i, ins in enumerate(fn.insts):
        if ins["op"] == "load" and ins["ops"][0] == ["v", slot]:
            prev = [d for d, b in defs.items() if b == ins["b"] and d < i]
            out[i] = frozenset([max(prev)]) if prev else IN[ins["b"]]
    return out


def ignore_everywhere_rule(prog, chk):
    """R15.8 "only alphabet characters or characters from the caller's ignore set", at every position: every function of the
    decoders that walks over the encoded text (a load through the text pointer inside a loop) - the public decoder and every
    helper of the unit that is handed the text - consults the ignore set there (a call to strchr). A helper that classifies
    characters without it (e.g. one that only looks for `=`) rejects well-formed text with an ignorable character at that place."""
    from ..loopinv import natural_loops
    n = 0
    seen = set()
    work = []
    for name in ("sodium_base642bin", "sodium_hex2bin"):
        f = prog.need(name, unit="sodium/codecs.c", rule="R15.8")
        txt = [k for k, p in enumerate(f.params) if p["ty"] == "i8*" and k + 1 < len(f.params) and f.params[k + 1]["ty"] == "i64" and k > 0]
        if not txt:
            raise AnalysisBroken("R15.8: %s: text parameter not found" % name)
        work.append((f, txt[0]))
    while work:
        f, t = work.pop()
        if (f.key, t) in seen:
            continue
        seen.add((f.key, t))

        def root(o, f=f):
            for _ in range(32):
                if o[0] == "a":
                    return o[1]
                if o[0] != "v":
                    return None
                d = f.insts[o[1]]
                if d["op"] in ("getelementptr", "bitcast"):
                    o = d["ops"][0]
                else:
                    return None
            return None
        inloop = set()
        for body in natural_loops(f).values():
            inloop |= body
        walks = [i for i, ins in enumerate(f.insts) if ins["op"] == "load" and ins["b"] in inloop and root(ins["ops"][0]) == t]
        consults = [i for i, ins in enumerate(f.insts) if ins["op"] == "call" and ins.get("callee") and ins["callee"][0] == "g"
                    and ins["callee"][1] in ("strchr", "memchr")]
        for i, ins in enumerate(f.insts):
            c = ins.get("callee")
            if ins["op"] != "call" or not c or c[0] != "g":
                continue
            g = prog.fn(c[1], f.unit)
            if g is None or g.decl or g.unit != f.unit:
                continue
            for k, o in enumerate(ins.get("ops", [])):
                if k < len(g.params) and g.params[k]["ty"] == "i8*" and root(o) == t:
                    work.append((g, k))
        if not walks:
            continue
        n += 1
        ok = bool(consults)
        chk.ob("R15.8", f, "%s walks over the encoded text (%s) and consults the ignore set there" % (f.sname, f.params[t]["name"]), ok,
               loc=f.loc(walks[0]), detail="" if ok else "characters are read in a loop at %s and classified without a strchr() on the ignore "
               "set: an ignorable character at this place of an otherwise well-formed text is rejected" % f.loc(walks[0]),
               key="R15.8 %s ignore" % f.sname)
    chk.floor("R15.8", "decoder functions that walk over the encoded text", n, 3)


def end_position_rule(prog, chk):
    """R15.7 "reports the end position as documented": the position handed back through *end and the position the form without
    an end pointer compares with the input length are the same value (same SSA value, or loads of the same local reached by the
    same definitions). Otherwise the two call forms disagree on where parsing stopped - e.g. trailing ignorable characters are
    consumed by one form only."""
    n = 0
    for name in ("sodium_base642bin", "sodium_hex2bin"):
        f = prog.need(name, unit="sodium/codecs.c", rule="R15.7")
        endp = [k for k, p in enumerate(f.params) if p["ty"] == "i8**"]
        if len(endp) != 1:
            raise AnalysisBroken("R15.7: %s has no single end-pointer parameter" % name)
        endp = endp[0]
        txt = [k for k, p in enumerate(f.params) if p["ty"] == "i8*" and k + 1 < len(f.params) and f.params[k + 1]["ty"] == "i64" and k > 0]
        if not txt:
            raise AnalysisBroken("R15.7: %s: text / length parameters not found" % name)
        txt = txt[0]
        cache = {}

        def ident(o, f=f, cache=cache):
            if o[0] != "v":
                return tuple(o)
            d = f.insts[o[1]]
            if d["op"] == "load" and d["ops"][0][0] == "v" and f.insts[d["ops"][0][1]]["op"] == "alloca":
                slot = d["ops"][0][1]
                if slot not in cache:
                    cache[slot] = _reaching(f, slot)
                return ("mem", slot, cache[slot].get(o[1]))
            return ("ssa", o[1])
        stored, compared = [], []
        for i, ins in enumerate(f.insts):
            if ins["op"] == "store" and ins["ops"][1] == ["a", endp] and ins["ops"][0][0] == "v":
                g = f.insts[ins["ops"][0][1]]
                if g["op"] == "getelementptr" and g["ops"][0] == ["a", txt] and len(g["ops"]) == 2:
                    stored.append((i, ident(g["ops"][1])))
                else:
                    stored.append((i, None))
            elif ins["op"] == "icmp" and ins.get("pred") in ("eq", "ne") and ["a", txt + 1] in [o[:2] for o in ins["ops"]]:
                other = [o for o in ins["ops"] if o[:2] != ["a", txt + 1]]
                if other:
                    compared.append((i, ident(other[0])))
        if not stored or not compared:
            raise AnalysisBroken("R15.7: %s: end-pointer store / length comparison not found" % name)
        for i, a in stored:
            for j, b in compared:
                n += 1
                ok = a is not None and a == b
                chk.ob("R15.7", f, "the position stored through %s at %s is the one compared with %s at %s" %
                       (f.params[endp]["name"], f.loc(i), f.params[txt + 1]["name"], f.loc(j)), ok, loc=f.loc(i),
                       detail="" if ok else "the two call forms use different positions (different definitions reach them): with an end pointer "
                       "the caller is told parsing stopped somewhere else than where the form without one checks for trailing input",
                       key="R15.7 %s end-position" % name)
    chk.floor("R15.7", "end-position pairs of the decoders", n, 2)


def alphabet_agreement_rule(prog, chk):
    from .. import finite
    n = 0
    alph = {}
    for enc, dec, what in (("b64_byte_to_char", "b64_char_to_byte", "original"),
                           ("b64_byte_to_urlsafe_char", "b64_urlsafe_char_to_byte", "URL-safe")):
        e = prog.need(enc, unit="sodium/codecs.c", rule="R15.6")
        d = prog.need(dec, unit="sodium/codecs.c", rule="R15.6")
        A = [finite.evaluate(prog, e, x) for x in range(64)]
        D = [finite.evaluate(prog, d, c) for c in range(256)]
        if any(v is None for v in A) or any(v is None for v in D):
            raise AnalysisBroken("R15.6: %s / %s are no longer branch-free single-block functions of one integer" % (enc, dec))
        n += 1
        alph[what] = A
        okA = len(set(A)) == 64 and all(0 < a < 128 for a in A)
        chk.ob("R15.6", e, "the %s encoder emits 64 distinct ASCII characters" % what, okA, key="R15.6 %s distinct" % enc)
        extra = [c for c in range(256) if D[c] != 0xFF and c not in A]
        wrong = [x for x in range(64) if D[A[x]] != x]
        chk.ob("R15.6", d, "the %s decoder accepts exactly the characters its encoder emits and maps each back to its digit" % what,
               not extra and not wrong,
               detail=("accepts %s which the encoder never emits" % ", ".join("%r (as digit %d)" % (chr(c), D[c]) for c in extra[:6]) if extra else "") +
               ("; digits %s do not decode to themselves" % wrong[:6] if wrong else ""), key="R15.6 %s agreement" % dec)
    if len(alph) == 2:
        diff = [x for x in range(64) if alph["original"][x] != alph["URL-safe"][x]]
        chk.ob("R15.6", "sodium/codecs.c", "the two alphabets differ in digits 62 and 63 only ('+' '/' vs '-' '_')",
               diff == [62, 63] and [alph["original"][x] for x in diff] == [43, 47] and [alph["URL-safe"][x] for x in diff] == [45, 95],
               key="R15.6 variant difference")
    chk.floor("R15.6", "encoder / decoder pairs evaluated", n, 2)
