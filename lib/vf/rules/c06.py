"""C06 — Ed25519: strict verification checklist and deterministic signing.

Decided clauses:
  R6.1 the verifier returns 0 only on paths on which S was shown canonical (or its top four bits
       are clear), the public key is canonical, decodes, is not of small order, R decodes and is
       not of small order, and the returned value is (has_small_order(check) - 1) where `check`
       is the object produced by p3_sub(R, p2_to_p3(double_scalarmult(h, A, S))) with h the reduced
       SHA-512 of (R, A, M); every public verify/open wrapper inherits this (C02 R2.1) and
       crypto_sign_ed25519_open zeroes its outputs on failure (C02 R2.4/R2.5 instances).
  R6.2 key generation from a seed and signing (plain and pre-hashed) cannot reach a random
       source, an entropy/time external, or any store to / load from process-global mutable state.
  R6.7 in seed_keypair, once pk is written, sk[32..64) is only written by the copy from pk (pk == sk + 32 is the in-place layout).
  R6.6 every limb sc25519_muladd / sc25519_reduce pack into the scalar bytes (except the top one) is the remainder of its own carry step.
  R6.5 the Ed25519 -> X25519 key conversions read their input completely before the first write through the output.
  R6.4 combined-mode crypto_sign moves the message to sm + 64 first and hands *that copy* to the detached signer, on every path:
       "every signature so produced verifies" also when the caller's m lies inside sm (the signer hashes the message twice and
       writes the signature halves into sm[0..64) in between).
NOT decided: RFC 8032 values, scalar / group arithmetic, that has_small_order(check) *means* the
cofactored equation.
"""
from .. import terms as T
from ..build import AnalysisBroken
from ..terms import C
from . import common as cm
from . import c02

P = lambda i: ("param", i)
V = lambda n: ("var", n)

ENTROPY_EXT = {"getrandom", "getentropy", "arc4random", "arc4random_buf", "arc4random_uniform", "open", "read",
               "time", "clock_gettime", "gettimeofday", "getpid", "rand", "random", "srand", "clock", "rdrand",
               "<indirect>"}


ALSO_PORTABLE = True


def run(ctx, chk):
    prog = ctx.prog()
    cg = prog.callgraph()
    chk.configs.append("native -O0+mem2reg (ED25519_COMPAT and ED25519_NONDETERMINISTIC off, as configured)")
    chk.explanation = (
        "E1 checklist on every exit of the Ed25519 verifier that may return 0 (all rejection tests executed and passed, "
        "result derived from the group-equation object built from the right operands, hash transcript (R, A, M)); "
        "wrapper inheritance and failure-zeroing through the C02 rules restricted to crypto_sign_*; E2 reachability: "
        "the signing / seeded key generation call graph reaches no randomness or time source and touches no mutable global.")
    chk.not_decided = "RFC 8032 byte values, sc25519/ge25519 arithmetic and the meaning of the final small-order test."
    vf = prog.need("_crypto_sign_ed25519_verify_detached", rule="R6.1")

    # ---- R6.1 --------------------------------------------------------------------------------
    checks = [
        ("ge25519_is_canonical", "NZ", {0: P(3)}),
        ("ge25519_frombytes_negate_vartime", "Z", {0: V("A"), 1: P(3)}),
        ("ge25519_has_small_order", "Z", {0: V("A")}),
        ("ge25519_frombytes", "Z", {0: V("R"), 1: P(0)}),
        ("ge25519_has_small_order", "Z", {0: V("R")}),
        ("crypto_hash_sha512_final", None, {0: V("hs"), 1: V("h")}),
        ("sc25519_reduce", None, {0: V("h")}),
        ("ge25519_double_scalarmult_vartime", None, {0: V("sbp2"), 1: V("h"), 2: V("A"), 3: P(0)}),
        ("ge25519_p2_to_p3", None, {0: V("sb"), 1: V("sbp2")}),
        ("ge25519_p3_sub", None, {0: V("check"), 1: V("R"), 2: V("sb")}),
        ("ge25519_has_small_order", ("EQ", 1), {0: V("check")}),
    ]
    n = 0
    for p, conj in cm.exits_returning(prog, vf, "Z"):
        n += 1
        b, missing = cm.find_checks(p, conj, checks)
        ok = b is not None
        detail = ""
        if not ok:
            detail = "missing on this path: " + cm.describe_check(checks[missing], vf)
        else:
            evs = b["__events__"]
            # producers precede consumers
            order = [e.idx for e in evs[5:]]
            if order != sorted(order):
                ok, detail = False, "group-equation operands are produced out of order"
            # distinct objects
            objs = [b[k] for k in ("A", "R", "h", "sbp2", "sb", "check")]
            if ok and len(set(objs)) != len(objs):
                ok, detail = False, "group-equation operands alias each other"
            # S passed to the double scalar multiplication is sig + 32
            ds = evs[7]
            if ok and not (ds.args[3] == ("gep", ("arg", 0), 32, ())):
                ok, detail = False, "scalar S is not taken from sig + 32"
        chk.ob("R6.1", vf, "accepting exit => every rejection test passed and the result is the group-equation test",
               ok, loc=vf.loc(p.end_iid), detail=detail or "; ".join(cm.describe_check(c, vf) for c in checks),
               path=None if ok else p, key="R6.1 _crypto_sign_ed25519_verify_detached checklist")
        # canonical S
        canon = False
        for e in p.calls("sc25519_is_canonical"):
            if e.args[0] == ("gep", ("arg", 0), 32, ()) and p.facts.zeroness(e.res) == "NZ":
                canon = True
        if not canon:
            load63 = {e.res for e in p.events if e.kind == "load" and e.addr == ("gep", ("arg", 0), 63, ())}
            for t, v in p.facts.items:
                if t[0] == "icmp" and t[1] == "eq" and v and t[3] == C(0, T.term_bits(t[3]) or 32) or \
                        (t[0] == "icmp" and t[1] == "eq" and v and t[3][0] == "c" and t[3][1] == 0):
                    x = t[2]
                    if x[0] == "bin" and x[1] == "and" and x[3][0] == "c" and (x[3][1] & 0xF0) == 0xF0:
                        if T.leaves(x[2]) & load63:
                            canon = True
        chk.ob("R6.1-S", vf, "accepting exit => S is canonical (sc25519_is_canonical(sig+32) != 0, or the top four bits of sig[63] are clear)",
               canon, loc=vf.loc(p.end_iid), path=None if canon else p, key="R6.1-S _crypto_sign_ed25519_verify_detached")
        # hash transcript (R, A, M)
        ups = [e for e in p.calls("crypto_hash_sha512_update")]
        seq = [(cm.root_param(e.args[1]), e.args[2]) for e in ups]
        want = [(0, C(32, 64)), (3, C(32, 64)), (1, ("arg", 2))]
        ok = seq[-3:] == want
        chk.ob("R6.1-h", vf, "h = SHA-512(R || A || M): updates are (sig,32), (pk,32), (m,mlen) in this order", ok,
               loc=vf.loc(p.end_iid), detail=str([(vf.params[a]["name"] if a is not None else "?", T.show(n, vf)) for a, n in seq]),
               path=None if ok else p, key="R6.1-h _crypto_sign_ed25519_verify_detached")
    chk.floor("R6.1", "accepting exits of the verifier", n, 1)
    # no other way to return 0: every exit that may return zero was enumerated above; additionally the
    # rejecting arms are constant -1
    for p in cm.paths(prog, vf):
        if p.kind == "ret" and p.ret is not None and p.ret[0] == "c":
            chk.ob("R6.1", vf, "early exits return a non-zero constant", p.ret[1] != 0, loc=vf.loc(p.end_iid),
                   path=p if p.ret[1] == 0 else None, key="R6.1 _crypto_sign_ed25519_verify_detached early-exit")

    # wrappers + failure zeroing: the C02 machinery restricted to crypto_sign_*
    ents = [f for f in c02.entries(prog) if f.name.startswith("crypto_sign")]
    chk.floor("R6.1w", "public crypto_sign verify/open entry points", len(ents), 6)
    c02.analyse(prog, chk, ents, prefix="R6.1w", floors=False)

    # ---- R6.2 ---------------------------------------------------------------------------------
    starts = ["_crypto_sign_ed25519_detached", "crypto_sign_ed25519_seed_keypair", "crypto_sign_ed25519_detached",
              "crypto_sign_ed25519", "crypto_sign_ed25519ph_init", "crypto_sign_ed25519ph_update",
              "crypto_sign_ed25519ph_final_create", "crypto_sign_seed_keypair", "crypto_sign_detached", "crypto_sign",
              "crypto_sign_ed25519_sk_to_curve25519", "crypto_sign_ed25519_pk_to_curve25519"]
    fns = [prog.need(s, rule="R6.2") for s in starts]
    ext, parent = cg.reach_ext(fns)
    reach = cg.reachable(fns)
    # the verifier is a function of (signature, message, public key) alone as well: the global-state clauses below
    # (R6.2-g) also cover everything reachable from the verification entry points - a table kept in a function-local
    # `static` makes the verdict depend on what other threads / earlier calls left there
    vstarts = ["_crypto_sign_ed25519_verify_detached", "crypto_sign_ed25519_verify_detached", "crypto_sign_ed25519_open",
               "crypto_sign_ed25519ph_final_verify", "crypto_sign_verify_detached", "crypto_sign_open", "crypto_sign_final_verify"]
    vreach = cg.reachable([prog.need(s, rule="R6.2-g") for s in vstarts])
    chk.floor("R6.2-g", "functions reachable from the verification entry points", len(vreach), 30)
    chk.floor("R6.2", "functions reachable from signing / seeded key generation", len(reach), 40)
    # ---- R6.4 combined-mode signing signs a copy no later write can disturb (the detached signer reads the message twice and writes
    # R, A, S into sm[0..64) in between): shared with C13 R13.1
    from . import c13
    c13.sign_move_rule(prog, chk, "R6.4")
    # ---- R6.7 key generation with the public key written in place (pk == sk + 32, the layout of the secret key itself): once the public key
    # has been written through pk, the only write to sk[32..64) is the copy *from pk* - anything else (a wipe of the scratch use of sk, a
    # copy from elsewhere) destroys the public key the caller asked for when the two buffers coincide
    skp = prog.need("crypto_sign_ed25519_seed_keypair", rule="R6.7")
    n67 = 0
    for p in cm.paths(prog, skp):
        if p.kind != "ret":
            continue
        wr = [e for e in p.events if e.kind == "call" and e.callee[0] in ("fn", "ext") and e.args and T.root(e.args[0]) == ("arg", 0)
              and (e.callee_name() or "").endswith("tobytes")]
        if not wr:
            continue
        n67 += 1
        bad = None
        for e in p.events[wr[-1].idx + 1:]:
            if e.kind == "store":
                dst, ln, src = e.addr, e.size, None
            elif e.kind == "call" and (e.callee_name() or "") in ("memmove", "memcpy", "llvm.memcpy.p0i8.p0i8.i64", "llvm.memmove.p0i8.p0i8.i64"):
                dst, src = e.args[0], e.args[1]
                ln = e.args[2][1] if e.args[2][0] == "c" else None
            elif e.kind == "call" and (e.callee_name() or "") in ("sodium_memzero", "memset", "llvm.memset.p0i8.i64", "explicit_bzero"):
                dst, src = e.args[0], None
                la = e.args[-1] if (e.callee_name() or "") != "llvm.memset.p0i8.i64" else e.args[2]
                if (e.callee_name() or "") == "memset":
                    la = e.args[2]
                ln = la[1] if la[0] == "c" else None
            else:
                continue
            if T.root(dst) != ("arg", 1):
                continue
            off = 0 if dst == ("arg", 1) else (dst[2] if dst[0] == "gep" and not dst[3] else None)
            overlaps = off is None or ln is None or (off < 64 and off + ln > 32)
            if overlaps and not (src is not None and T.root(src) == ("arg", 0)):
                bad = e
                break
        chk.ob("R6.7", skp, "after the public key is written through pk, sk[32..64) is only written by the copy from pk", bad is None,
               loc=skp.loc(bad.iid) if bad is not None else skp.loc(wr[-1].iid),
               detail="" if bad is None else "%s at %s writes sk[32..64) with something else than pk: with pk == sk + 32 (the key pair generated in "
               "place) the public key just computed is destroyed" % (bad.callee_name() if bad.kind == "call" else "store", skp.loc(bad.iid)),
               path=None if bad is None else p, key="R6.7 seed_keypair in-place")
    chk.floor("R6.7", "returning paths of crypto_sign_ed25519_seed_keypair", n67, 1)
    # ---- R6.6 S = (r + h * a) mod L is encoded from fully carried limbs (E12 family): every limb of sc25519_muladd / sc25519_reduce
    # that is packed into the 32 output bytes, except the top one, is the remainder of its own carry step
    from .. import knownbits
    knownbits.reduced_limb_rule(prog, chk, "R6.6", ("sc25519_muladd", "sc25519_reduce"), floor=22)
    # ---- R6.5 the Ed25519 -> X25519 key conversions consume their input before they touch the output (C05's R5.3 engine): a
    # conversion that clears or scribbles on the output first returns garbage (or a spurious rejection) when converting in place
    from . import c05
    c05.inplace_rule(prog, chk, rule="R6.5", names=("crypto_sign_ed25519_pk_to_curve25519", "crypto_sign_ed25519_sk_to_curve25519"),
                     out=0, inputs=(1,), what="the Ed25519 key", floor=2)
    bad = sorted(x for x in ext if x in ENTROPY_EXT or x.startswith("randombytes"))
    rb = [k for k in reach if (k if isinstance(k, str) else k[1]).startswith("randombytes")]
    chk.ob("R6.2", fns[0], "signing and seeded key generation reach no random / entropy / time source",
           not bad and not rb, detail="" if not (bad or rb) else "reaches %s via %s" % (
               bad or rb, " -> ".join(cg.chain(parent, ext[bad[0]] if bad else rb[0]))),
           key="R6.2 signing reaches-randomness")
    # global state
    nst = 0
    for k in sorted(set(reach) | set(vreach), key=str):
        f = cg.by_key[k]
        wg = cg.writes_globals(f)
        local_store = [g for g in wg if g != "*"]
        nst += 1
        chk.ob("R6.2-g", f, "no store to process-global state in the signing / verification call graph", not local_store,
               detail="stores to %s" % local_store if local_store else "", key="R6.2-g %s" % f.sname)
        for iid, ins in enumerate(f.insts):
            if ins["op"] != "load":
                continue
            a = ins["ops"][0]
            g = None
            if a[0] == "g":
                g = a[1]
            elif a[0] == "ce":
                for x in a[2][:1]:
                    if x[0] == "g":
                        g = x[1]
            if g is None:
                continue
            gd = prog.global_def(f, g)
            if gd is None:
                continue
            written = any(cg.gkey(gd[0], g) in cg.globals_written_at(w) for w in prog.functions())
            if not gd[1]["const"] and not gd[1]["tls"] and written:
                chk.ob("R6.2-g", f, "no load of mutable process-global state in the signing / verification call graph", False,
                       loc=f.loc(iid), detail="loads mutable global %s" % g, key="R6.2-g %s load-%s" % (f.sname, g))
