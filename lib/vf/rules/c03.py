"""C03 — stream ciphers: the IETF 32-bit block counter never wraps silently.

Decided clause:
  R3.1 every path of crypto_stream_chacha20_ietf_xor_ic to the ChaCha20 backend crosses a branch
       whose condition is data-dependent on both the initial counter and the length and whose
       refusing arm ends in the (noreturn) misuse handler; crypto_stream_chacha20_ietf and
       _ietf_xor (counter 0) reach the backend only with length <= the header's
       crypto_stream_chacha20_ietf_MESSAGEBYTES_MAX, refusing through the misuse handler; the
       unguarded extended-counter entry points are private and called only from these guarded
       functions and from XChaCha20-Poly1305 (whose construction is defined on the extended
       counter).
NOT decided: keystream bytes, counter carries in the vector backends, offset equivalence and the
arithmetic exactness of the guard's threshold.
"""
from .. import terms as T
from ..build import AnalysisBroken
from . import common as cm

EXT = ("crypto_stream_chacha20_ietf_ext", "crypto_stream_chacha20_ietf_ext_xor_ic", "crypto_stream_chacha20_ietf_ext_xor")


ALSO_PORTABLE = True


def run(ctx, chk):
    prog = ctx.prog()
    cg = prog.callgraph()
    chk.configs.append("native -O0+mem2reg")
    chk.explanation = ("E1 must-pass-through: every path to the backend in the three public IETF ChaCha20 stream functions crosses the "
                       "misuse guard (for _xor_ic a condition depending on both ic and mlen; for the counter-0 forms a length bound "
                       "equal to the header constant); E2 who-may-call on the private extended-counter entry points.")
    chk.not_decided = "keystream values, carries inside the SIMD backends and the arithmetic of the guard threshold."
    fn = prog.need("crypto_stream_chacha20_ietf_xor_ic", rule="R3.1")
    IC, MLEN = ("arg", 4), ("arg", 2)
    ps = cm.paths(prog, fn)
    n = 0
    for p in ps:
        for e in p.calls(*EXT):
            n += 1
            guards = []
            for g in p.events[:e.idx]:
                if g.kind == "fact":
                    lv = T.leaves(g.term)
                    if IC in lv and MLEN in lv:
                        guards.append(g)
            ok = False
            for g in guards:
                # the opposite outcome of the same test must not be able to return
                for q in ps:
                    for h in q.events:
                        if h.kind == "fact" and h.term == g.term and h.truth != g.truth and h.iid == g.iid:
                            if q.kind == "noreturn" and q.events[-1].callee_name() == "sodium_misuse":
                                ok = True
                            elif q.kind != "noreturn":
                                ok = False
                                break
            chk.ob("R3.1", fn, "backend is reached only across a guard on (ic, mlen) whose refusing arm calls sodium_misuse()", ok,
                   loc=fn.loc(e.iid), detail="%d guard fact(s) on the path" % len(guards), path=None if ok else p,
                   key="R3.1 crypto_stream_chacha20_ietf_xor_ic guard")
            kmax_ic = prog.K("crypto_stream_chacha20_ietf_MESSAGEBYTES_MAX")
            iv = p.facts_before(e.idx).interval(MLEN) or (0, (1 << 64) - 1)
            okl = iv[1] <= kmax_ic
            chk.ob("R3.1-len", fn, "whatever ic is, the backend is reached only with mlen <= crypto_stream_chacha20_ietf_MESSAGEBYTES_MAX "
                   "(%d): a longer request needs more than 2^32 blocks" % kmax_ic, okl, loc=fn.loc(e.iid),
                   detail="path facts give mlen in [%d, %d] (the guard's unsigned subtraction wraps for mlen > 2^38)" % iv,
                   path=None if okl else p, key="R3.1-len crypto_stream_chacha20_ietf_xor_ic mlen-unbounded")
            okf = e.args[2] == MLEN and e.args[4] == IC
            chk.ob("R3.1", fn, "the guarded (mlen, ic) are the values handed to the backend", okf, loc=fn.loc(e.iid),
                   key="R3.1 crypto_stream_chacha20_ietf_xor_ic forwarded")
    chk.floor("R3.1", "paths of _ietf_xor_ic reaching the backend", n, 1)
    # R3.1-bind: the threshold itself, decided exactly for representative initial counters: with ic bound to the
    # constant k (conditional constant propagation), the longest length that can still reach the backend must be
    # at most 64 * (2^32 - k) bytes - one more byte would need block index 2^32
    nb = 0
    for k in (0, 1, 2, 3, 64, 1 << 31, (1 << 32) - 3, (1 << 32) - 2, (1 << 32) - 1):
        bind = [(("icmp", "eq", IC, T.C(k, 32)), True)]
        for p in cm.paths(prog, fn, assume=bind):
            for e in p.calls(*EXT):
                nb += 1
                iv = p.facts_before(e.idx).interval(MLEN) or (0, (1 << 64) - 1)
                lim = 64 * ((1 << 32) - k)
                ok = iv[1] <= lim
                chk.ob("R3.1-bind", fn, "with ic = %d the backend is reached only with mlen <= 64 * (2^32 - ic) = %d" % (k, lim), ok,
                       loc=fn.loc(e.iid), detail="path facts give mlen in [%d, %d]" % iv, path=None if ok else p,
                       key="R3.1-bind crypto_stream_chacha20_ietf_xor_ic threshold")
    chk.floor("R3.1-bind", "backend calls under a bound initial counter", nb, 9)
    kmax = prog.K("crypto_stream_chacha20_ietf_MESSAGEBYTES_MAX")
    for name, li in (("crypto_stream_chacha20_ietf", 1), ("crypto_stream_chacha20_ietf_xor", 2)):
        f = prog.need(name, rule="R3.1")
        k = 0
        fps = cm.paths(prog, f)
        for p in fps:
            for e in p.calls(*EXT):
                k += 1
                iv = p.facts_before(e.idx).interval(("arg", li)) or (0, (1 << 64) - 1)
                ok = iv[1] <= kmax
                chk.ob("R3.1", f, "length <= crypto_stream_chacha20_ietf_MESSAGEBYTES_MAX (%d) at the backend call" % kmax, ok,
                       loc=f.loc(e.iid), detail="path facts give length in [%d, %d]" % iv, path=None if ok else p,
                       key="R3.1 %s length-bound" % name)
            if p.kind == "ret" and not any(True for _ in p.calls(*EXT)):
                chk.ob("R3.1", f, "over-long requests do not return normally", False, loc=f.loc(p.end_iid), path=p,
                       key="R3.1 %s returns-without-backend" % name)
        if k == 0:
            raise AnalysisBroken("R3.1: %s never reaches the backend" % name)
    # who-may-call the unguarded extended-counter functions
    allowed = {"crypto_stream_chacha20_ietf", "crypto_stream_chacha20_ietf_xor_ic", "crypto_stream_chacha20_ietf_xor",
               "crypto_stream_chacha20_ietf_ext_xor"}
    xunit = "crypto_aead/xchacha20poly1305/"
    chk.suppress("R3.1-who", "functions of " + xunit,
                 "XChaCha20-Poly1305 is defined on the extended (64-bit) counter; its own MESSAGEBYTES_MAX bounds the length (C12 R12.1)")
    ncall = 0
    for nm in EXT:
        f = prog.need(nm, rule="R3.1-who")
        for ck in sorted(cg.callers().get(f.key, ()), key=str):
            c = cg.by_key[ck]
            ncall += 1
            chk.ob("R3.1-who", c, "caller of the unguarded %s is a guarded IETF entry point" % nm,
                   c.sname in allowed or c.unit.startswith(xunit), key="R3.1-who %s" % c.sname)
    chk.floor("R3.1-who", "call sites of the extended-counter functions", ncall, 5)
