"""C03 — stream ciphers: the IETF 32-bit block counter never wraps silently.

Decided clause:
  R3.1 every path of crypto_stream_chacha20_ietf_xor_ic to the ChaCha20 backend crosses a branch
       whose condition is data-dependent on both the initial counter and the length and whose
       refusing arm ends in the (noreturn) misuse handler; crypto_stream_chacha20_ietf and
       _ietf_xor (counter 0) reach the backend only with length <= the header's
       crypto_stream_chacha20_ietf_MESSAGEBYTES_MAX, refusing through the misuse handler; the
       unguarded extended-counter entry points are private and called only from these guarded
       functions and from XChaCha20-Poly1305 (whose construction is defined on the extended
       counter).
  R3.2 carry of the 64-bit block counter in the multi-block backends (E6b dependence cones on
       chacha20_encrypt_bytes / salsa20_encrypt_bytes of every compiled backend unit): the two
       counter words are LO = input[12] / HI = input[13] (ChaCha) and input[8] / input[9] (Salsa).
       (a) R3.2-lane: no vector arithmetic result whose cone contains the HI word mixes it with
       other cipher state without the LO word also being in the cone - lanes of one vector are
       consecutive blocks, so a high word that cannot have been influenced by the low word has no
       carry; (b) R3.2-wb: every write-back of the HI word depends (data or control) on the LO word.
  R3.12 (E16) no function of the stream units writes a static object (a bounce buffer or counter block in static storage is shared by
        concurrent callers).
  R3.3 no lost block (E1 on every stream backend): on every returning path, data written into a
       local bounce buffer (the partial-block buffers `tmp` / `partialblock` / `block`) is read
       again before the function returns - keystream stored into a local that is never copied
       out cannot reach the caller's buffer.
  R3.7 (E11 bit flow) the initial block counter is used at full width: in every crypto_stream function with a parameter `ic`
       (64-bit for the original ciphers, 32-bit for the IETF variants) each bit of that parameter reaches a call argument or a
       store - a narrowing on the way to the backend makes counters >= 2^32 alias small ones (keystream reuse).
  R3.8 (E17) in the assembly stream backends every `rep stos` / `rep movs` sequence covers exactly the length register it is given:
       one byte-wide operation with the full count, or a 2^k-wide one with count >> k plus a byte-wide one with count & (2^k - 1)
       (the keystream form zeroes its output this way and then XORs the keystream in). Nothing else in the .S units is analysed.
  R3.9 (E7 sibling agreement) the set-up / wrapper functions that every backend of a cipher family defines under the same name
       (stream_ref, stream_ietf_ext_ref, *_xor_ic, chacha_keysetup, chacha_ivsetup, chacha_ietf_ivsetup ...) perform the same
       multiset of calls with the same role-normalised arguments in every backend; the portable unit is the reference. The
       vectorised cores themselves differ by design and are not compared. (An IETF entry point that sets up the original
       nonce / counter layout in one backend only.)
  R3.10 one cipher per stream function: all calls to a crypto_core_* permutation inside one function of the stream units name the same
       core (a Salsa20/12 XOR whose partial-block arm calls the 20-round core).
  R3.6 batches are independent: in the multi-block loops of the SIMD backends no value that was produced
       by the rounds of one batch is carried into the next batch (a loop-carried value at the header of a
       batch loop may only be recomputed from itself, constants and other carried values: byte count,
       pointers, counters) -
       each batch starts from key, nonce and counter alone.
  R3.11 in those functions the counter bytes are updated by exactly one carry chain that every iteration of the block loop runs.
  R3.5 the byte-wise 64-bit block counters of the portable Salsa20 / Salsa20/12 / Salsa20/8 code carry
       continuously: the loop-carried carry is recomputed from its previous value.
  R3.4 (E12 known-bits, contradiction rule) no carry / shifted value in the stream units is identically
       zero (byte-wise counter increments of the portable Salsa20 code included).
NOT decided: keystream bytes, the arithmetic of the per-lane additions, offset equivalence, the
byte-wise counters of the portable Salsa20 reference code and the arithmetic exactness of the
guard's threshold.
"""
from .. import terms as T
from ..cone import Cones, overlaps
from ..build import AnalysisBroken
from . import common as cm

EXT = ("crypto_stream_chacha20_ietf_ext", "crypto_stream_chacha20_ietf_ext_xor_ic", "crypto_stream_chacha20_ietf_ext_xor")


ALSO_PORTABLE = True


def run(ctx, chk):
    prog = ctx.prog()
    cg = prog.callgraph()
    chk.configs.append("native -O0+mem2reg")
    chk.explanation = ("E1 must-pass-through: every path to the backend in the three public IETF ChaCha20 stream functions crosses the "
                       "misuse guard (for _xor_ic a condition depending on both ic and mlen; for the counter-0 forms a length bound "
                       "equal to the header constant); E2 who-may-call on the private extended-counter entry points.")
    chk.not_decided = "keystream values, carries inside the SIMD backends and the arithmetic of the guard threshold."
    fn = prog.need("crypto_stream_chacha20_ietf_xor_ic", rule="R3.1")
    IC, MLEN = ("arg", 4), ("arg", 2)
    ps = cm.paths(prog, fn)
    n = 0
    for p in ps:
        for e in p.calls(*EXT):
            n += 1
            guards = []
            for g in p.events[:e.idx]:
                if g.kind == "fact":
                    lv = T.leaves(g.term)
                    if IC in lv and MLEN in lv:
                        guards.append(g)
            ok = False
            for g in guards:
                # the opposite outcome of the same test must not be able to return
                for q in ps:
                    for h in q.events:
                        if h.kind == "fact" and h.term == g.term and h.truth != g.truth and h.iid == g.iid:
                            if q.kind == "noreturn" and q.events[-1].callee_name() == "sodium_misuse":
                                ok = True
                            elif q.kind != "noreturn":
                                ok = False
                                break
            chk.ob("R3.1", fn, "backend is reached only across a guard on (ic, mlen) whose refusing arm calls sodium_misuse()", ok,
                   loc=fn.loc(e.iid), detail="%d guard fact(s) on the path" % len(guards), path=None if ok else p,
                   key="R3.1 crypto_stream_chacha20_ietf_xor_ic guard")
            kmax_ic = prog.K("crypto_stream_chacha20_ietf_MESSAGEBYTES_MAX")
            iv = p.facts_before(e.idx).interval(MLEN) or (0, (1 << 64) - 1)
            okl = iv[1] <= kmax_ic
            chk.ob("R3.1-len", fn, "whatever ic is, the backend is reached only with mlen <= crypto_stream_chacha20_ietf_MESSAGEBYTES_MAX "
                   "(%d): a longer request needs more than 2^32 blocks" % kmax_ic, okl, loc=fn.loc(e.iid),
                   detail="path facts give mlen in [%d, %d] (the guard's unsigned subtraction wraps for mlen > 2^38)" % iv,
                   path=None if okl else p, key="R3.1-len crypto_stream_chacha20_ietf_xor_ic mlen-unbounded")
            okf = e.args[2] == MLEN and e.args[4] == IC
            chk.ob("R3.1", fn, "the guarded (mlen, ic) are the values handed to the backend", okf, loc=fn.loc(e.iid),
                   key="R3.1 crypto_stream_chacha20_ietf_xor_ic forwarded")
    chk.floor("R3.1", "paths of _ietf_xor_ic reaching the backend", n, 1)
    # R3.1-bind: the threshold itself, decided exactly for representative initial counters: with ic bound to the
    # constant k (conditional constant propagation), the longest length that can still reach the backend must be
    # at most 64 * (2^32 - k) bytes - one more byte would need block index 2^32
    nb = 0
    for k in (0, 1, 2, 3, 64, 1 << 31, (1 << 32) - 3, (1 << 32) - 2, (1 << 32) - 1):
        bind = [(("icmp", "eq", IC, T.C(k, 32)), True)]
        for p in cm.paths(prog, fn, assume=bind):
            for e in p.calls(*EXT):
                nb += 1
                iv = p.facts_before(e.idx).interval(MLEN) or (0, (1 << 64) - 1)
                lim = 64 * ((1 << 32) - k)
                ok = iv[1] <= lim
                chk.ob("R3.1-bind", fn, "with ic = %d the backend is reached only with mlen <= 64 * (2^32 - ic) = %d" % (k, lim), ok,
                       loc=fn.loc(e.iid), detail="path facts give mlen in [%d, %d]" % iv, path=None if ok else p,
                       key="R3.1-bind crypto_stream_chacha20_ietf_xor_ic threshold")
    chk.floor("R3.1-bind", "backend calls under a bound initial counter", nb, 9)
    kmax = prog.K("crypto_stream_chacha20_ietf_MESSAGEBYTES_MAX")
    for name, li in (("crypto_stream_chacha20_ietf", 1), ("crypto_stream_chacha20_ietf_xor", 2)):
        f = prog.need(name, rule="R3.1")
        k = 0
        fps = cm.paths(prog, f)
        for p in fps:
            for e in p.calls(*EXT):
                k += 1
                iv = p.facts_before(e.idx).interval(("arg", li)) or (0, (1 << 64) - 1)
                ok = iv[1] <= kmax
                chk.ob("R3.1", f, "length <= crypto_stream_chacha20_ietf_MESSAGEBYTES_MAX (%d) at the backend call" % kmax, ok,
                       loc=f.loc(e.iid), detail="path facts give length in [%d, %d]" % iv, path=None if ok else p,
                       key="R3.1 %s length-bound" % name)
            if p.kind == "ret" and not any(True for _ in p.calls(*EXT)):
                chk.ob("R3.1", f, "over-long requests do not return normally", False, loc=f.loc(p.end_iid), path=p,
                       key="R3.1 %s returns-without-backend" % name)
        if k == 0:
            raise AnalysisBroken("R3.1: %s never reaches the backend" % name)
    # who-may-call the unguarded extended-counter functions
    allowed = {"crypto_stream_chacha20_ietf", "crypto_stream_chacha20_ietf_xor_ic", "crypto_stream_chacha20_ietf_xor",
               "crypto_stream_chacha20_ietf_ext_xor"}
    xunit = "crypto_aead/xchacha20poly1305/"
    chk.suppress("R3.1-who", "functions of " + xunit,
                 "XChaCha20-Poly1305 is defined on the extended (64-bit) counter; its own MESSAGEBYTES_MAX bounds the length (C12 R12.1)")
    ncall = 0
    for nm in EXT:
        f = prog.need(nm, rule="R3.1-who")
        for ck in sorted(cg.callers().get(f.key, ()), key=str):
            c = cg.by_key[ck]
            ncall += 1
            chk.ob("R3.1-who", c, "caller of the unguarded %s is a guarded IETF entry point" % nm,
                   c.sname in allowed or c.unit.startswith(xunit), key="R3.1-who %s" % c.sname)
    chk.floor("R3.1-who", "call sites of the extended-counter functions", ncall, 5)

    carry_rule(prog, chk)
    # R3.12: "every backend" includes two callers inside one backend at the same time: no function of the stream units keeps per-call
    # state (a bounce buffer, a counter block) in static storage (E16). Runs before R3.3, whose instance floor counts *local* buffers.
    from .. import staticstate
    staticstate.static_state_rule(prog, chk, "R3.12", ("crypto_stream/",), floor=40)
    static_bounce = any(v["rule"] == "R3.12" for v in chk.violations)
    bounce_rule(prog, chk, floor=0 if static_bounce else 4)
    # R3.4: no identically-zero carry in the counter arithmetic of the stream units (E12; byte-wise counters of the
    # portable Salsa20 code: u += in[i]; in[i] = u; u >>= 8)
    batch_rule(prog, chk)
    counter_width_rule(ctx, prog, chk)
    sibling_wrapper_rule(prog, chk)
    single_core_rule(prog, chk)
    # R3.8: the one thing decided about the hand-written assembly backends: `rep stos` / `rep movs` sequences cover exactly the
    # length register they are given (E17) - the keystream form of the xmm6 Salsa20 code zeroes the output and XORs into it
    if prog.config == "native":
        from .. import asmstr
        asmstr.fill_rule(prog, chk, "R3.8", ("crypto_stream/",), floor=3)
    from .. import knownbits
    knownbits.dead_carry_rule(prog, chk, "R3.4", ("crypto_stream/",), floor=5)
    # R3.5: the byte-wise block counters of the portable Salsa20 family carry continuously (u += in[i]; in[i] = u; u >>= 8)
    knownbits.carry_continuity_rule(prog, chk, "R3.5", list(R35_FUNCTIONS), floor=4)
    counter_step_rule(prog, chk)


R35_FUNCTIONS = (
    ("stream_ref", "crypto_stream/salsa20/ref/"), ("stream_ref_xor_ic", "crypto_stream/salsa20/ref/"),
    ("crypto_stream_salsa2012", "crypto_stream/salsa2012/"), ("crypto_stream_salsa2012_xor", "crypto_stream/salsa2012/"),
    ("crypto_stream_salsa208", "crypto_stream/salsa208/"), ("crypto_stream_salsa208_xor", "crypto_stream/salsa208/"))


def counter_step_rule(prog, chk):
    """R3.11 the byte-wise block counter advances exactly once per block, unconditionally: inside the block loop every store to the
    (nonce, counter) input array of the core lies in one inner loop (the carry chain over bytes 8..15), and that loop is on every
    path from the core call to the next iteration (its header post-dominates the call). A shortcut that bumps byte 8 and only runs
    the chain `if it wrapped' advances the counter by one block for 255 blocks and then jumps."""
    from ..loopinv import natural_loops
    n = 0
    for name, usub in R35_FUNCTIONS:
        for f in [g for g in prog.functions() if not g.decl and g.sname == name and usub in g.unit]:
            loops = natural_loops(f)

            def aroot(o, f=f):
                for _ in range(32):
                    if o[0] != "v":
                        return None
                    d = f.insts[o[1]]
                    if d["op"] == "alloca":
                        return o[1]
                    if d["op"] in ("getelementptr", "bitcast"):
                        o = d["ops"][0]
                    else:
                        return None
                return None

            def pdom(a, b, f=f):
                """does block a post-dominate block b?"""
                seen = 0
                while b not in (-1, None) and seen < 1000:
                    if a == b:
                        return True
                    b = f.blocks[b].get("ipdom", -1)
                    seen += 1
                return False
            for i, ins in enumerate(f.insts):
                c = ins.get("callee")
                if ins["op"] != "call" or not c or c[0] != "g" or not c[1].startswith("crypto_core_salsa"):
                    continue
                outer = [(h, body) for h, body in loops.items() if ins["b"] in body]
                if not outer:
                    continue                   # the final partial block: the counter is not needed afterwards
                h, body = min(outer, key=lambda x: len(x[1]))
                arr = aroot(ins["ops"][1])
                if arr is None:
                    raise AnalysisBroken("R3.11: %s: the core's input block is not a local array" % name)
                inner = [(h2, b2) for h2, b2 in loops.items() if h2 != h and b2 < body]
                stores = [(j, s) for j, s in enumerate(f.insts) if s["op"] == "store" and s["b"] in body and aroot(s["ops"][1]) == arr]
                homes = set()
                stray = None
                for j, s_ in stores:
                    hs = [h2 for h2, b2 in inner if s_["b"] in b2]
                    if not hs:
                        stray = j
                    homes.update(hs[:1] if hs else [])
                # the carry chain moved into a helper of the unit: the call that hands it the input block is the update site
                cg = prog.callgraph()
                for j, s_ in enumerate(f.insts):
                    c2 = s_.get("callee")
                    if s_["op"] != "call" or s_["b"] not in body or not c2 or c2[0] != "g" or j == i:
                        continue
                    g = prog.fn(c2[1], f.unit)
                    if g is None or g.decl or not g.internal:
                        continue
                    for k, o in enumerate(s_.get("ops", [])):
                        if aroot(o) == arr and k in cg.writes_params(g):
                            stores.append((j, s_))
                            homes.add(s_["b"])
                n += 1
                ok = bool(stores) and stray is None and len(homes) == 1 and pdom(next(iter(homes)), ins["b"])
                why = ""
                if not ok:
                    if not stores:
                        why = "the block loop never updates the counter bytes"
                    elif stray is not None:
                        why = "the store at %s updates the input block outside the carry chain (a second, separate increment)" % f.loc(stray)
                    elif len(homes) != 1:
                        why = "the input block is updated in %d different inner loops" % len(homes)
                    else:
                        why = "the carry chain starting at %s is not on every path from the core call to the next block: the counter " \
                              "update is conditional" % f.loc(f.blocks[next(iter(homes))]["insts"][0])
                chk.ob("R3.11", f, "after the core call at %s the counter bytes are updated by one unconditional carry chain" % f.loc(i), ok,
                       loc=f.loc(stray if stray is not None else i), detail=why, key="R3.11 %s" % name)
    chk.floor("R3.11", "block loops of the portable Salsa20 family", n, 4)


# (stream function, the function that installs nonce and counter, unit substring). The two counter words are read from
# the set-up function: the stores whose value is load32_le(counter + 0) / load32_le(counter + 4) name LO / HI.
COUNTER_BACKENDS = (
    ("chacha20_encrypt_bytes", "chacha_ivsetup", "chacha20/ref/"),
    ("chacha20_encrypt_bytes", "chacha_ivsetup", "chacha20_dolbeau-ssse3"),
    ("chacha20_encrypt_bytes", "chacha_ivsetup", "chacha20_dolbeau-avx2"),
    ("salsa20_encrypt_bytes", "salsa_ivsetup", "salsa20_xmm6int-sse2"),
    ("salsa20_encrypt_bytes", "salsa_ivsetup", "salsa20_xmm6int-avx2"),
)


def counter_words(prog, setup):
    """byte ranges (LO, HI) of the context words that salsa_ivsetup / chacha_ivsetup fill from the 8-byte counter"""
    cn = Cones(setup, prog)
    found = {}
    for i, ins in enumerate(setup.insts):
        if ins["op"] != "store":
            continue
        r, off = cn.addr(ins["ops"][1])
        if r != ("a", 0) or off is None:
            continue
        # backward through phi / casts to calls of load32_le(counter + k)
        seen, stack = set(), [ins["ops"][0]]
        while stack:
            o = stack.pop()
            if o[0] != "v" or o[1] in seen:
                continue
            seen.add(o[1])
            d = setup.insts[o[1]]
            if d["op"] == "call" and (d.get("callee") or ["", ""])[1] == "load32_le":
                ar, aoff = cn.addr(d["ops"][0])
                if ar == ("a", 2) and aoff in (0, 4):
                    found[aoff] = (off, off + ins.get("size", 4))
            elif d["op"] == "load":
                ar, aoff = cn.addr(d["ops"][0])
                if ar == ("a", 2) and aoff in (0, 4) and d.get("size") == 4:
                    found[aoff] = (off, off + ins.get("size", 4))
            elif d["op"] == "phi":
                stack.extend(v for v, _b in d["inc"])
            elif d["op"] in ("bitcast", "zext", "trunc", "select"):
                stack.extend(d.get("ops", ()))
    if 0 not in found or 4 not in found:
        raise AnalysisBroken("R3.2: cannot read the counter words from %s (%s)" % (setup.name, setup.unit))
    return found[0], found[4]


VEC_ARITH = ("add", "sub", "mul", "xor", "or", "and", "shl", "lshr", "ashr")


def carry_rule(prog, chk):
    nfn = nwb = nvec = 0
    for name, setup, usub in COUNTER_BACKENDS:
        fns = [f for f in prog.functions() if f.name == name and usub in f.unit and not f.decl]
        if not fns:
            if chk.relaxed or "xmm6int-sse2" in usub:
                continue        # (the SSE2 intrinsics backend is compiled only when the xmm6 assembly is not)
            raise AnalysisBroken("R3.2: %s not found in a unit matching %s" % (name, usub))
        fn = fns[0]
        nfn += 1
        LO, HI = counter_words(prog, prog.need(setup, unit=fn.unit, rule="R3.2"))
        chk.note("R3.2 %s (%s): counter words are bytes %s (low) and %s (high) of the context" % (name, usub, LO, HI))
        cn = Cones(fn, prog)
        root = ("a", 0)

        def has(cone, rng):
            return any(overlaps(a, root, rng[0], rng[1]) for a in cone)

        def pure_hi(cone):
            return has(cone, HI) and not has(cone, LO)

        for i, ins in enumerate(fn.insts):
            op = ins["op"]
            if op == "store":
                r, off = cn.addr(ins["ops"][1])
                if r != root or off is None or not (off < HI[1] and HI[0] < off + ins.get("size", 0)):
                    continue
                if off < LO[1] and LO[0] < off + ins.get("size", 0):
                    continue        # one store covering both words: a 64-bit counter written whole
                nwb += 1
                c = cn.cone(ins["ops"][0])
                ok = has(c, LO)
                chk.ob("R3.2-wb", fn, "the high counter word written back at %s depends on the low word (carry)" % fn.loc(i), ok,
                       loc=fn.loc(i), key="R3.2-wb %s %s" % (name, usub))
            elif ins["ty"].startswith("<") and (op in VEC_ARITH or (op == "call" and str((ins.get("callee") or ["", ""])[1]).startswith("llvm.x86."))):
                ops = [o for o in ins.get("ops", ()) if o[0] in ("v", "a")]
                cones = [cn.cone(o) for o in ops]
                if not any(has(c, HI) for c in cones):
                    continue
                nvec += 1

                def counter_only(c, rngs):
                    return bool(c) and all(a[0] == "ld" and a[1] == root and a[2] is not None and
                                           any(r[0] <= a[2] and a[3] <= r[1] for r in rngs) for a in c)
                bad = None
                for k, c in enumerate(cones):
                    if counter_only(c, (HI,)):
                        foreign = [d for m, d in enumerate(cones) if m != k and d and not counter_only(d, (LO, HI))]
                        if foreign:
                            bad = ops[k]
                ok = bad is None
                chk.ob("R3.2-lane", fn, "no vector operation mixes a value derived from the high counter word alone into the cipher state", ok,
                       loc=fn.loc(i), detail="" if ok else "operand %s of %%%s depends on input[%d] only (never on input[%d]): its lanes are "
                       "consecutive blocks sharing one high word, so a carry out of the low word is lost"
                       % (bad, ins.get("name", i), HI[0] // 4, LO[0] // 4), key="R3.2-lane %s %s" % (name, usub))
    chk.floor("R3.2-wb", "stream backends with a 64-bit block counter", nfn, 4)
    chk.floor("R3.2-wb", "write-backs of the high counter word", nwb, 9)
    chk.floor("R3.2-lane", "vector operations downstream of the high counter word", nvec, 100)


BOUNCE_BACKENDS = (("chacha20_encrypt_bytes", "chacha20/ref/"), ("chacha20_encrypt_bytes", "chacha20_dolbeau-ssse3"),
                   ("chacha20_encrypt_bytes", "chacha20_dolbeau-avx2"), ("salsa20_encrypt_bytes", "salsa20_xmm6int-avx2"),
                   ("salsa20_encrypt_bytes", "salsa20_xmm6int-sse2"), ("stream_ref", "salsa20/ref/"),
                   ("stream_ref_xor_ic", "salsa20/ref/"))
WIPES = ("sodium_memzero", "memset", "llvm.memset", "explicit_bzero")


def bounce_rule(prog, chk, floor=4):
    cg = prog.callgraph()
    rr = cg.ranges()
    n = nfn = 0
    for name, usub in BOUNCE_BACKENDS:
        fns = [f for f in prog.functions() if f.name == name and usub in f.unit and not f.decl]
        if not fns:
            continue
        fn = fns[0]
        bufs = {("alloca", i) for i, ins in enumerate(fn.insts) if ins["op"] == "alloca" and ins.get("size", 0) >= 32
                and ins.get("aty", "").startswith("[")}
        if not bufs:
            continue
        nfn += 1
        # loops whose body reads a bounce buffer: reaching such a loop after the write is the copy-out (a zero-trip
        # exit means there were zero bytes to copy - the loop-head havoc of E1 cannot exclude it)
        from ..cone import Cones
        cn = Cones(fn, prog)
        read_loops = {}
        for i, ins in enumerate(fn.insts):
            if ins["op"] not in ("load", "call"):
                continue
            lp = fn.blocks[ins["b"]].get("loop")
            if not lp:
                continue
            cand = [ins["ops"][0]] if ins["op"] == "load" else [o for o in ins.get("ops", ()) if o[0] == "v"]
            for o in cand:
                if o[0] == "v" and not fn.insts[o[1]]["ty"].endswith("*"):
                    continue
                for r0 in cn.roots(o):
                    r0 = ("alloca", r0[1]) if r0[0] == "v" else None
                    if r0 in bufs:
                        read_loops.setdefault(r0, set()).add(lp)
        for p in cm.paths(prog, fn):
            if p.kind != "ret":
                continue
            last_w, last_r = {}, {}
            for e in p.events:
                if e.kind == "store":
                    r = T.root(e.addr)
                    if r in bufs and e.val[0] != "c":
                        last_w[r] = e
                elif e.kind == "load":
                    r = T.root(e.addr)
                    if r in bufs:
                        last_r[r] = e
                elif e.kind == "call":
                    nm = e.callee_name() or ""
                    for k, a in enumerate(e.args):
                        r = T.root(a)
                        if r not in bufs:
                            continue
                        if nm.startswith(WIPES):
                            continue
                        reads = writes = True
                        if e.callee[0] == "fn":
                            reads = bool(rr.reads(e.callee[1], k))
                            writes = bool(rr.writes(e.callee[1], k))
                        elif nm.startswith(("llvm.memcpy", "llvm.memmove", "memcpy", "memmove")):
                            reads, writes = k == 1, k == 0
                        if reads:
                            last_r[r] = e
                        if writes:
                            last_w[r] = e
            for r, w in last_w.items():
                n += 1
                rd = last_r.get(r)
                ok = rd is not None and rd.idx > w.idx
                if not ok:
                    for e in p.events[w.idx + 1:]:
                        blk = fn.blocks[fn.insts[e.iid]["b"]]
                        if blk.get("loophdr") and blk.get("loop") in read_loops.get(r, ()):
                            ok = True
                chk.ob("R3.3", fn, "data written into the local buffer %s is read again before the return" % T.show(r, fn), ok,
                       loc=fn.loc(w.iid), detail="" if ok else "last data write at %s, no later read on this path: the block never "
                       "reaches the output" % fn.loc(w.iid), path=None if ok else p, key="R3.3 %s %s" % (name, usub))
    chk.floor("R3.3", "stream backends with a local bounce buffer", nfn, floor)
    chk.floor("R3.3", "(path, bounce buffer) pairs with a data write", n, 6)


def batch_rule(prog, chk):
    """R3.6: no rounds output is carried from one batch of blocks into the next"""
    nh = 0
    for name, _setup, usub in COUNTER_BACKENDS:
        fns = [f for f in prog.functions() if f.name == name and usub in f.unit and not f.decl]
        if not fns:
            continue
        fn = fns[0]
        blocks, insts = fn.blocks, fn.insts
        headers = [b for b, blk in enumerate(blocks) if blk.get("loophdr")]
        # outer headers: some deeper loop header is dominated by them
        def dominated_by(b, h):
            seen = 0
            while b != -1 and seen < len(blocks):
                if b == h:
                    return True
                b = blocks[b].get("idom", -1)
                seen += 1
            return False
        for h in headers:
            d = blocks[h].get("loopdepth", 0)
            inner = [x for x in headers if x != h and blocks[x].get("loopdepth", 0) > d and dominated_by(x, h)]
            if not inner:
                continue
            nh += 1
            inner_blocks = {b for b, blk in enumerate(blocks) if blk.get("loopdepth", 0) > d and dominated_by(b, h)}
            for i in blocks[h]["insts"]:
                ins = insts[i]
                if ins["op"] != "phi":
                    break
                for v, pb in ins["inc"]:
                    if v[0] != "v" or not dominated_by(pb, h):
                        continue            # the value entering from outside the loop
                    # backward slice of the value carried around the batch loop
                    seen, stack, hit = set(), [v[1]], None
                    while stack and hit is None:
                        x = stack.pop()
                        if x in seen or x == i:
                            continue
                        seen.add(x)
                        xi = insts[x]
                        if xi["b"] in inner_blocks:
                            hit = x
                            break
                        if xi["op"] in ("load", "call", "alloca"):
                            continue
                        for o in xi.get("ops", ()):
                            if o[0] == "v":
                                stack.append(o[1])
                        for o, _b in xi.get("inc", ()):
                            if o[0] == "v":
                                stack.append(o[1])
                    ok = hit is None
                    chk.ob("R3.6", fn, "no rounds output is carried from one batch of blocks into the next", ok, loc=fn.loc(blocks[h]["insts"][-1]),
                           detail="" if ok else "%%%s is loop-carried around the batch loop and its next value comes out of the "
                           "round loop (%s): the following batch does not start from key, nonce and counter"
                           % (ins.get("name", i), fn.loc(hit)), key="R3.6 %s %s" % (name, usub))
            chk.ob("R3.6", fn, "batch loop at %s scanned for carried cipher state" % fn.loc(blocks[h]["insts"][-1]), True,
                   key="R3.6 %s %s scan-%d" % (name, usub, h))
    chk.floor("R3.6", "multi-block batch loops in the stream backends", nh, 5)


def counter_width_rule(ctx, prog, chk):
    """R3.7: every bit of an initial-counter parameter `ic` flows on (call argument or store)"""
    from .. import bitflow, e9
    units = {}

    def bf_of(unit):
        if unit not in units:
            units[unit] = bitflow.BitFlow(e9.O2Unit(ctx, unit))
        return units[unit]
    n = 0
    for fn in sorted(prog.functions(), key=lambda f: (f.unit, f.name)):
        if not fn.unit.startswith(("crypto_stream/", "crypto_secretbox/", "crypto_box/")):
            continue
        for k, p in enumerate(fn.params):
            if p["name"] != "ic" or p["ty"] not in ("i64", "i32"):
                continue
            bf = bf_of(fn.unit)
            if fn.name not in bf.unit.fns:
                raise AnalysisBroken("R3.7: %s vanished from the -O2 IR of %s" % (fn.name, fn.unit))
            width = int(p["ty"][1:])
            dead = []
            for bit in range(width):
                r = bf.analyse_int(fn.name, k, bit)
                if not (r["calls"] or r["stores"] or r["ret"]):
                    dead.append(bit)
            n += 1
            chk.ob("R3.7", fn, "all %d bits of the initial counter ic reach the cipher (call argument / store)" % width, not dead,
                   detail="bits %s of ic influence nothing: counters that differ only there produce the same keystream" %
                   (_ranges(dead),) if dead else "", key="R3.7 %s %s" % (fn.sname, fn.unit.split("/")[-1]))
    chk.floor("R3.7", "functions with an initial-counter parameter", n, 12)


def _ranges(bits):
    out, i = [], 0
    while i < len(bits):
        j = i
        while j + 1 < len(bits) and bits[j + 1] == bits[j] + 1:
            j += 1
        out.append("%d" % bits[i] if i == j else "%d..%d" % (bits[i], bits[j]))
        i = j + 1
    return ", ".join(out)


def sibling_wrapper_rule(prog, chk):
    """R3.9: same-named wrapper / set-up functions of sibling stream backends do the same thing"""
    import collections
    fams = collections.defaultdict(lambda: collections.defaultdict(list))
    for f in prog.functions():
        parts = f.unit.split("/")
        if parts[0] == "crypto_stream" and len(parts) >= 4:
            fams[parts[1]][f.sname].append(f)
    n = 0
    for fam, names in sorted(fams.items()):
        for name, fs in sorted(names.items()):
            if len(fs) < 2:
                continue
            sigs = {}
            core = False
            for f in fs:
                out = set()
                try:
                    ps = cm.paths(prog, f, inline_helpers=False, max_paths=200)
                except AnalysisBroken:
                    core = True
                    break
                for p in ps:
                    if p.kind != "ret":
                        continue
                    sh = cm.Shaper(prog, p, {i: q["name"] for i, q in enumerate(f.params)})
                    seq = []
                    for e in p.calls():
                        nm = e.callee_name() or e.callee[0]
                        if nm.startswith("llvm.x86") or nm == "asm":
                            core = True
                        def is_ptr(a):
                            return isinstance(a, tuple) and (a[0] in ("gep", "alloca") or
                                                             (a[0] == "arg" and f.params[a[1]]["ty"].endswith("*")))
                        seq.append((nm,) + tuple(str(sh.ptr(a)) if is_ptr(a) else (a[1] if isinstance(a, tuple) and a[0] == "c" else "*")
                                                 for a in (e.args or ())))
                    out.add(tuple(sorted(seq, key=str)))     # a multiset: independent set-up calls may come in any order
                sigs[f.unit] = out
            if core:
                continue
            ref = next((u for u in sorted(sigs) if "/ref/" in u), sorted(sigs)[0])
            for u in sorted(sigs):
                if u == ref:
                    continue
                n += 1
                ok = sigs[u] == sigs[ref]
                d = sorted(sigs[u] - sigs[ref]) or sorted(sigs[ref] - sigs[u])
                f = next(x for x in fs if x.unit == u)
                chk.ob("R3.9", f, "%s does the same as %s of the reference backend (%s)" % (name, name, ref.split("/")[-1]), ok, loc=f.loc(),
                       detail="" if ok else "call sequence only in %s: %s" % ("this backend" if sigs[u] - sigs[ref] else "the reference",
                                                                            " -> ".join(c[0] for c in d[0])[:300]),
                       key="R3.9 %s %s" % (name, u.split("/")[-1]))
    chk.floor("R3.9", "same-named wrapper functions compared across stream backends", n, 10 if prog.config == "native" else 0)


def single_core_rule(prog, chk):
    """R3.10: a stream function calls one core permutation only"""
    cg = prog.callgraph()
    n = 0
    for f in sorted(prog.functions(), key=lambda f: (f.unit, f.name)):
        if not f.unit.startswith("crypto_stream/"):
            continue
        cores = {}
        for iid, res in cg.sites[f.key]:
            for r in res:
                nm = r[1].sname if r[0] == "fn" else (r[1] if r[0] == "ext" else "")
                if nm.startswith("crypto_core_"):
                    cores.setdefault(nm, iid)
        if not cores:
            continue
        n += 1
        ok = len(cores) == 1
        chk.ob("R3.10", f, "all core calls of %s name the same permutation" % f.sname, ok,
               loc=f.loc(sorted(cores.values())[-1]), detail="" if ok else "calls %s" % ", ".join(
                   "%s at %s" % (k, f.loc(v)) for k, v in sorted(cores.items())), key="R3.10 %s" % f.sname)
    chk.floor("R3.10", "stream functions calling a core permutation", n, 6)
