"""C10 — backend selection is sound with respect to CPU features (necessary conditions of
backend-independent results).

Decided clauses:
  R10.1 (E4) selection soundness: a backend function / vtable is selected (stored into a dispatch
        slot, or called through a conditionally chosen symbol) only under runtime feature tests
        whose implied ISA features cover every feature the selected code (transitively) requires.
        Requirements come from the compiler's per-function target-features (minus the baseline),
        intrinsic-only features counting only where the intrinsic / inline asm is present;
        implications (avx2 => avx ...) are read from the compiler, not typed in.
  R10.2 slot completeness: every call through a dispatch slot targets a non-NULL function in every
        selectable vtable, or is dominated by a NULL test of that slot.
  R10.3 availability and flags: crypto_aead_aes256gcm_is_available is the conjunction of runtime
        flags whose implied features cover — and do not exceed — what the AES-GCM unit needs;
        public ISA-specific functions exist only in that unit; in the CPU-feature detection the
        AVX / AVX2 / AVX-512 flags are set only under the CPUID test and the XGETBV (OS state) test,
        AVX2 only under AVX, AVX-512 only under AVX2; accessors return their own field.
  R10.5 the Argon2 block-fill backends (ref / SSSE3 / AVX2 / AVX-512F) have the same role-normalised scalar
        control skeleton: every branch condition and every reference-index computation agrees (E7).
  R10.4 contradiction rules on the limb code of every alternative backend: no identically-zero carry
        (E12 known-bits) and no branch-free select mixing unrelated values.
  R10.6 (E11) the software stand-ins of the AES-NI lane intrinsics (softaes_block_*) let every bit of an integer operand reach the
        block they build.
  R10.7 every compiled stream backend carries its 64-bit block counter (C03's R3.2 engine: write-backs of the high word depend on
        the low word; no vector operation feeds a value derived from the high word alone into the state), so a backend that
        builds per-lane counters with 32-bit adds cannot silently diverge from the others when the low word wraps in a batch.
  R10.8 the SSE2 and the portable crypto_verify_n both return a verdict that depends on every byte and combine the per-position
        differences with OR only (C14's engine per configuration): XOR-accumulated block differences cancel in the SIMD build only.
  R10.9 every X25519 ladder entry reads scalar and point completely before its first write through q (C05's R5.3 per backend): in-place
        calls give the same result on every backend.
NOT decided: byte-identity of results across backends / build configurations (equivalence of
implementations).
"""
import os
import re
import subprocess

from .. import build
from .. import terms as T
from ..build import AnalysisBroken
from ..terms import C
from . import common as cm

FLAG_TO_M = {"sse2": "sse2", "sse3": "sse3", "ssse3": "ssse3", "sse41": "sse4.1", "avx": "avx", "avx2": "avx2",
             "avx512f": "avx512f", "pclmul": "pclmul", "aesni": "aes", "rdrand": "rdrnd"}
INTRINSIC_ONLY = {"aes": ("llvm.x86.aesni.",), "pclmul": ("llvm.x86.pclmulqdq",), "rdrnd": ("llvm.x86.rdrand.",),
                  "rdseed": ("llvm.x86.rdseed.",), "sha": ("llvm.x86.sha",), "xsave": ("llvm.x86.xsave", "llvm.x86.xgetbv"),
                  "crc32": ("llvm.x86.sse42.crc32",), "vaes": ("llvm.x86.aesni.aesenc.256", "llvm.x86.aesni.aesenc.512"),
                  "vpclmulqdq": ("llvm.x86.pclmulqdq.256", "llvm.x86.pclmulqdq.512")}
ASM_UNITS = {"crypto_stream/salsa20/xmm6/salsa20_xmm6-asm.S": {"sse2"},
             "crypto_scalarmult/curve25519/sandy2x/sandy2x.S": {"avx"}}
ASM_ENTRY = {"stream_salsa20_xmm6": {"sse2"}, "stream_salsa20_xmm6_xor_ic": {"sse2"},
             "ladder": {"avx"}, "ladder_base": {"avx"}, "fe51_mul": {"avx"}, "fe51_nsquare": {"avx"}, "fe51_pack": {"avx"}}


def feats(s):
    return {x[1:] for x in s.split(",") if x.startswith("+")}


def closures(wd, baseline):
    """features implied by each -m<flag>, as the compiler reports them (minus baseline)"""
    out = {}
    src = os.path.join(wd, "empty.c")
    open(src, "w").write("void f(void) {}\n")
    for flag, m in FLAG_TO_M.items():
        p = subprocess.run([build.CLANG, "-O0", "-S", "-emit-llvm", "-m" + m, "-o", "-", src], capture_output=True, text=True)
        mm = re.search(r'"target-features"="([^"]*)"', p.stdout)
        if p.returncode != 0 or not mm:
            raise AnalysisBroken("E4: cannot read the feature closure of -m%s from the compiler" % m)
        out[flag] = feats(mm.group(1)) - baseline
    return out


def run(ctx, chk):
    prog = ctx.prog()
    cg = prog.callgraph()
    chk.configs.append("native -O0+mem2reg")
    chk.explanation = (
        "E4: per-function ISA requirements (compiler target-features minus the baseline of sodium/runtime.c, intrinsic-only features "
        "counted only where used, propagated over direct calls) compared with the runtime feature tests guarding every selection "
        "site found by E1 (stores of backend symbols / vtables into dispatch slots, conditionally chosen callees); E2 vtable "
        "completeness; E1 on the availability report and on the CPUID / XGETBV control dependence of the AVX-family flags.")
    chk.not_decided = ("byte-identical results across backends and build configurations (the headline of C10) need equivalence proofs "
                       "of the implementations; the assembly units' requirements come from a two-row table.")
    rt = prog.modules.get("sodium/runtime.c")
    if rt is None:
        raise AnalysisBroken("R10: sodium/runtime.c not in the build")
    base = None
    for f in rt.functions.values():
        if not f.decl:
            fs = feats(f.features)
            base = fs if base is None else (base & fs)
    clo = closures(ctx.wd, base)
    chk.analysed["baseline features"] = sorted(base)

    # ---- requirements ------------------------------------------------------------------------------
    req = {}
    for f in prog.functions():
        fs = feats(f.features) - base
        used = set()
        has_asm = False
        for ins in f.insts:
            if ins["op"] == "call":
                c = ins["callee"]
                if c[0] == "g" and c[1].startswith("llvm.x86."):
                    for feat, prefixes in INTRINSIC_ONLY.items():
                        if any(c[1].startswith(p) for p in prefixes):
                            used.add(feat)
                elif c[0] == "asm":
                    has_asm = True
        r = set()
        for x in fs:
            if x in INTRINSIC_ONLY:
                if x in used or (has_asm and x in ("aes", "pclmul", "rdrnd")):
                    r.add(x)
            else:
                r.add(x)
        req[f.key] = r
    # external assembly entry points
    asm_req = dict(ASM_ENTRY)
    direct = {}      # direct (non-dispatched) call edges only: requirements do not flow up through a guarded slot
    for f in prog.functions():
        es = set()
        for ins in f.insts:
            if ins["op"] == "call" and ins["callee"][0] == "g":
                r_ = prog.resolve_callee(f, ins["callee"])
                if r_[0] == "fn":
                    es.add(r_[1].key)
        direct[f.key] = es
    changed = True
    while changed:
        changed = False
        for f in prog.functions():
            r = req[f.key]
            n0 = len(r)
            for ck in direct.get(f.key, ()):
                r |= req.get(ck, set())
            for x in cg.ext_calls.get(f.key, ()):
                if x in asm_req:
                    r |= asm_req[x]
            if len(r) != n0:
                changed = True
    nreq = sum(1 for r in req.values() if r)
    chk.floor("R10.1", "functions with ISA requirements above the baseline", nreq, 60)

    def req_of_symbol(fn, name):
        """requirements of selecting global `name` (a function or a vtable of functions)"""
        t = prog.fn(name, fn.unit)
        if t is not None:
            return set(req[t.key]), [t.sname]
        gd = prog.global_def(fn, name)
        if gd is None:
            return None, []
        ent = cg.global_fnptr.get((gd[0], name))
        if not ent:
            return None, []
        r, names = set(), []
        for fname in ent.values():
            t = prog.fn(fname, gd[0])
            if t is not None:
                r |= req[t.key]
                names.append(t.sname)
        return r, names

    def guard_features(p, upto):
        fb = p.facts_before(upto)
        g, flags = set(), []
        for e in p.events[:upto]:
            if e.kind == "call":
                nm = e.callee_name() or ""
                if nm.startswith("sodium_runtime_has_") and fb.zeroness(e.res) == "NZ":
                    fl = nm[len("sodium_runtime_has_"):]
                    if fl in clo:
                        g |= clo[fl]
                        flags.append(fl)
        return g, flags

    # ---- R10.1 selection sites -----------------------------------------------------------------------
    nsites = 0
    selected = set()
    for f in sorted(prog.functions(), key=lambda f: f.name):
        interesting = False
        for ins in f.insts:
            if ins["op"] == "store" and ins["ops"][0][0] == "g" and ins["ops"][1][0] == "g":
                interesting = True
            if ins["op"] in ("phi", "select"):
                vals = [v for v, _b in ins["inc"]] if ins["op"] == "phi" else ins["ops"][1:]
                if any(v[0] == "g" and prog.fn(v[1], f.unit) is not None for v in vals):
                    interesting = True
        if not interesting:
            continue
        seen = set()
        for p in cm.paths(prog, f):
            for e in p.events:
                sym = None
                if e.kind == "store" and e.val[0] == "g" and T.root(e.addr)[0] == "g":
                    sym = e.val[1]
                elif e.kind == "call" and e.callee[0] == "ind" and e.callee[1][0] == "g":
                    sym = e.callee[1][1]
                if sym is None:
                    continue
                r, names = req_of_symbol(f, sym)
                if r is None:
                    continue
                g, flags = guard_features(p, e.idx)
                k = (e.iid, sym, tuple(sorted(flags)))
                if k in seen:
                    continue
                seen.add(k)
                nsites += 1
                selected.add(sym)
                missing = r - g
                chk.ob("R10.1", f, "selecting %s requires %s; guarded by runtime flags %s" % (sym, sorted(r) or "nothing", flags or "none"),
                       not missing, loc=f.loc(e.iid), detail="" if not missing else "features not implied by the guard: %s (needed by %s)"
                       % (sorted(missing), names[:4]), path=p if missing else None, key="R10.1 %s selects-%s" % (f.sname, sym))
    chk.floor("R10.1", "backend selection sites (symbol x guard)", nsites, 20)
    # every ISA-specific function is entered only through a selection site, a same-or-higher ISA caller, or is a public AES-GCM API
    callers = cg.callers()
    nroot = 0
    for f in sorted(prog.functions(), key=lambda f: f.name):
        r = req[f.key]
        if not r:
            continue
        dcallers = [k for k, es in direct.items() if f.key in es]
        lower = [cg.by_key[c] for c in dcallers if not (req[c] >= r)]
        # lower callers must be calling under a guard
        for c in lower:
            for p in cm.paths(prog, c):
                for e in p.calls():
                    if e.callee[0] == "fn" and e.callee[1] is f:
                        g, flags = guard_features(p, e.idx)
                        ok = not (r - req[c.key] - g)
                        chk.ob("R10.1-call", c, "direct call into %s (needs %s) from lower-ISA code is guarded" % (f.sname, sorted(r)),
                               ok, loc=c.loc(e.iid), path=None if ok else p, key="R10.1-call %s -> %s" % (c.sname, f.sname))
        if f.public:
            nroot += 1
            ok = f.unit.startswith("crypto_aead/aes256gcm/aesni/")
            chk.ob("R10.3-pub", f, "public function with ISA requirements %s belongs to the hardware-only AES-GCM API" % sorted(r), ok,
                   key="R10.3-pub %s" % f.sname)
    chk.floor("R10.3-pub", "public ISA-specific functions", nroot, 8)

    # ---- R10.2 slot completeness ----------------------------------------------------------------------
    nslot = 0
    for f in sorted(prog.functions(), key=lambda f: f.name):
        if not any(ins["op"] == "call" and ins["callee"][0] == "v" for ins in f.insts):
            continue
        seen = set()
        for p in cm.paths(prog, f):
            for e in p.calls():
                if e.callee[0] != "ind" or e.iid in seen:
                    continue
                ins = f.insts[e.iid]
                slot = slot_of(cg, f, ins)
                if slot is None:
                    continue
                seen.add(e.iid)
                nslot += 1
                holes = []
                for (unit, gname), ent in cg.global_fnptr.items():
                    g = prog.modules[unit].globals[gname]
                    if g["ty"] == slot[0] and tuple(slot[1]) not in ent:
                        holes.append(gname)
                ok = not holes or p.facts_before(e.idx).zeroness(e.callee[1]) == "NZ"
                if holes and not ok:
                    # a hole is harmless if that vtable can never be the one the call reads
                    tg, complete = cg.resolve_indirect(f, ins)
                    ok = complete and bool(tg)
                    if ok and ins["callee"][0] == "v":
                        d = f.insts[ins["callee"][1]]
                        ok = d["op"] == "load" and d["ops"][0][0] == "ce"
                chk.ob("R10.2", f, "slot %s%s is non-NULL in every vtable it can be read from (or NULL-tested)" % (slot[0], list(slot[1])),
                       ok, loc=f.loc(e.iid), detail="NULL in %s" % holes if holes else "", path=None if ok else p,
                       key="R10.2 %s slot-%s" % (f.sname, "_".join(map(str, slot[1]))))
    chk.floor("R10.2", "calls through vtable slots", nslot, 25)

    # ---- R10.3 ----------------------------------------------------------------------------------------
    ia = prog.need("crypto_aead_aes256gcm_is_available", rule="R10.3")
    unit_req = set()
    for f in prog.functions():
        if f.unit == ia.unit:
            unit_req |= req[f.key]
    for p in cm.paths(prog, ia):
        flags = []
        for e in p.calls():
            nm = e.callee_name() or ""
            if nm.startswith("sodium_runtime_has_"):
                flags.append(nm[len("sodium_runtime_has_"):])
        # returned value is the AND of exactly these calls
        lv = {l for l in T.leaves(p.ret)} if p.ret else set()
        calls = {e.res for e in p.calls()}
        shape_ok = lv == calls and all_and(p.ret)
        implied = set()
        for fl in flags:
            implied |= clo.get(fl, set())
        chk.ob("R10.3", ia, "is_available is the conjunction of runtime flags implying every feature the AES-GCM code needs",
               shape_ok and not (unit_req - implied), loc=ia.loc(p.end_iid),
               detail="flags %s imply %s; unit needs %s" % (flags, sorted(implied), sorted(unit_req)),
               key="R10.3 crypto_aead_aes256gcm_is_available under-reports-requirements")
        extra = [fl for fl in flags if FLAG_TO_M.get(fl) not in unit_req]
        chk.ob("R10.3", ia, "is_available demands no feature the AES-GCM code does not use", not extra, loc=ia.loc(p.end_iid),
               detail="unneeded flags: %s" % extra, key="R10.3 crypto_aead_aes256gcm_is_available over-demands")
    # accessors and detection
    field = {}
    for fl in FLAG_TO_M:
        a = prog.need("sodium_runtime_has_" + fl, rule="R10.3")
        for p in cm.paths(prog, a):
            ld = [e for e in p.events if e.kind == "load" and T.root(e.addr) == ("g", "_cpu_features")]
            ok = len(ld) == 1 and p.ret == ld[0].res
            if ok:
                field[fl] = ld[0].addr
            chk.ob("R10.3", a, "accessor returns one field of the detected feature set", ok, loc=a.loc(p.end_iid),
                   key="R10.3 sodium_runtime_has_%s accessor" % fl)
    ok = len(set(field.values())) == len(field) == len(FLAG_TO_M)
    chk.ob("R10.3", "sodium_runtime_has_*", "each accessor reads its own distinct field", ok, key="R10.3 accessors alias")
    det = prog.need("_sodium_runtime_intel_cpu_features", rule="R10.3")
    offs = {fl: (a[2] if a[0] == "gep" else 0) for fl, a in field.items()}
    nset = 0
    for p in cm.paths(prog, det):
        if p.kind != "ret":
            continue
        load_of = {e.res: e for e in p.events if e.kind == "load"}
        xg = [e for e in p.calls() if e.callee[0] == "asm" and ".byte 0x0f, 0x01, 0xd0" in e.callee[1]]
        cpuid_res = {e.res for e in p.calls() if e.callee[0] == "asm" and "cpuid" in e.callee[1].lower() and e.res is not None}
        for e in p.stores():
            if e.addr[0] not in ("gep", "arg") or T.root(e.addr) != ("arg", 0):
                continue
            off = e.addr[2] if e.addr[0] == "gep" else 0
            fl = next((k for k, v in offs.items() if v == off), None)
            if fl not in ("avx", "avx2", "avx512f"):
                continue
            if e.val == C(0, 32):
                continue
            nset += 1
            fb = p.facts_before(e.idx)
            why = []
            # facts that depend on the XGETBV result / on CPUID output / on the lower flag
            dep_x = dep_c = dep_low = False
            low = {"avx2": "avx", "avx512f": "avx2"}.get(fl)
            terms = [t for t, v in fb.items] + ([e.val] if e.val[0] != "c" else [])
            for t in terms:
                for l in T.leaves(t):
                    if l[0] == "call" and xg and any(l == x.res for x in xg):
                        dep_x = True
                    if l in cpuid_res:
                        dep_c = True        # (the CPUID helper was inlined: its outputs are used directly)
                    if l[0] == "load":
                        le = load_of.get(l)
                        if le is not None:
                            r = T.root(le.addr)
                            if r[0] == "alloca":
                                dep_c = True
                            if low and r == ("arg", 0) and (le.addr[2] if le.addr[0] == "gep" else 0) == offs[low]:
                                dep_low = True
            if low:
                # the lower flag may have been folded by store-to-load forwarding: then its last store on
                # this very path is a non-zero constant (it is known to be set here)
                last = None
                for s_ in p.events[:e.idx]:
                    if s_.kind == "store" and T.root(s_.addr) == ("arg", 0) and (s_.addr[2] if s_.addr[0] == "gep" else 0) == offs[low]:
                        last = s_
                if last is not None and fb.zeroness(last.val) == "NZ":
                    dep_low = True
            if not dep_c:
                why.append("no CPUID bit test")
            if fl in ("avx", "avx512f") and not dep_x:
                why.append("no XGETBV (OS state) test")
            if low and not dep_low:
                why.append("not conditioned on has_%s" % low)
            chk.ob("R10.3-os", det, "has_%s is set only under the CPUID test%s%s" % (
                fl, " and the XGETBV OS-state test" if fl != "avx2" else "", " and has_%s" % low if low else ""), not why,
                loc=det.loc(e.iid), detail="; ".join(why), path=p if why else None, key="R10.3-os has_%s" % fl)
    chk.floor("R10.3-os", "non-zero stores to the AVX-family flags on detection paths", nset, 3)

    # ---- R10.4 contradiction rules on the limb code of the alternative backends ----------------------------------------
    # "the same bytes whichever implementation is in use" cannot be decided as an equivalence; what can be is that no backend
    # of a multi-backend primitive contains a cut carry chain (a shift / mask that is identically zero) or a branch-free
    # select that mixes unrelated values - the two defect shapes that make one backend differ from its siblings only for
    # inputs of probability ~2^-128 (Poly1305 final reduction, field-element freeze).
    from .. import knownbits
    BACKEND_UNITS = ("crypto_onetimeauth/poly1305/", "crypto_scalarmult/curve25519/", "crypto_generichash/blake2b/ref/blake2b-compress",
                     "crypto_stream/", "crypto_pwhash/argon2/argon2-fill-block", "crypto_shorthash/")
    knownbits.dead_carry_rule(prog, chk, "R10.4", BACKEND_UNITS,
                              allowed=[("_sodium_scalarmult_curve25519_sandy2x_fe_frombytes",
                                        "sandy2x decoder: h9 has 25 bits by construction, `carry9 = h9 >> 25` is zero by design")], floor=60)
    knownbits.select_idiom_rule(prog, chk, "R10.4", BACKEND_UNITS, floor=3)

    # ---- R10.7 every stream backend carries its 64-bit block counter (same engine as C03 R3.2, reported here because a backend
    # that builds per-lane counters with 32-bit adds diverges from the others only when the low word wraps inside a batch) -------
    from . import c03

    class _Renamed:
        def __init__(self, inner):
            self._c = inner

        def ob(self, rule, *a, **kw):
            if "key" in kw and kw["key"]:
                kw["key"] = "R10.7/" + kw["key"]
            return self._c.ob("R10.7/" + rule, *a, **kw)

        def floor(self, rule, *a, **kw):
            return self._c.floor("R10.7/" + rule, *a, **kw)

        def __getattr__(self, n):
            return getattr(self._c, n)
    c03.carry_rule(prog, _Renamed(chk))

    # ---- R10.8 the SIMD and the portable crypto_verify_n agree on what "equal" means: both combine per-position differences with OR
    # only (C14's R14.1 / R14.3 engine on this configuration's worker; the portable pass of the thorough tier runs it on the byte loop)
    from . import c14

    class _Renamed8(_Renamed):
        def ob(self, rule, *a, **kw):
            if "key" in kw and kw["key"]:
                kw["key"] = "R10.8/" + kw["key"]
            return self._c.ob("R10.8/" + rule, *a, **kw)

        def floor(self, rule, *a, **kw):
            return self._c.floor("R10.8/" + rule, *a, **kw)
    c14.verify_rules(prog, _Renamed8(chk))

    # ---- R10.9 the portable and the AVX X25519 ladder both consume scalar and point before touching the output (C05's R5.3 engine):
    # a backend that uses q as scratch gives [n]n for q == p while the other backend still gives [n]p
    from . import c05

    class _Renamed9(_Renamed):
        def ob(self, rule, *a, **kw):
            if "key" in kw and kw["key"]:
                kw["key"] = "R10.9/" + kw["key"]
            return self._c.ob("R10.9/" + rule, *a, **kw)

        def floor(self, rule, *a, **kw):
            return self._c.floor("R10.9/" + rule, *a, **kw)
    c05.inplace_rule(prog, _Renamed9(chk))

    # ---- R10.11 the low-order rejection only the portable X25519 backend performs never narrows its accumulated
    # differences with loss (C05's R5.10, E12): return codes do not depend on the backend
    c05.small_order_rule(prog, chk, "R10.11")

    # ---- R10.10 the assembly fast paths of sodium_add / sodium_sub / sodium_increment propagate one carry chain like the byte loop
    # of the builds without assembly (C14's R14.8 engine, carry and once parts)
    if not chk.relaxed:
        c14.asm_limb_rule(prog, chk, "R10.10", parts=("carry", "once", "guard"))

    # ---- R10.6 the portable AES block helpers use every bit of their integer operands (E11) ----------------------------------
    softaes_rule(ctx, prog, chk)

    # ---- R10.5 sibling agreement of the Argon2 block-fill backends (E7) ---------------------------------------------------
    cm.sibling_skeleton_rule(prog, chk, "R10.5", ["argon2_fill_segment_ref", "argon2_fill_segment_ssse3", "argon2_fill_segment_avx2",
                                                   "argon2_fill_segment_avx512f"], {0: "INST", 1: "POS"},
                             ("index_alpha", "generate_addresses"), floor_shapes=20)


def all_and(t):
    if t is None:
        return False
    if t[0] == "call":
        return True
    if t[0] == "bin" and t[1] == "and":
        return all_and(t[2]) and all_and(t[3])
    if t[0] == "cast":
        return all_and(t[2])
    return False


def slot_of(cg, f, ins):
    c = ins["callee"]
    if c[0] != "v":
        return None
    d = f.insts[c[1]]
    if d["op"] != "load":
        return None
    a = d["ops"][0]
    if a[0] == "v":
        g = f.insts[a[1]]
        if g["op"] == "getelementptr":
            s = cg._slot_of_gep(f, g)
            return s
    if a[0] == "ce" and a[1] == "getelementptr":
        return cg._slot_of_gep(f, a[3])
    return None


def softaes_rule(ctx, prog, chk):
    """R10.6: the software counterparts of the AES-NI lane intrinsics (softaes_block_*) let every bit of an integer operand reach
    the block they build - _mm_set_epi64x(a, b) does, so a helper that drops or duplicates a lane makes the portable backend
    differ from the hardware one (for AEGIS: the length block of the tag, for messages / AD >= 2^29 bytes)"""
    from .. import bitflow, e9
    units = {}
    n = 0
    for fn in sorted(prog.functions(), key=lambda f: (f.unit, f.name)):
        if not fn.sname.startswith("softaes_block_"):
            continue
        for k, p in enumerate(fn.params):
            if p["ty"] not in ("i64", "i32"):
                continue
            if fn.unit not in units:
                units[fn.unit] = bitflow.BitFlow(e9.O2Unit(ctx, fn.unit))
            bf = units[fn.unit]
            if fn.name not in bf.unit.fns:
                continue                   # not emitted at -O2 (unused static inline)
            width = int(p["ty"][1:])
            dead = []
            for b in range(width):
                r = bf.analyse_int(fn.name, k, b)
                if not (r["ret"] or r["stores"] or r["calls"]):
                    dead.append(b)
            n += 1
            chk.ob("R10.6", fn, "every bit of the integer operand %s reaches the block built by %s" % (p["name"], fn.sname), not dead,
                   detail="bits %d..%d of %s are dropped: the portable backend builds a different block than the AES-NI one" %
                   (dead[0], dead[-1], p["name"]) if dead else "", key="R10.6 %s %s %s" % (fn.sname, p["name"], fn.unit.split("/")[-1]))
    chk.floor("R10.6", "integer operands of softaes_block_* helpers", n, 4)
