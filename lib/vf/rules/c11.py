"""C11 — secret data never influences branches or memory addresses (decided at LLVM-IR level).

E3 taint analysis (taint.py) from the secret parameters of each listed operation through every C
backend the dispatch slots can select (one consistent backend combination at a time).
Sinks: branch / switch conditions, load / store address components, memcpy/memset lengths,
variable-time libc calls, inline asm with conditional jumps. Public results named by the property
(success / failure status, identity-result errors) are declassified at the call that produces them.
NOT decided: machine-code effects of instruction selection; the seven assembly units (the sandy2x
X25519 ladder and the xmm6 Salsa20 core have no IR); non-x86 arms.
"""
import itertools

from .. import taint
from ..build import AnalysisBroken

# functions whose *result* is public although it is computed from secrets: None = in every caller, otherwise only in the
# named callers (elsewhere the result stays secret, so branching on it is reported).
def _full_compare(fn, ins, target):
    """the verdict of a constant-time comparison is the public accept / reject status only when it covers the *whole* secret it is
    compared against: a local authenticator buffer must be compared from offset 0 over its full size (a verdict on the first half of
    a tag, used to decide whether to look at the second half, is a secret-dependent branch)"""
    name = target.sname
    n = None
    if name.startswith("crypto_verify_"):
        n = int(name.rsplit("_", 1)[1])
    elif len(ins.get("ops", [])) >= 3 and ins["ops"][2][0] == "i":
        n = ins["ops"][2][1]
    for o in ins.get("ops", [])[:2]:
        off = 0
        while o[0] == "v":
            d = fn.insts[o[1]]
            if d["op"] == "bitcast":
                o = d["ops"][0]
            elif d["op"] == "getelementptr" and not d.get("var") and d.get("off") is not None:
                off += d["off"]
                o = d["ops"][0]
            else:
                break
        if o[0] == "v" and fn.insts[o[1]]["op"] == "alloca":
            size = fn.insts[o[1]].get("size")
            if n is None or off != 0 or size != n:
                return False
    return True


DECLASS_RET = {
    "crypto_verify_16": _full_compare, "crypto_verify_32": _full_compare, "crypto_verify_64": _full_compare,
    "sodium_memcmp": _full_compare, "sodium_compare": None,
    # "is the encoded result / the scalar all-zero?" is the documented error status of these four scalar multiplications
    # only; anywhere else (e.g. the is-zero tests inside the square-root / inversion helpers) it stays secret
    "sodium_is_zero": {"_crypto_scalarmult_ed25519", "_crypto_scalarmult_ed25519_base",
                       "crypto_scalarmult_ristretto255", "crypto_scalarmult_ristretto255_base"},
    "_crypto_scalarmult_ed25519_is_inf": None,                # identity-result error
    "crypto_scalarmult_curve25519": None, "crypto_scalarmult": None,      # all-zero shared point => failure status
    "crypto_onetimeauth_poly1305_verify": None, "crypto_onetimeauth_verify": None,
}

# (entry, secret pointee parameter indices, secret value parameter indices)
ENTRIES = [
    ("crypto_verify_16", (0, 1), ()), ("crypto_verify_32", (0, 1), ()), ("crypto_verify_64", (0, 1), ()),
    ("sodium_memcmp", (0, 1), ()), ("sodium_compare", (0, 1), ()), ("sodium_is_zero", (0,), ()),
    ("crypto_scalarmult_curve25519", (1,), ()), ("crypto_scalarmult_curve25519_base", (1,), ()),
    ("crypto_sign_ed25519_seed_keypair", (2,), ()), ("crypto_sign_ed25519_keypair", (), ()),
    ("crypto_sign_ed25519_detached", (2, 4), ()), ("crypto_sign_ed25519", (2, 4), ()),
    ("crypto_sign_ed25519_sk_to_curve25519", (1,), ()),
    ("crypto_scalarmult_ed25519", (1,), ()), ("crypto_scalarmult_ed25519_noclamp", (1,), ()),
    ("crypto_scalarmult_ed25519_base", (1,), ()), ("crypto_scalarmult_ed25519_base_noclamp", (1,), ()),
    ("crypto_scalarmult_ristretto255", (1,), ()), ("crypto_scalarmult_ristretto255_base", (1,), ()),
    ("crypto_core_ed25519_scalar_invert", (1,), ()), ("crypto_core_ed25519_scalar_negate", (1,), ()),
    ("crypto_core_ed25519_scalar_complement", (1,), ()), ("crypto_core_ed25519_scalar_add", (1, 2), ()),
    ("crypto_core_ed25519_scalar_sub", (1, 2), ()), ("crypto_core_ed25519_scalar_mul", (1, 2), ()),
    ("crypto_core_ed25519_scalar_reduce", (1,), ()),
    ("crypto_core_ristretto255_scalar_invert", (1,), ()), ("crypto_core_ristretto255_scalar_mul", (1, 2), ()),
    ("crypto_core_ristretto255_scalar_add", (1, 2), ()), ("crypto_core_ristretto255_scalar_reduce", (1,), ()),
    ("crypto_stream_chacha20", (3,), ()), ("crypto_stream_chacha20_xor", (1, 4), ()), ("crypto_stream_chacha20_xor_ic", (1, 5), ()),
    ("crypto_stream_chacha20_ietf", (3,), ()), ("crypto_stream_chacha20_ietf_xor", (1, 4), ()),
    ("crypto_stream_chacha20_ietf_xor_ic", (1, 5), ()),
    ("crypto_stream_xchacha20", (3,), ()), ("crypto_stream_xchacha20_xor", (1, 4), ()), ("crypto_stream_xchacha20_xor_ic", (1, 5), ()),
    ("crypto_stream_salsa20", (3,), ()), ("crypto_stream_salsa20_xor", (1, 4), ()), ("crypto_stream_salsa20_xor_ic", (1, 5), ()),
    ("crypto_stream_salsa2012", (3,), ()), ("crypto_stream_salsa2012_xor", (1, 4), ()),
    ("crypto_stream_salsa208", (3,), ()), ("crypto_stream_salsa208_xor", (1, 4), ()),
    ("crypto_stream_xsalsa20", (3,), ()), ("crypto_stream_xsalsa20_xor", (1, 4), ()), ("crypto_stream_xsalsa20_xor_ic", (1, 5), ()),
    ("crypto_onetimeauth_poly1305", (1, 3), ()),
    ("crypto_hash_sha256", (1,), ()), ("crypto_hash_sha512", (1,), ()),
    ("crypto_auth_hmacsha256", (1, 3), ()), ("crypto_auth_hmacsha512", (1, 3), ()), ("crypto_auth_hmacsha512256", (1, 3), ()),
    # verification: message and key secret, candidate tag public; only the verdict on the whole authenticator is public
    ("crypto_auth_hmacsha256_verify", (1, 3), ()), ("crypto_auth_hmacsha512_verify", (1, 3), ()),
    ("crypto_auth_hmacsha512256_verify", (1, 3), ()), ("crypto_onetimeauth_poly1305_verify", (1, 3), ()),
    ("crypto_generichash_blake2b", (2, 4), ()),
    ("crypto_shorthash_siphash24", (1, 3), ()), ("crypto_shorthash_siphashx24", (1, 3), ()),
    ("crypto_aead_aes256gcm_encrypt", (2, 8), ()), ("crypto_aead_aes256gcm_encrypt_detached", (3, 9), ()),
    ("crypto_aead_aes256gcm_beforenm", (1,), ()),
    ("crypto_aead_chacha20poly1305_encrypt", (2, 8), ()), ("crypto_aead_chacha20poly1305_ietf_encrypt", (2, 8), ()),
    ("crypto_aead_xchacha20poly1305_ietf_encrypt", (2, 8), ()),
    ("crypto_secretbox_easy", (1, 4), ()), ("crypto_secretbox_xchacha20poly1305_easy", (1, 4), ()),
    ("crypto_core_hchacha20", (1, 2), ()), ("crypto_core_hsalsa20", (1, 2), ()),
    ("sodium_bin2hex", (2,), ()), ("sodium_bin2base64", (2,), ()),
    ("sodium_unpad", (1,), ()),
    ("crypto_kdf_blake2b_derive_from_key", (4,), ()), ("crypto_kdf_hkdf_sha256_extract", (1, 3), ()),
    ("crypto_kdf_hkdf_sha256_expand", (4,), ()),
]
# multi-part APIs: (label, [(function, state parameter index, secret pointee indices)]) run in order on one state
SEQUENCES = [
    ("sha256 init/update/final", [("crypto_hash_sha256_init", 0, ()), ("crypto_hash_sha256_update", 0, (1,)),
                                  ("crypto_hash_sha256_final", 0, ())]),
    ("sha512 init/update/final", [("crypto_hash_sha512_init", 0, ()), ("crypto_hash_sha512_update", 0, (1,)),
                                  ("crypto_hash_sha512_final", 0, ())]),
    ("hmacsha256 init/update/final", [("crypto_auth_hmacsha256_init", 0, (1,)), ("crypto_auth_hmacsha256_update", 0, (1,)),
                                      ("crypto_auth_hmacsha256_final", 0, ())]),
    ("hmacsha512 init/update/final", [("crypto_auth_hmacsha512_init", 0, (1,)), ("crypto_auth_hmacsha512_update", 0, (1,)),
                                      ("crypto_auth_hmacsha512_final", 0, ())]),
    ("poly1305 init/update/final", [("crypto_onetimeauth_poly1305_init", 0, (1,)), ("crypto_onetimeauth_poly1305_update", 0, (1,)),
                                    ("crypto_onetimeauth_poly1305_final", 0, ())]),
    ("blake2b init/update/final", [("crypto_generichash_blake2b_init", 0, (1,)), ("crypto_generichash_blake2b_update", 0, (1,)),
                                   ("crypto_generichash_blake2b_final", 0, ())]),
    ("ed25519ph init/update/final_create", [("crypto_sign_ed25519ph_init", 0, ()), ("crypto_sign_ed25519ph_update", 0, (1,)),
                                            ("crypto_sign_ed25519ph_final_create", 0, (3,))]),
]
# positive controls: code documented as variable-time; the detector must report sinks here on every run
FIXTURES = [("ge25519_double_scalarmult_vartime", (1, 3), ()), ("sodium_hex2bin", (2,), ())]
# reviewed constructs (one symbol each, with the sentence of the property that permits it)
ALLOW = {
}


def run_entry(prog, fn, pts, vals):
    """sinks of one entry over every consistent combination of dispatch-slot targets"""
    cg = prog.callgraph()
    probe = taint.Taint(prog, DECLASS_RET)
    probe.run_entry(fn, vals, pts)
    slots = sorted(probe.slots_seen)
    tables = []
    for sty in slots:
        opts = [(u, g) for (u, g) in cg.global_fnptr if prog.modules[u].globals[g]["ty"] == sty]
        if opts:
            tables.append((sty, sorted(opts)))
    sinks, notes, visited, ncombo = {}, {}, set(), 0
    if not tables:
        combos = [()]
    else:
        combos = itertools.product(*[[(sty, o) for o in opts] for sty, opts in tables])
    for combo in combos:
        ncombo += 1
        t = taint.Taint(prog, DECLASS_RET, choose=dict(combo))
        t.run_entry(fn, vals, pts)
        for k, s in t.sinks.items():
            s.combo = combo
            sinks.setdefault(k, s)
        notes.update(t.notes)
        visited |= t.visited
    return sinks, notes, visited, ncombo, [s for s, _o in tables]


def run_sequence(prog, steps):
    cg = prog.callgraph()
    fns = [(prog.need(n, rule="R11-seq"), si, pts) for n, si, pts in steps]
    probe = taint.Taint(prog, DECLASS_RET)
    probe.run_sequence(fns)
    slots = sorted(probe.slots_seen)
    tables = []
    for sty in slots:
        opts = [(u, g) for (u, g) in cg.global_fnptr if prog.modules[u].globals[g]["ty"] == sty]
        if opts:
            tables.append((sty, sorted(opts)))
    combos = [()] if not tables else itertools.product(*[[(sty, o) for o in opts] for sty, opts in tables])
    sinks, visited, ncombo = {}, set(), 0
    for combo in combos:
        ncombo += 1
        t = taint.Taint(prog, DECLASS_RET, choose=dict(combo))
        t.run_sequence(fns)
        for k, s in t.sinks.items():
            sinks.setdefault(k, s)
        visited |= t.visited
    return sinks, visited, ncombo


def analyse(prog, chk, tag=""):
    cg = prog.callgraph()
    nent = 0
    allv = set()
    for name, pts, vals in ENTRIES:
        fn = prog.fn(name)
        if fn is None:
            if tag:
                continue        # not compiled in this configuration (e.g. AES-NI unit in the portable build)
            raise AnalysisBroken("C11: entry %s vanished" % name)
        nent += 1
        sinks, notes, visited, ncombo, slots = run_entry(prog, fn, pts, vals)
        allv |= visited
        bad = []
        for k, s in sorted(sinks.items(), key=str):
            ak = (s.fn.sname, s.kind)
            if ak in ALLOW:
                chk.suppress("R11", "%s/%s" % ak, ALLOW[ak])
                continue
            bad.append(s)
        chk.ob("R11", fn, "no branch, address, length or variable-time call depends on the secret inputs of %s%s "
               "(%d function(s), %d backend combination(s))" % (name, tag, len(visited), ncombo), not bad,
               detail="; ".join("%s at %s: %s [via %s]" % (s.fn.sname, s.fn.loc(s.iid), s.detail, " <- ".join(s.chain[-3:]))
                                for s in bad[:6]),
               loc=bad[0].fn.loc(bad[0].iid) if bad else None,
               key="R11 %s%s %s" % (name, tag, (bad[0].fn.sname + "/" + bad[0].kind) if bad else ""))
        for (k, (f, iid, d, ch)) in list(notes.items())[:3]:
            chk.note("%s%s: %s at %s (note, not a violation: the property speaks of branches and addresses)" % (name, tag, d, f.loc(iid)))
    nseq = 0
    for label, steps in SEQUENCES:
        if any(prog.fn(n) is None for n, _si, _p in steps):
            if tag:
                continue
            raise AnalysisBroken("C11: sequence %s: a step vanished" % label)
        nseq += 1
        sinks, visited, ncombo = run_sequence(prog, steps)
        allv |= visited
        bad = [s for k, s in sorted(sinks.items(), key=str) if (s.fn.sname, s.kind) not in ALLOW]
        chk.ob("R11-seq", steps[-1][0], "no branch, address, length or variable-time call depends on the secrets fed through %s%s "
               "(%d function(s), %d backend combination(s))" % (label, tag, len(visited), ncombo), not bad,
               detail="; ".join("%s at %s: %s [via %s]" % (s.fn.sname, s.fn.loc(s.iid), s.detail, " <- ".join(s.chain[-3:]))
                                for s in bad[:6]),
               loc=bad[0].fn.loc(bad[0].iid) if bad else None,
               key="R11-seq %s%s %s" % (label.split()[0], tag, (bad[0].fn.sname + "/" + bad[0].kind) if bad else ""))
    chk.floor("R11-seq", "multi-part API sequences analysed" + tag, nseq, 6)
    chk.floor("R11", "secret-processing entry points analysed" + tag, nent, 60 if not tag else 40)
    chk.analysed["R11: distinct functions traversed by the taint analysis" + tag] = len(allv)
    return allv


def run(ctx, chk):
    prog = ctx.prog()
    chk.configs.append("native -O0+mem2reg")
    chk.explanation = (
        "E3: summary-based interprocedural secret-taint analysis on the SSA IR with byte-range-sensitive memory objects, run from the "
        "secret parameters of every listed operation, once per consistent combination of backends selectable through the dispatch "
        "slots; sinks are branch/switch conditions, address components of loads and stores, memcpy/memset lengths, variable-time "
        "libc calls and inline asm with conditional jumps. Two documented variable-time functions serve as positive controls.")
    chk.not_decided = ("machine-code effects of instruction selection (a `select` is not a sink at IR level) and the assembly units "
                       "(sandy2x ladder, xmm6 Salsa20) are outside what the analysis sees.")
    chk.assumptions += ["sub-object discipline: an inbounds index into an array field stays inside that field",
                        "the misuse handler and libc are not analysed"]
    analyse(prog, chk)
    # positive controls
    for name, pts, vals in FIXTURES:
        fn = prog.need(name, rule="R11-fixture")
        sinks, _n, _v, _c, _s = run_entry(prog, fn, pts, vals)
        chk.floor("R11", "fixture: sinks reported in variable-time %s (detector is live)" % name, len(sinks), 1)
    if ctx.tier == "thorough":
        pp = ctx.prog(config="portable")
        chk.configs.append("portable (no asm, no SIMD, no 128-bit integers, byte-wise loads)")
        analyse(pp, chk, " [portable]")
