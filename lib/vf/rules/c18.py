"""C18 — random generation: secrets are fully covered by the installed source; bounded and
deterministic generation have the stated shape.

Decided clauses:
  R18.1 every library function that draws randomness asks randombytes_buf for at least the public
        size of the secret it generates (sizes compared with the header constants; locals and
        globals must be filled entirely) and the random bytes are not overwritten afterwards.
  R18.1-deleg a public generator (*_keygen / *_keypair / *_random) that fills its output by calling another generator calls one whose
        public size constant has the same value (crypto_kdf_hkdf_sha512_KEYBYTES is 64, crypto_auth_hmacsha512_KEYBYTES is 32).
  R18.2 single source (who-may-call): entropy / time / pid externals and the RDRAND intrinsic are
        called only inside randombytes/; the randombytes implementation slots are called only from
        randombytes.c.
  R18.3 randombytes_uniform returns 0 for n < 2, else r mod n for the last draw r, on a path
        holding not (r < min) with min a function of n only; randombytes_buf_deterministic is one
        ChaCha20-IETF call over the caller's (buf, size, seed) with the constant 'LibsodiumDRG' nonce.
  R18.4 the installed source is sticky: the implementation pointer is private to randombytes.c and
        assigned only by randombytes_set_implementation (the caller's value) and - when still NULL -
        by randombytes_init_if_needed (the default); no other path replaces or clears it.
  R18.5 a generated secret does not depend on what the output buffer held before: in every function that draws a constant number
        of bytes into an output parameter, every returning path draws, and nothing reads the buffer (load, or call receiving
        it) before the first draw - a `while (!valid(r)) draw(r)` loop returns the caller's stale bytes when they happen to be valid.
  R18.6 every dispatch in randombytes.c fetches the function pointer from the struct `implementation` points to at the time of the
        call (no cached copy of a slot can survive randombytes_set_implementation()).
  R18.8 the internal generator's refill keeps the rekeying material (pool[W, W+32)) outside the part of the pool it hands out (pool[0, O)).
  R18.7 the pointer to the installed source is process-global (a thread-local one makes the installation per thread).
NOT decided: that min == 2^32 mod n (arithmetic); bit-exact replay.
"""
import re

from .. import terms as T
from ..build import AnalysisBroken
from ..terms import C
from . import common as cm

ENTROPY_EXT = {"getrandom", "getentropy", "arc4random", "arc4random_buf", "arc4random_uniform", "open", "read", "openat",
               "time", "clock_gettime", "gettimeofday", "getpid", "rand", "random", "srand", "srandom", "clock", "fopen",
               "fread", "poll", "fstat"}
SUFFIX_MACRO = [("_keygen", ["_KEYBYTES"]), ("_keypair", ["_SECRETKEYBYTES"]), ("_scalar_random", ["_SCALARBYTES"]),
                ("_init_push", ["_HEADERBYTES"]), ("_random", ["_UNIFORMBYTES", "_HASHBYTES"]),
                ("_str", ["_SALTBYTES", "_STRSALTBYTES"])]


ALSO_PORTABLE = True


def run(ctx, chk):
    prog = ctx.prog()
    cg = prog.callgraph()
    chk.configs.append("native -O0+mem2reg")
    chk.explanation = ("E1 on every randombytes_buf call site outside randombytes/ (destination root, size term, later writes) against the "
                       "header constants paired by the public function name; E2 who-may-call on entropy externals / RDRAND / the "
                       "implementation slots; E1 shape analysis of randombytes_uniform and randombytes_buf_deterministic.")
    chk.not_decided = "the value of the rejection threshold (2^32 mod n) and bit-exact replay under a replaying source."
    # ---- R18.1 ----------------------------------------------------------------------------------------
    n = 0
    gens = []
    for f in sorted(prog.functions(), key=lambda f: f.name):
        if f.unit.startswith("randombytes/"):
            continue
        if not any(i["op"] == "call" and i["callee"][0] == "g" and i["callee"][1] in ("randombytes_buf", "randombytes") for i in f.insts):
            continue
        gens.append(f)
        seen = set()
        for p in cm.paths(prog, f):
            for e in p.calls("randombytes_buf", "randombytes"):
                dest, size = e.args[0], e.args[1]
                r = T.root(dest)
                # later overwrites of the random bytes (derivations read them; nothing else may write them)
                load_root = {u.res: T.root(u.addr) for u in p.events if u.kind == "load" and u.res is not None}
                later = []
                for u in p.events[e.idx + 1:]:
                    if u.kind not in ("store", "call") or not cm.writes_through(prog, p, u, r):
                        continue
                    if u.kind == "store" and any(load_root.get(l) == r for l in T.leaves(u.val)):
                        continue        # derived from the random bytes themselves (masking / clamping)
                    if u.kind == "call" and u.callee_name() in ("randombytes_buf", "randombytes"):
                        continue        # redraw
                    later.append(u)
                if (e.iid, bool(later)) in seen:
                    continue
                seen.add((e.iid, bool(later)))
                n += 1
                ok, why = True, ""
                if r[0] == "alloca":
                    asz = f.insts[r[1]].get("size")
                    if not (dest == r and size[0] == "c" and size[1] == asz):
                        ok, why = False, "local of %s bytes is filled with %s bytes" % (asz, T.show(size, f))
                    want = macro_for(prog, f.name)
                    if ok and want and size[1] not in want.values():
                        ok, why = False, "%d random bytes; public size is %s" % (size[1], want)
                elif r[0] == "g":
                    gd = prog.global_def(f, r[1])
                    gsz = gd[1]["size"] if gd else None
                    if not (dest == r and size[0] == "c" and size[1] == gsz):
                        ok, why = False, "global of %s bytes is filled with %s bytes" % (gsz, T.show(size, f))
                elif r[0] == "arg":
                    if size[0] == "c":
                        want = macro_for(prog, f.name)
                        if not want:
                            ok, why = False, "no public size constant is paired with %s" % f.name
                        elif size[1] not in want.values() or dest != r:
                            ok, why = False, "%d random bytes at %s; public size is %s" % (size[1], T.show(dest, f), want)
                    elif size[0] == "arg":
                        pass    # fill-this-buffer helper: (buffer parameter, its length parameter)
                    else:
                        ok, why = False, "size %s is neither a constant nor a length parameter" % T.show(size, f)
                else:
                    ok, why = False, "destination %s is not a parameter, local or global" % T.show(dest, f)
                if ok and later and r[0] == "arg" and size[0] == "c":
                    ok, why = False, "random bytes are overwritten at %s" % f.loc(later[0].iid)
                chk.ob("R18.1", f, "randombytes_buf request covers the whole generated secret", ok, loc=f.loc(e.iid),
                       detail=why or "%s bytes into %s" % (T.show(size, f), T.show(dest, f)), path=None if ok else p,
                       key="R18.1 %s coverage" % f.sname)
    chk.floor("R18.1", "randombytes_buf call sites outside randombytes/", n, 40)
    # ---- R18.1-deleg a generator that delegates hands its output to a generator of the same public size ---------------------------
    nd = 0
    gen_names = {g.sname for g in gens}
    for f in sorted(prog.functions(), key=lambda f: f.name):
        if not f.public or f in gens or f.unit.startswith("randombytes/"):
            continue
        mine = macro_for(prog, f.sname)
        if not mine or not any(f.sname.endswith(sf) for sf in ("_keygen", "_keypair", "_scalar_random", "_random")):
            continue
        for p in cm.paths(prog, f):
            for e in p.calls():
                if e.callee[0] != "fn" or not e.args or e.args[0] != ("arg", 0):
                    continue
                g = e.callee[1]
                theirs = macro_for(prog, g.sname)
                if not theirs or not any(g.sname.endswith(sf) for sf in ("_keygen", "_keypair", "_scalar_random", "_random")):
                    continue
                nd += 1
                ok = bool(set(mine.values()) & set(theirs.values()))
                chk.ob("R18.1-deleg", f, "a delegating generator hands its output to a generator of the same public size", ok, loc=f.loc(e.iid),
                       path=None if ok else p, detail="" if ok else "%s (%s) is filled by %s (%s): the remaining bytes keep the caller's old "
                       "buffer content" % (f.sname, mine, g.sname, theirs), key="R18.1-deleg %s" % f.sname)
            break
    chk.floor("R18.1-deleg", "delegating generator functions", nd, 3)
    # ---- R18.7 the installed source is one per process ------------------------------------------------------------------------
    gimpl = prog.modules["randombytes/randombytes.c"].globals.get("implementation")
    if gimpl is None:
        raise AnalysisBroken("R18.7: the implementation pointer of randombytes.c was not found")
    chk.ob("R18.7", "randombytes/randombytes.c::implementation", "the pointer to the installed source is a process-global object (not thread-local)",
           not gimpl.get("tls"), detail="" if not gimpl.get("tls") else "thread-local: randombytes_set_implementation() installs the source for "
           "the calling thread only, every other thread silently falls back to the default generator", key="R18.7 implementation tls")
    # ---- R18.8 the internal generator never hands out the pool bytes it rekeys with (and then wipes) ----------------------------------
    # On the refill path of randombytes_internal_random the pool [P, P + N) is filled by crypto_stream_chacha20, `rnd32_outleft` is set
    # to a constant O (words are popped from below O), and randombytes_internal_random_xorkey takes the key material at P + W: the two
    # regions are disjoint iff W >= O (and W + 32 <= N). Otherwise the wiped key material is served as "random" words.
    rir = prog.fn("randombytes_internal_random")
    if rir is not None:
        n188 = 0
        ps188 = cm.paths(prog, rir)
        # the counter of unread pool bytes: the slot that is decremented by the size of one word where no refill happens
        slots = {e.addr for p in ps188 for e in p.events if e.kind == "store" and e.val[0] == "bin" and e.val[1] == "sub"
                 and e.val[3][0] == "c" and e.val[2][0] == "load"}
        if len(slots) != 1:
            raise AnalysisBroken("R18.8: the pool counter of randombytes_internal_random was not identified")
        slot = next(iter(slots))
        for p in ps188:
            if p.kind != "ret":
                continue
            fill = [e for e in p.calls("crypto_stream_chacha20")]
            xk = [e for e in p.calls("randombytes_internal_random_xorkey")]
            if not fill or not xk:
                continue
            sets = [e for e in p.events if e.kind == "store" and e.addr == slot and e.val[0] == "c"][:1]
            P, N = fill[0].args[0], fill[0].args[1]
            K = xk[0].args[0]
            n188 += 1
            decidable = bool(sets) and P[0] == "gep" and K[0] == "gep" and P[1] == K[1] and not P[3] and not K[3] and N[0] == "c"
            if not decidable:
                raise AnalysisBroken("R18.8: pool / key-material / outleft of randombytes_internal_random are not constant offsets on the refill path")
            O, W = sets[-1].val[1], K[2] - P[2]
            ok = W >= O and W + 32 <= N[1]
            chk.ob("R18.8", rir, "refill: words are popped from pool[0, %d), the rekeying material is pool[%d, %d): disjoint" % (O, W, W + 32), ok,
                   loc=rir.loc(xk[0].iid), detail="" if ok else "the 32 bytes xored into the key and wiped afterwards lie inside the part of the "
                   "pool that randombytes_random() hands out: every pool serves %d constant words" % ((min(O, W + 32) - W) // 4),
                   path=None if ok else p, key="R18.8 internal pool")
        chk.floor("R18.8", "refill paths of randombytes_internal_random", n188, 1)
    # ---- R18.6 every dispatch reads the installed source at call time ---------------------------------------------------------
    n6 = 0
    for f in sorted(prog.functions(), key=lambda f: f.name):
        if f.unit != "randombytes/randombytes.c":
            continue
        seen6 = set()
        for p in cm.paths(prog, f):
            for e in p.calls():
                if e.callee[0] != "ind" or e.iid in seen6:
                    continue
                seen6.add(e.iid)
                n6 += 1
                fp = e.callee[1]
                ld = [x for x in p.events[:e.idx] if x.kind == "load" and x.res == fp]
                ok = False
                src = "a value that is not loaded from memory"
                if ld:
                    base = T.root(ld[-1].addr)
                    src = T.show(ld[-1].addr, f)
                    bl = [x for x in p.events[:ld[-1].idx] if x.kind == "load" and x.res == base]
                    ok = bool(bl) and bl[-1].addr == ("g", "implementation")
                chk.ob("R18.6", f, "the generator function is fetched from *implementation when it is called", ok, loc=f.loc(e.iid),
                       path=None if ok else p, detail="" if ok else "the function pointer comes from %s: a copy made earlier keeps "
                       "pointing at the previous source after randombytes_set_implementation()" % src, key="R18.6 %s dispatch" % f.sname)
    chk.floor("R18.6", "indirect calls in randombytes.c", n6, 6)
    # ---- R18.5 the generated secret does not depend on what the output buffer held -----------------------------------------
    n5 = 0
    for f in gens:
        ps = [p for p in cm.paths(prog, f) if p.kind == "ret"]
        outs = set()
        for p in ps:
            for e in p.calls("randombytes_buf", "randombytes"):
                if e.args[0][0] == "arg" and e.args[1][0] == "c":
                    outs.add(e.args[0])
        for OUT in sorted(outs):
            pn = f.params[OUT[1]]["name"]
            for p in ps:
                if p.may_return_nonzero() and not p.may_return_zero() and f.ret != "void":
                    continue                # an error exit before the draw produces no secret
                draws = [e for e in p.calls("randombytes_buf", "randombytes") if e.args[0] == OUT]
                first = draws[0].idx if draws else len(p.events)
                stale = [e for e in p.events[:first]
                         if (e.kind == "load" and T.root(e.addr) == OUT) or
                            (e.kind == "call" and any(isinstance(a, tuple) and T.root(a) == OUT for a in e.args))]
                n5 += 1
                ok = bool(draws) and not stale
                chk.ob("R18.5", f, "the random output is drawn on every returning path, and nothing reads the buffer before the first draw", ok,
                       loc=f.loc(stale[0].iid) if stale else f.loc(p.end_iid), path=None if ok else p,
                       detail="" if ok else ("%s returns without requesting any byte for %s" % (f.sname, pn) if not draws else
                                             "%s is examined at %s before the first randombytes_buf(): the result depends on the caller's "
                                             "stale buffer content" % (pn, f.loc(stale[0].iid))),
                       key="R18.5 %s %s" % (f.sname, pn))
    chk.floor("R18.5", "returning paths of functions that draw into an output parameter", n5, 12)

    # ---- R18.2 ----------------------------------------------------------------------------------------
    nsite = 0
    for f in prog.functions():
        inside = f.unit.startswith("randombytes/")
        for iid, res in cg.sites[f.key]:
            for r in res:
                if r[0] == "ext" and (r[1] in ENTROPY_EXT or "rdrand" in r[1] or "rdseed" in r[1]):
                    nsite += 1
                    # file-descriptor / stat helpers are also used by nothing else in the library
                    chk.ob("R18.2", f, "entropy / time / pid source %s is used only inside randombytes/" % r[1], inside,
                           loc=f.loc(iid), key="R18.2 %s calls-%s" % (f.sname, r[1]))
            ins = f.insts[iid]
            c = ins["callee"]
            if c[0] == "v":
                # calls through a randombytes_implementation slot
                d = f.insts[c[1]]
                if d["op"] == "load" and d["ops"][0][0] == "v":
                    g = f.insts[d["ops"][0][1]]
                    if g["op"] == "getelementptr" and g.get("sty") == "%struct.randombytes_implementation":
                        nsite += 1
                        chk.ob("R18.2", f, "randombytes implementation slots are invoked only from randombytes.c",
                               f.unit == "randombytes/randombytes.c", loc=f.loc(iid), key="R18.2 %s calls-slot" % f.sname)
    chk.floor("R18.2", "entropy-source and slot call sites", nsite, 8)

    # ---- R18.3 ----------------------------------------------------------------------------------------
    un = prog.need("randombytes_uniform", rule="R18.3")
    UB = ("arg", 0)
    k = 0
    for p in cm.paths(prog, un):
        if p.kind != "ret":
            continue
        slot = [e for e in p.calls() if e.callee[0] == "ind" and e.res == p.ret]
        if slot:
            continue        # a source that supplies its own bounded generator (excluded by the property)
        k += 1
        draws = [e for e in p.calls("randombytes_random")]
        if not draws:
            ok = p.ret == C(0, 32) and p.facts.truth(T.mk_icmp("ult", UB, C(2, 32))) is True
            chk.ob("R18.3", un, "without a draw the result is 0 and n < 2", ok, loc=un.loc(p.end_iid), path=None if ok else p,
                   key="R18.3 randombytes_uniform no-draw")
            continue
        # the returned value is X mod n; X is a draw (directly, or the loop-carried variable every incoming value
        # of which is a draw), and the path holds not (X < threshold) with the threshold computed from n only
        drawres = {d.res for d in draws}
        flows = {}          # loop variable -> draws that flowed into it on this path
        for kk, vv in p.env.items():
            if isinstance(kk, tuple) and kk[0] == "hin" and vv in drawres:
                flows.setdefault(("havoc", kk[1], kk[2]), set()).add(vv)
        ok = p.ret[0] == "bin" and p.ret[1] == "urem" and p.ret[3] == UB
        X = p.ret[2] if ok else None
        why = "" if ok else "returns %s" % T.show(p.ret, un)
        if ok:
            is_draw = X in drawres or (X[0] == "havoc" and flows.get(X))
            if not is_draw:
                ok, why = False, "the reduced value %s is not a value drawn from randombytes_random()" % T.show(X, un)
        if ok:
            acc = [t for t, v in p.facts.items if v and t[0] == "icmp" and t[1] == "uge" and t[2] == X]
            if not acc:
                ok, why = False, "no fact 'not (r < min)' for the returned draw"
            elif T.leaves(acc[0][3]) != {UB}:
                ok, why = False, "threshold depends on %s, not on n only" % [T.show(x, un) for x in T.leaves(acc[0][3])]
            elif p.facts.truth(T.mk_icmp("uge", UB, C(2, 32))) is not True:
                ok, why = False, "n >= 2 not established"
        chk.ob("R18.3", un, "result is (last accepted draw) mod n with the draw >= a threshold computed from n only", ok,
               loc=un.loc(p.end_iid), detail=why, path=None if ok else p, key="R18.3 randombytes_uniform shape")
        # rejected draws are redrawn: every draw other than the returned one was below the threshold
        for d in draws:
            if d.res == X:
                continue
            carriers = [d.res] + [h for h, ds in flows.items() if d.res in ds]
            if X in carriers and d is draws[-1]:
                continue        # this draw is the one that flowed into the returned variable last
            rej = any(v and t[0] == "icmp" and t[1] == "ult" and t[2] in carriers for t, v in p.facts.items)
            chk.ob("R18.3", un, "an earlier draw was discarded only because it was below the threshold", rej, loc=un.loc(d.iid),
                   path=None if rej else p, key="R18.3 randombytes_uniform redraw")
    chk.floor("R18.3", "exits of randombytes_uniform without custom generator", k, 2)

    det = prog.need("randombytes_buf_deterministic", rule="R18.3")
    k = 0
    for p in cm.paths(prog, det):
        if p.kind != "ret":
            continue
        k += 1
        ev = [e for e in p.calls() if e.callee[0] in ("fn", "ind") and e.callee_name() != "sodium_misuse"]
        ok = len(ev) == 1 and ev[0].callee_name() == "crypto_stream_chacha20_ietf" and ev[0].args[0] == ("arg", 0) \
            and ev[0].args[1] == ("arg", 1) and ev[0].args[3] == ("arg", 2) and ev[0].args[2][0] == "g"
        why = ""
        if ok:
            gd = prog.global_def(det, ev[0].args[2][1])
            init = gd[1].get("init") if gd else None
            by = bytes(init[1]) if init and init[0] == "ints" else b""
            if not (gd and gd[1]["const"] and by == b"LibsodiumDRG"):
                ok, why = False, "nonce is %r (const=%s)" % (by, gd[1]["const"] if gd else None)
        chk.ob("R18.3", det, "deterministic generation = crypto_stream_chacha20_ietf(buf, size, 'LibsodiumDRG', seed)", ok,
               loc=det.loc(p.end_iid), detail=why, path=None if ok else p, key="R18.3 randombytes_buf_deterministic")
    chk.floor("R18.3", "returning paths of randombytes_buf_deterministic", k, 1)

    # ---- R18.4 the installed source stays installed -----------------------------------------------------------
    # `implementation` (randombytes.c) is assigned only by randombytes_set_implementation (the caller's pointer) and by
    # randombytes_init_if_needed on the path where it was found NULL (the default); nothing else - in particular no
    # close / stir / reset path - may replace or clear it, or later secrets silently come from another generator.
    RU = "randombytes/randombytes.c"
    IMPL = ("g", "implementation")
    nw = 0
    for f in prog.functions():
        if f.decl or f.unit != RU:
            continue
        if not any(ins["op"] == "store" and ins["ops"][1][:2] == ["g", "implementation"] for ins in f.insts):
            continue
        for p in cm.paths(prog, f):
            for e in p.events:
                if e.kind != "store" or e.addr != IMPL:
                    continue
                nw += 1
                if f.sname == "randombytes_set_implementation":
                    ok = e.val == ("arg", 0)
                    what = "randombytes_set_implementation installs exactly the caller's implementation"
                elif f.sname == "randombytes_init_if_needed":
                    fb = p.facts_before(e.idx)
                    seen_null = any(l.kind == "load" and l.addr == IMPL and l.idx < e.idx and fb.zeroness(l.res) == "Z" for l in p.events)
                    ok = seen_null and e.val[0] in ("g", "gep") and T.root(e.val)[0] == "g"
                    what = "the default generator is installed only when no implementation is set"
                else:
                    ok = False
                    what = "only randombytes_set_implementation / randombytes_init_if_needed assign the implementation pointer"
                chk.ob("R18.4", f, what, ok, loc=f.loc(e.iid), detail="stores %s" % T.show(e.val, f), path=None if ok else p,
                       key="R18.4 %s writes-implementation" % f.sname)
    # other units cannot name the (static) pointer; make sure it still is internal
    gd = prog.global_def(RU, "implementation")
    chk.ob("R18.4", "randombytes.c", "the implementation pointer is private to randombytes.c", bool(gd) and bool(gd[1].get("internal")),
           key="R18.4 implementation-linkage")
    chk.floor("R18.4", "stores to the implementation pointer", nw, 2)


def macro_for(prog, name):
    for suf, macros in SUFFIX_MACRO:
        if name.endswith(suf):
            pre = name[:-len(suf)]
            out = {}
            for m in macros:
                if pre + m in prog.consts:
                    out[pre + m] = prog.consts[pre + m]
            if suf == "_keypair" and pre + "_SEEDBYTES" in prog.consts and not out:
                out[pre + "_SEEDBYTES"] = prog.consts[pre + "_SEEDBYTES"]
            if suf == "_keypair":
                if pre + "_SEEDBYTES" in prog.consts:
                    out[pre + "_SEEDBYTES"] = prog.consts[pre + "_SEEDBYTES"]
            return out
    return {}
