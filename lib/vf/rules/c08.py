"""C08 — password hashing: parameter limits and the needs-rehash tri-state.

Decided clauses:
  R8.1 limits: at every call into a hash core and at every exit that reports success, each cost /
       length parameter of the raw and string APIs lies in the interval [MIN, MAX] of its public
       header constants (intervals from branch facts); the generic crypto_pwhash* dispatchers only
       forward their arguments unchanged to those checked functions. For the low-level scrypt
       entry (N, r, p) both backends establish N in [2, 2^32-1] and a power of two, r*p < 2^30,
       r, p != 0, and agree with each other on the whole set of guards (E7).
  R8.2 needs_rehash: return values are exactly -1 / 0 / 1; 0 or 1 only after every decode step
       succeeded; 0 only with an equality fact for every compared parameter; 1 only with a
       difference fact.
  R8.2-refuse before decoding, the Argon2 needs_rehash core answers -1 only for a requested opslimit / memlimit
       above the documented maximum, an over-long string or a failed allocation (intervals from branch facts).
  R8.5 the Argon2 block-fill backends have the same scalar control skeleton (reference lane / index arithmetic,
       segment iteration): sibling agreement, E7.
  R8.4 the SIMD Argon2 address generators hand a freshly zero-filled block to the in-place compression
       function at every use (its last writer on the path is the zero fill).
  R8.2-valid needs_rehash answers 0 / 1 for an Argon2 string only if the decoded parameters passed
       argon2_validate_inputs() (inside argon2_decode_string on every success exit, or in the caller).
  R8.6 the scrypt setting-string decoder accepts exactly the characters the encoder emits (reader's and writer's tables
       agree): decode64_one() succeeds either through a search in the very table encode64_uint32() indexes, returning the
       position found, or through a reverse table that - for every byte value the success path admits (interval from the
       branch facts) - maps the byte to a position whose entry in the encoder's table is that byte. A byte outside the
       alphabet that decodes to some digit lets a corrupted parameter field verify and be reported as up to date.
  R8.7 Argon2's variable-length hash H' (blake2b_long) uses a single BLAKE2b call exactly when one call can produce the output:
       the arm that initialises the hash with the caller's outlen holds outlen <= crypto_generichash_blake2b_BYTES_MAX, the
       chained arm (hash initialised with the constant BYTES_MAX) holds outlen >= BYTES_MAX + 1 (RFC 9106, 3.3: T <= 64).
  R8.8 both scrypt cores hand the same things to PBKDF2: escrypt_kdf_sse and escrypt_kdf_nosse call escrypt_PBKDF2_SHA256 twice, with
       (passwd, passwdlen, salt, saltlen, 1, B, 128 * r * p) and (passwd, passwdlen, B, 128 * r * p, 1, buf, buflen): the B length is
       the same linear product in both calls and in both backends (E7; the portable core is only selected without SSE2 or before
       sodium_init(), so a slip there is invisible on the test machine).
NOT decided: Argon2 / scrypt output values, string grammar strictness.
"""
from .. import terms as T
from ..build import AnalysisBroken
from ..terms import C
from . import common as cm

A2 = "crypto_pwhash_argon2"
SC = "crypto_pwhash_scryptsalsa208sha256"


def rows(prog):
    out = []
    for alg in ("i", "id"):
        pre = "%s%s" % (A2, alg)
        out.append((pre, {1: ("outlen", pre + "_BYTES_MIN", pre + "_BYTES_MAX"),
                          3: ("passwdlen", pre + "_PASSWD_MIN", pre + "_PASSWD_MAX"),
                          5: ("opslimit", pre + "_OPSLIMIT_MIN", pre + "_OPSLIMIT_MAX"),
                          6: ("memlimit", pre + "_MEMLIMIT_MIN", pre + "_MEMLIMIT_MAX")},
                    {"argon2%s_hash_raw" % alg}))
        out.append((pre + "_str", {2: ("passwdlen", pre + "_PASSWD_MIN", pre + "_PASSWD_MAX"),
                                   3: ("opslimit", pre + "_OPSLIMIT_MIN", pre + "_OPSLIMIT_MAX"),
                                   4: ("memlimit", pre + "_MEMLIMIT_MIN", pre + "_MEMLIMIT_MAX")},
                    {"argon2%s_hash_encoded" % alg}))
    # scrypt: the wrapper maps (opslimit, memlimit) to (N, r, p) by pickparams(), which by design accepts any value
    # (clamping opslimit to its minimum); the upstream vectors themselves use memlimit < MEMLIMIT_MIN. The property's
    # "reject out-of-range parameters" is carried for scrypt by the length limits here and the (N, r, p) guards (R8.1s).
    out.append((SC, {1: ("outlen", SC + "_BYTES_MIN", SC + "_BYTES_MAX"),
                     3: ("passwdlen", SC + "_PASSWD_MIN", SC + "_PASSWD_MAX")},
                {SC + "_ll"}))
    out.append((SC + "_str", {2: ("passwdlen", SC + "_PASSWD_MIN", SC + "_PASSWD_MAX")},
                {"escrypt_r"}))
    return out


ALSO_PORTABLE = True


def run(ctx, chk):
    prog = ctx.prog()
    cg = prog.callgraph()
    chk.configs.append("native -O0+mem2reg")
    chk.explanation = (
        "E1 interval facts at every call into a hash core and at every success exit of the raw / string password-hashing APIs, "
        "compared with the [MIN, MAX] constants the compiler folded from sodium.h (R8.1); argument-forwarding check of the generic "
        "dispatchers; guard facts and sibling agreement of the two low-level scrypt backends; tri-state and decode-before-answer "
        "analysis of the needs_rehash functions (R8.2).")
    chk.not_decided = "Argon2 / scrypt outputs, the encoded-string grammar and the cost->(N,r,p) mapping are value-level."
    chk.assumptions.append("public parameter positions of the crypto_pwhash* prototypes are the ABI roles")

    # ---- R8.1 ------------------------------------------------------------------------------------
    ncore = nexit = 0
    rowfns = {}
    for name, params, cores in rows(prog):
        fn = prog.need(name, rule="R8.1")
        rowfns[fn.key] = params
        for p in cm.paths(prog, fn):
            if p.kind != "ret":
                continue
            sites = [(e.idx, "call to %s at %s" % (e.callee_name(), fn.loc(e.iid))) for e in p.calls() if e.callee_name() in cores]
            ncore += len(sites)
            if p.may_return_zero():
                sites.append((len(p.events), "success return at %s" % fn.loc(p.end_iid)))
                nexit += 1
            for idx, what in sites:
                fb = p.facts_before(idx)
                for pi, (role, kmin, kmax) in sorted(params.items()):
                    lo, hi = prog.K(kmin), prog.K(kmax)
                    iv = fb.interval(("arg", pi)) or (0, (1 << 64) - 1)
                    ok = lo <= iv[0] and iv[1] <= hi
                    chk.ob("R8.1", fn, "%s in [%s, %s] at %s" % (role, kmin.split("_")[-2] + "_MIN", kmax.split("_")[-2] + "_MAX", what),
                           ok, loc=fn.loc(p.end_iid), detail="path facts give %s in [%d, %d]; limits [%d, %d]" % (role, iv[0], iv[1], lo, hi),
                           path=None if ok else p, key="R8.1 %s %s-%s" % (name, role, "unbounded" if (iv[0] < lo and iv[1] > hi) else
                                                         ("below-min" if iv[0] < lo else "above-max")))
    chk.floor("R8.1", "calls into hash cores on analysed paths", ncore, 6)
    chk.floor("R8.1", "success exits of raw/str APIs", nexit, 6)

    # generic dispatchers forward unchanged to row functions
    nd = 0
    for name in ("crypto_pwhash", "crypto_pwhash_str", "crypto_pwhash_str_alg"):
        fn = prog.need(name, rule="R8.1d")
        for p, conj in cm.exits_returning(prog, fn, "Z"):
            nd += 1
            ok = False
            why = "success without a call to an algorithm-specific function that returned 0"
            for e in p.calls():
                if e.callee[0] == "fn" and e.callee[1].key in rowfns and cm.call_is_zero(p, e, conj):
                    par = rowfns[e.callee[1].key]
                    # every limited parameter receives one of the dispatcher's own parameters, unmodified
                    bad = [i for i in par if i >= len(e.args) or e.args[i][0] != "arg"]
                    # and it is the parameter with the same role (same public name)
                    for i in par:
                        if i < len(e.args) and e.args[i][0] == "arg":
                            if fn.params[e.args[i][1]]["ty"] != e.callee[1].params[i]["ty"]:
                                bad.append(i)
                    ok = not bad
                    why = "limited parameter(s) %s are not forwarded unchanged" % bad
                    if ok:
                        break
            chk.ob("R8.1d", fn, "dispatcher succeeds only through a limit-checked function with forwarded arguments", ok,
                   loc=fn.loc(p.end_iid), detail="" if ok else why, path=None if ok else p, key="R8.1d %s" % name)
    chk.floor("R8.1d", "success exits of generic dispatchers", nd, 3)

    # low-level scrypt guards
    N, R_, P_ = ("arg", 5), ("arg", 6), ("arg", 7)
    guards = {}
    for name in ("escrypt_kdf_nosse", "escrypt_kdf_sse"):
        if prog.fn(name) is None and chk.relaxed:
            continue        # SSE backend not compiled in this configuration
        fn = prog.need(name, rule="R8.1s")
        gs = set()
        k = 0
        for p in cm.paths(prog, fn):
            if not (p.kind == "ret" and p.may_return_zero()):
                continue
            first = next((e for e in p.calls("escrypt_PBKDF2_SHA256")), None)
            if first is None:
                raise AnalysisBroken("R8.1s: success path of %s without PBKDF2 call" % name)
            fb = p.facts_before(first.idx)
            k += 1
            ivN = fb.interval(N)
            why = []
            if not (ivN and ivN[0] >= 2 and ivN[1] <= 0xFFFFFFFF):
                why.append("N not in [2, 2^32-1] (%s)" % (ivN,))
            pow2 = False
            for t, v in fb.items:
                if v and t[0] == "icmp" and t[1] == "eq" and t[3][0] == "c" and t[3][1] == 0 and t[2][0] == "bin" and t[2][1] == "and":
                    a, b = t[2][2], t[2][3]
                    la, lb = T.linear(a), T.linear(b)
                    if (la == ({N: 1}, 0) and lb == ({N: 1}, -1)) or (lb == ({N: 1}, 0) and la == ({N: 1}, -1)):
                        pow2 = True
            if not pow2:
                why.append("no fact N & (N-1) == 0")
            r64 = T.mk_cast("zext", R_, 64, 32)
            p64 = T.mk_cast("zext", P_, 64, 32)
            if fb.zeroness(r64) != "NZ" and fb.zeroness(R_) != "NZ":
                why.append("r != 0 not established")
            if fb.zeroness(p64) != "NZ" and fb.zeroness(P_) != "NZ":
                why.append("p != 0 not established")
            prod_ok = False
            for t in (("bin", "mul", r64, p64, 64), ("bin", "mul", p64, r64, 64)):
                iv = fb.interval(t)
                if iv and iv[1] < (1 << 30):
                    prod_ok = True
            if not prod_ok:
                why.append("r*p < 2^30 not established")
            chk.ob("R8.1s", fn, "hashing starts only after N in [2,2^32-1] power of two, r,p != 0, r*p < 2^30", not why,
                   loc=fn.loc(first.iid), detail="; ".join(why), path=p if why else None, key="R8.1s %s" % name)
            sh = cm.Shaper(prog, p, {})
            for e in p.events[:first.idx]:
                if e.kind == "fact":
                    gs.add(sh.event(e))
        if k == 0:
            raise AnalysisBroken("R8.1s: %s has no success path" % name)
        guards[name] = gs
    a = guards["escrypt_kdf_nosse"]
    b = guards.get("escrypt_kdf_sse", a)
    chk.ob("R8.1s-sib", "escrypt_kdf_sse", "both low-level scrypt backends establish the same set of guard facts (%d)" % len(a),
           a == b, detail="" if a == b else "nosse-only: %s | sse-only: %s" % (sorted(map(str, a - b))[:2], sorted(map(str, b - a))[:2]),
           key="R8.1s-sib escrypt_kdf guards differ")

    # ---- R8.3 no silent narrowing of parsed numbers ------------------------------------------------------------
    # a decimal parsed from a hash string into a wide integer may be narrowed to the 32-bit parameter only after
    # it was shown to fit: otherwise "m=4294967304" decodes as m=8 and a corrupted string is treated as valid
    ds = prog.need("argon2_decode_string", rule="R8.3")
    n83 = 0
    seen83 = set()
    for p in cm.paths(prog, ds):
        parsed = set()
        for e in p.calls("decode_decimal"):
            if len(e.args) > 1:
                parsed.add(T.root(e.args[1]))
        load_root = {e.res: T.root(e.addr) for e in p.events if e.kind == "load" and e.res is not None}
        for e in p.stores():
            v = e.val
            if v[0] == "cast" and v[1] == "trunc" and any(load_root.get(l) in parsed for l in T.leaves(v[2])):
                ok = True
                iv = p.facts_before(e.idx).interval(v[2])
                ok = iv is not None and iv[1] <= (1 << v[3]) - 1
                if (e.iid, ok) in seen83:
                    continue
                seen83.add((e.iid, ok))
                n83 += 1
                chk.ob("R8.3", ds, "a parsed decimal is narrowed to %d bits only after it was shown to fit" % v[3], ok,
                       loc=ds.loc(e.iid), detail="value range before narrowing: %s" % (iv,), path=None if ok else p,
                       key="R8.3 argon2_decode_string unguarded-narrowing")
    chk.floor("R8.3", "narrowing stores of parsed decimals in argon2_decode_string", n83, 4)

    # ---- R8.4 zero scratch blocks of the address generator -----------------------------------------------------
    # G(0, x) of the data-independent addressing: a local block that the function zero-fills and then hands to a callee that
    # updates it in place (the SIMD fill_block_with_xor keeps its running state there) must be zero again at every such
    # hand-over, i.e. its last writer on the path is the zero fill - hoisting the memset out of the loop leaves a dirty block
    # for the second and later address blocks of a segment.
    cgw = prog.callgraph()
    n84 = 0
    for f in prog.functions():
        if f.decl or "argon2-fill-block" not in f.unit or f.sname != "generate_addresses":
            continue
        for p in cm.paths(prog, f, backedge_limit=2):
            zeroed = {}
            lastw = {}
            for e in p.events:
                if e.kind == "store":
                    r = T.root(e.addr)
                    if r[0] == "alloca":
                        lastw[r] = e
                    continue
                if e.kind != "call":
                    continue
                nm = e.callee_name() or ""
                if nm.startswith(("llvm.memset", "memset")) and e.args and T.root(e.args[0])[0] == "alloca" and e.args[1] == C(0, 8):
                    r = T.root(e.args[0])
                    zeroed[r] = e
                    lastw[r] = e
                    continue
                if e.callee[0] != "fn":
                    continue
                wp = cgw.writes_params(e.callee[1])
                for k, a in enumerate(e.args):
                    r = T.root(a)
                    if r[0] != "alloca" or k not in wp:
                        continue
                    if r in zeroed and k == 0:
                        n84 += 1
                        ok = lastw.get(r) is zeroed[r]
                        chk.ob("R8.4", f, "the zero block handed to %s is freshly zeroed" % nm, ok, loc=f.loc(e.iid),
                               detail="" if ok else "last writer of %s before this call is %s at %s, not the zero fill"
                               % (T.show(r, f), lastw[r].callee_name() if lastw[r].kind == "call" else "a store", f.loc(lastw[r].iid)),
                               path=None if ok else p, key="R8.4 %s %s" % (f.unit.split("/")[-1], nm))
                    lastw[r] = e
    chk.floor("R8.4", "hand-overs of zero scratch blocks in the SIMD address generators", n84, 4)

    # ---- R8.5 the block-fill backends agree on everything but the compression itself (E7, shared with C10 R10.5) ---------
    cm.sibling_skeleton_rule(prog, chk, "R8.5", ["argon2_fill_segment_ref", "argon2_fill_segment_ssse3", "argon2_fill_segment_avx2",
                                                  "argon2_fill_segment_avx512f"], {0: "INST", 1: "POS"},
                             ("index_alpha", "generate_addresses"), floor_shapes=20)

    # ---- R8.2 --------------------------------------------------------------------------------------
    spec = [
        # (function, decode steps [(callee, success)], number of compared parameters, requested-value roots)
        ("_needs_rehash", [("argon2_decode_string", "Z")], 2),
        (SC + "_str_needs_rehash", [("pickparams", "Z"), ("escrypt_parse_setting", "NZ")], 3),
    ]
    n = 0
    for name, steps, ncmp in spec:
        fn = prog.need(name, rule="R8.2")
        for p in cm.paths(prog, fn):
            if p.kind != "ret":
                continue
            n += 1
            r = p.ret
            isconst = r is not None and r[0] == "c"
            val = T.to_signed(r[1], r[2]) if isconst else None
            chk.ob("R8.2", fn, "return value is one of -1, 0, 1", isconst and val in (-1, 0, 1), loc=fn.loc(p.end_iid),
                   detail="returns %s" % T.show(r, fn), path=None if isconst else p, key="R8.2 %s tri-state" % name)
            if not isconst or val == -1:
                continue
            # decoded successfully
            for cal, pred in steps:
                evs = list(p.calls(cal))
                ok = bool(evs) and all(p.facts.zeroness(e.res) == pred for e in evs)
                chk.ob("R8.2", fn, "answer %d only after %s succeeded" % (val, cal), ok, loc=fn.loc(p.end_iid),
                       path=None if ok else p, key="R8.2 %s answer-without-decode" % name)
            # comparison facts between a decoded value and a requested value
            dec_call = list(p.calls(steps[-1][0]))
            dec_roots = set()
            for e in dec_call:
                for a in e.args:
                    ra = T.root(a)
                    if ra[0] == "alloca":
                        dec_roots.add(ra)
            load_root = {e.res: T.root(e.addr) for e in p.events if e.kind == "load" and e.res is not None}
            eqs = nes = 0
            for t, v in p.facts.items:
                if t[0] != "icmp" or t[1] not in ("eq", "ne") or not v:
                    continue
                sides = []
                for side in (t[2], t[3]):
                    lv = T.leaves(side)
                    is_dec = any(l[0] == "load" and load_root.get(l) in dec_roots for l in lv)
                    sides.append(is_dec)
                if sides[0] != sides[1] or (sides[0] and sides[1]):
                    if t[1] == "eq":
                        eqs += 1
                    else:
                        nes += 1
            if val == 0:
                chk.ob("R8.2", fn, "0 only with an equality fact for each of the %d compared parameters" % ncmp, eqs >= ncmp,
                       loc=fn.loc(p.end_iid), detail="%d equality fact(s) on the path" % eqs, path=None if eqs >= ncmp else p,
                       key="R8.2 %s zero-without-all-equal" % name)
            else:
                chk.ob("R8.2", fn, "1 only with a difference fact on a compared parameter", nes >= 1, loc=fn.loc(p.end_iid),
                       path=None if nes >= 1 else p, key="R8.2 %s one-without-difference" % name)
    chk.floor("R8.2", "exits of needs_rehash cores", n, 8)
    # R8.2-valid: "-1 when the string is malformed" includes strings that parse token by token but carry out-of-range
    # parameters (t=0, m < 8p, salt/hash shorter than the Argon2 minimum): an answer 0/1 needs argon2_validate_inputs() == OK
    # on the decoded context, either inside argon2_decode_string (on each of its success exits) or in the caller itself.
    ds = prog.need("argon2_decode_string", rule="R8.2-valid")
    nv = 0
    dec_validates = True
    for p, conj in cm.exits_returning(prog, ds, "Z"):
        nv += 1
        v = [e for e in p.calls("argon2_validate_inputs") if e.args and e.args[0] == ("arg", 0) and cm.call_is_zero(p, e, conj)]
        if not v:
            dec_validates = False
            bad_exit = (ds.loc(p.end_iid), p)
    if nv == 0:
        raise AnalysisBroken("R8.2-valid: argon2_decode_string has no success exit")
    fn = prog.need("_needs_rehash", rule="R8.2-valid")
    nn = 0
    for p in cm.paths(prog, fn):
        if p.kind != "ret" or p.ret is None or p.ret[0] != "c" or T.to_signed(p.ret[1], p.ret[2]) == -1:
            continue
        nn += 1
        dec = list(p.calls("argon2_decode_string"))
        own = [e for e in p.calls("argon2_validate_inputs") if dec and e.idx > dec[0].idx and e.args[0] == dec[0].args[0]
               and p.facts.zeroness(e.res) == "Z"]
        ok = dec_validates or bool(own)
        chk.ob("R8.2-valid", fn, "answer %d only for a string whose decoded parameters passed argon2_validate_inputs()"
               % T.to_signed(p.ret[1], p.ret[2]), ok, loc=fn.loc(p.end_iid),
               detail="" if ok else "argon2_decode_string succeeds at %s without validating, and the caller does not validate either" % bad_exit[0],
               path=None if ok else bad_exit[1], key="R8.2-valid _needs_rehash")
    chk.floor("R8.2-valid", "0/1 exits of the Argon2 needs_rehash core", nn, 2)
    # R8.2-refuse: "-1 when the string is malformed" - before the string has even been decoded, the Argon2 core may refuse only
    # what no valid string can match: a requested opslimit / memlimit above the documented maximum, or an over-long string.
    # (Testing memlimit > UINT32_MAX before the division by 1024 refuses 4 GiB .. 4 TiB, which are valid requests.)
    fn = prog.need("_needs_rehash", rule="R8.2-refuse")
    OPS, MEM = ("arg", 1), ("arg", 2)
    kops, kmem = prog.K(A2 + "id_OPSLIMIT_MAX"), prog.K(A2 + "id_MEMLIMIT_MAX")
    nr = 0
    for p in cm.paths(prog, fn):
        if p.kind != "ret" or p.ret is None or p.ret[0] != "c" or T.to_signed(p.ret[1], p.ret[2]) != -1:
            continue
        if list(p.calls("argon2_decode_string")):
            continue
        nr += 1
        io = p.facts.interval(OPS) or (0, M64)
        im = p.facts.interval(MEM) or (0, M64)
        sl = [e for e in p.calls("strlen")]
        long_str = bool(sl) and (p.facts.interval(sl[0].res) or (0, M64))[0] >= prog.K("crypto_pwhash_STRBYTES")
        alloc_failed = any(p.facts.zeroness(e.res) == "Z" for e in p.calls("malloc", "calloc"))
        ok = io[0] > kops or im[0] > kmem or long_str or alloc_failed
        chk.ob("R8.2-refuse", fn, "refusal before decoding only for opslimit / memlimit above the documented maximum, an over-long string "
               "or a failed allocation", ok, loc=fn.loc(p.end_iid),
               detail="" if ok else "on this refusing path opslimit may be as low as %d and memlimit as low as %d (limits %d / %d): valid "
               "requests are answered -1" % (io[0], im[0], kops, kmem), path=None if ok else p, key="R8.2-refuse _needs_rehash")
    chk.floor("R8.2-refuse", "refusing paths of the Argon2 needs_rehash core before decoding", nr, 3)
    # wrappers return the core's value (or -1)
    for name in (A2 + "i_str_needs_rehash", A2 + "id_str_needs_rehash", "crypto_pwhash_str_needs_rehash"):
        fn = prog.need(name, rule="R8.2")
        for p in cm.paths(prog, fn):
            if p.kind != "ret":
                continue
            r = p.ret
            ok = (r[0] == "c" and T.to_signed(r[1], r[2]) == -1) or \
                 (r[0] == "call" and any(e.res == r and (e.callee_name() or "").endswith("needs_rehash") and e.args[0] == ("arg", 0)
                                         and e.args[1] == ("arg", 1) and e.args[2] == ("arg", 2) for e in p.calls()))
            chk.ob("R8.2w", fn, "wrapper returns the core's answer for the same (str, opslimit, memlimit) or -1", ok,
                   loc=fn.loc(p.end_iid), path=None if ok else p, key="R8.2w %s" % name)
    alphabet_rule(prog, chk)
    hprime_rule(prog, chk)
    scrypt_pbkdf2_rule(prog, chk)


def _table_bytes(prog, fn, g):
    """bytes of the constant global named by term ('g', name), following one level of pointer indirection"""
    d = prog.global_def(fn, g[1])
    if d is None or not d[1].get("const") or "init" not in d[1]:
        return None
    init = d[1]["init"]
    if init[0] == "ints":
        return list(init[1])
    if init[0] == "zero":
        return [0] * d[1].get("size", 0)
    return None


def _eval(t, env):
    """constant value of an index term once the character parameter is fixed (table lookup only: and / sub / casts)"""
    k = t[0]
    if k == "c":
        return t[1] & ((1 << t[2]) - 1)
    if k == "arg":
        return env[t]
    if k == "cast":
        v = _eval(t[2], env)
        if v is None:
            return None
        op, bits, src = t[1], t[3], t[4]
        if op == "zext":
            return v & ((1 << src) - 1)
        if op == "sext":
            v &= (1 << src) - 1
            if v >> (src - 1):
                v -= 1 << src
            return v & ((1 << bits) - 1)
        if op == "trunc":
            return v & ((1 << bits) - 1)
        return None
    if k == "bin":
        a, b = _eval(t[2], env), _eval(t[3], env)
        if a is None or b is None:
            return None
        bits = t[4]
        m = (1 << bits) - 1
        op = t[1]
        r = {"add": a + b, "sub": a - b, "and": a & b, "or": a | b, "xor": a ^ b, "mul": a * b,
             "shl": a << (b & 63), "lshr": (a & m) >> (b & 63)}.get(op)
        return None if r is None else r & m
    return None


def alphabet_rule(prog, chk):
    enc = prog.need("encode64_uint32", rule="R8.6")
    dec = prog.need("decode64_one", unit=enc.unit, rule="R8.6")
    tables = set()
    for p in cm.paths(prog, enc):
        for e in p.events:
            if e.kind == "load" and T.root(e.addr)[0] == "g":
                tables.add(T.root(e.addr))
    if len(tables) != 1:
        raise AnalysisBroken("R8.6: encode64_uint32 reads %d constant tables, expected its alphabet only" % len(tables))
    ENC = tables.pop()
    alpha = _table_bytes(prog, enc, ENC)
    if alpha is None or len(alpha) < 64:
        raise AnalysisBroken("R8.6: alphabet table %s has no constant initialiser of 64 characters" % (ENC,))
    alpha = alpha[:64]
    chk.ob("R8.6", enc, "the encoder's alphabet has 64 distinct non-NUL characters", len(set(alpha)) == 64 and 0 not in alpha,
           key="R8.6 alphabet distinct")
    n = 0
    CH = ("arg", 1)
    for p in cm.paths(prog, dec):
        if p.kind != "ret" or not p.may_return_zero():
            continue
        n += 1
        st = [e for e in p.events if e.kind == "store" and T.root(e.addr) == ("arg", 0)]
        if not st:
            chk.ob("R8.6", dec, "a successful decode stores the digit", False, loc=dec.loc(p.end_iid), path=p, key="R8.6 decode64_one no-store")
            continue
        val = st[-1].val
        sub = [t for t in T.subterms(val)]
        # form A: position found by searching the encoder's own table
        srch = [e for e in p.calls("strchr", "memchr") if e.args and e.args[0] == ENC]
        formA = None
        for e in srch:
            diff = ("bin", "sub", e.res, ENC, 64)
            if diff in sub and p.facts.zeroness(e.res) == "NZ":
                formA = e
        if formA is not None:
            chk.ob("R8.6", dec, "accepted characters are found in the encoder's table and decode to their position in it", True,
                   loc=dec.loc(formA.iid), key="R8.6 decode64_one search")
            continue
        # form B: reverse table indexed by the character under a range guard
        lds = [t for t in sub if t[0] == "load"]
        ev = None
        if len(lds) == 1:
            ev = [e for e in p.events if e.kind == "load" and e.res == lds[0]]
        if ev and T.root(ev[0].addr)[0] == "g":
            REV = T.root(ev[0].addr)
            rev = _table_bytes(prog, dec, REV)
            ivs = [p.facts.interval(t) for t in (CH, ("cast", "zext", CH, 32, 8), ("cast", "zext", CH, 64, 8), ("cast", "sext", CH, 32, 8))]
            ivs = [x for x in ivs if x is not None]
            iv = (max(x[0] for x in ivs), min(x[1] for x in ivs)) if ivs else None
            lin = ev[0].addr
            if rev is not None and iv is not None and lin[0] == "gep" and len(lin[3]) == 1 and lin[3][0][1] == 1:
                lo, hi = max(0, iv[0]), min(255, iv[1])
                wrong = []
                # branch facts on the looked-up value itself (`table[c] != INVALID`, `table[c] < 64`) restrict the admitted bytes
                liv = p.facts.interval(ev[0].res)
                for xt in (("cast", "zext", ev[0].res, 32, 8), ("cast", "zext", ev[0].res, 64, 8)):
                    xi = p.facts.interval(xt)
                    if xi is not None:
                        liv = xi if liv is None else (max(liv[0], xi[0]), min(liv[1], xi[1]))
                for c in range(lo, hi + 1):
                    idx = _eval(lin[3][0][0], {CH: c})
                    if idx is None:
                        raise AnalysisBroken("R8.6: index expression of the reverse table is not a plain function of the character")
                    idx = T.to_signed(idx, 64) + lin[2]
                    d = rev[idx] if 0 <= idx < len(rev) else None
                    if d is not None and liv is not None and not (liv[0] <= d <= liv[1]):
                        continue               # this byte does not reach the success exit
                    if d is None or d >= 64 or alpha[d] != c:
                        wrong.append((c, d))
                chk.ob("R8.6", dec, "every byte value the success path admits (%d..%d) is the encoder's character for the digit it decodes to"
                       % (lo, hi), not wrong, loc=dec.loc(ev[0].iid),
                       detail="; ".join("byte 0x%02x (%r) is accepted as digit %s but the encoder writes %r for that digit" %
                                        (c, chr(c), d, chr(alpha[d]) if d is not None and d < 64 else "nothing") for c, d in wrong[:6]) +
                       (" ... %d bytes in all" % len(wrong) if len(wrong) > 6 else ""),
                       path=p if wrong else None, key="R8.6 decode64_one reverse-table")
                continue
        raise AnalysisBroken("R8.6: decode64_one succeeds through an idiom that is neither a search in the encoder's table nor a "
                             "range-guarded reverse table: cannot relate the decoder's alphabet to the encoder's")
    chk.floor("R8.6", "success paths of decode64_one", n, 1)


def hprime_rule(prog, chk):
    fn = prog.need("blake2b_long", rule="R8.7")
    K = prog.K("crypto_generichash_blake2b_BYTES_MAX")
    OUTLEN = ("arg", 1)
    n = 0
    for p in cm.paths(prog, fn):
        inits = [e for e in p.calls("crypto_generichash_blake2b_init")]
        if not inits:
            continue
        e = inits[0]
        iv = p.facts_before(e.idx).interval(OUTLEN) or (0, (1 << 64) - 1)
        n += 1
        if e.args[3] == OUTLEN:
            ok = iv[1] <= K
            chk.ob("R8.7", fn, "single-call arm of H': outlen <= %d" % K, ok, loc=fn.loc(e.iid), path=None if ok else p,
                   detail="" if ok else "outlen may be %d here" % iv[1], key="R8.7 blake2b_long direct")
        elif e.args[3][0] == "c" and e.args[3][1] == K:
            ok = iv[0] == K + 1
            chk.ob("R8.7", fn, "chained arm of H': only for outlen >= %d" % (K + 1), ok, loc=fn.loc(e.iid), path=None if ok else p,
                   detail="" if ok else "outlen can be as small as %d on the chained arm: an output of exactly %d bytes must come from one "
                   "BLAKE2b call (RFC 9106), the chained construction gives a different second half" % (iv[0], iv[0]),
                   key="R8.7 blake2b_long chained")
        else:
            chk.ob("R8.7", fn, "H' initialises BLAKE2b with outlen or with BYTES_MAX", False, loc=fn.loc(e.iid), path=p,
                   key="R8.7 blake2b_long init-length")
    chk.floor("R8.7", "paths of blake2b_long through a hash initialisation", n, 2)


def scrypt_pbkdf2_rule(prog, chk):
    sigs = {}
    for name in ("escrypt_kdf_nosse", "escrypt_kdf_sse"):
        fn = prog.fn(name)
        if fn is None:
            continue
        roles = {i: q["name"] for i, q in enumerate(fn.params)}
        out = set()
        for p in cm.paths(prog, fn):
            if p.kind != "ret" or not p.may_return_zero():
                continue
            calls = [e for e in p.calls("escrypt_PBKDF2_SHA256")]
            if not calls:
                continue
            sh = cm.Shaper(prog, p, roles)
            sig = []
            for e in calls:
                row = []
                for k, a in enumerate(e.args):
                    if k in (1, 3, 4, 6):          # lengths / iteration count: compare as role-normalised values
                        row.append(str(sh.shape(a)))
                    else:                           # pointers: which object
                        r = T.root(a)
                        row.append(roles.get(r[1], "P%d" % r[1]) if r[0] == "arg" else ("B" if r[0] in ("load", "call") else str(r[0])))
                sig.append(tuple(row))
            out.add(tuple(sig))
        sigs[name] = (fn, out)
    if len(sigs) < 2:
        if chk.relaxed or len(sigs) == 1:
            return
        raise AnalysisBroken("R8.8: scrypt cores not found")
    (fa, a), (fb, b) = sigs["escrypt_kdf_nosse"], sigs["escrypt_kdf_sse"]
    ok = a == b and bool(a)
    d = sorted(a - b) or sorted(b - a)
    chk.ob("R8.8", fa, "escrypt_kdf_nosse and escrypt_kdf_sse hand the same (role-normalised) arguments to their two PBKDF2 calls", ok,
           detail="" if ok else "only in %s: %s" % ("the portable core" if a - b else "the SSE core", str(d[0])[:500]),
           key="R8.8 scrypt PBKDF2 hand-overs")
    # and inside one core the B length of the first call is the B length of the second
    for fn, sg in (fa, a), (fb, b):
        for seq in sg:
            if len(seq) == 2:
                ok2 = seq[0][6] == seq[1][3]
                chk.ob("R8.8", fn, "the block buffer B has the same length when it is filled and when it keys the final PBKDF2", ok2,
                       detail="" if ok2 else "filled with %s bytes, read as %s bytes" % (seq[0][6], seq[1][3]), key="R8.8 %s B length" % fn.sname)
    chk.floor("R8.8", "PBKDF2 hand-over signatures of the scrypt cores", len(a) + len(b), 2)
