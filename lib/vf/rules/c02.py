"""C02 — forged or altered ciphertexts are rejected and release no plaintext.

Decided clauses (DESIGN §4 C02):
  R2.1 authenticate-before-success: every exit that may return 0 holds the fact "a full-length
       constant-time comparison of (recomputed tag, caller's tag) returned 0" — directly (core)
       or through a callee for which the same was shown (wrapper, R2.2), for every function stored
       in a dispatch slot the call may reach.
  R2.3 short input: a length `len - K` handed to an authenticated callee is preceded on the
       path by a fact implying len >= K.
  R2.4 reported length: on every exit that may return non-zero, the last store through a length
       out-parameter is the constant 0 (or the pointer is known NULL).
  R2.5 no plaintext on failure: on every exit that may return non-zero, every possibly
       data-dependent write through an output parameter is followed by a constant fill of it.
  R2.7 (E13) no padding store of the one-time authenticators is overwritten before it is read.
  R2.8 (E15) inside a loop that walks an input buffer (associated data, ciphertext, message) every read through that buffer
       advances with the loop: an absorber that re-reads the bytes of its first iteration leaves the later bytes
       unauthenticated.
  R2.9 sealed boxes: the nonce derivation binds both public keys - in every *_seal_nonce helper each key parameter is hashed
       once, completely (PUBLICKEYBYTES) and in parameter order (ephemeral key first), and seal / seal_open hand it
       (ephemeral public key, recipient public key). X25519 ignores bit 255 of the ephemeral key; only the nonce
       authenticates it, so a derivation that skips the ephemeral key makes an altered sealed box open.
  R2.10 secretstream header: after init_pull / init_push the state's key is HChaCha20 over header[0..16) and its inonce is a verbatim
       copy of header[16..24) (byte provenance, C09 R9.6), so no header byte is outside what authenticates the chunks.
  R2.11 (E11) the length block of the portable AEGIS backends carries every bit of mlen and adlen (softaes_block_load64x2 drops none).
  R2.12 the secretstream MAC covers the caller's AD length (C09 R9.5 under the AD-alteration clause).
NOT decided: that a changed bit changes the recomputed tag (MAC arithmetic).
"""
import re

from .. import terms as T
from ..build import AnalysisBroken
from ..terms import C
from . import common as cm

ENTRY_RE = re.compile(r"^crypto_(aead|secretbox|box|secretstream|auth|onetimeauth|sign)_.*"
                      r"(open|decrypt|verify|pull)")
ENTRY_EXCLUDE = re.compile(r"(_init_pull$|_bytes$|keybytes$)")

# family prefix -> header macro giving the authenticator length compared at the core
TAGLEN = [
    ("crypto_aead_chacha20poly1305_ietf_", "crypto_aead_chacha20poly1305_ietf_ABYTES"),
    ("crypto_aead_chacha20poly1305_", "crypto_aead_chacha20poly1305_ABYTES"),
    ("crypto_aead_xchacha20poly1305_ietf_", "crypto_aead_xchacha20poly1305_ietf_ABYTES"),
    ("crypto_aead_aes256gcm_", "crypto_aead_aes256gcm_ABYTES"),
    ("crypto_aead_aegis128l_", "crypto_aead_aegis128l_ABYTES"),
    ("crypto_aead_aegis256_", "crypto_aead_aegis256_ABYTES"),
    ("crypto_secretbox_xchacha20poly1305_", "crypto_secretbox_xchacha20poly1305_MACBYTES"),
    ("crypto_secretbox_xsalsa20poly1305_", "crypto_secretbox_xsalsa20poly1305_MACBYTES"),
    ("crypto_secretbox_", "crypto_secretbox_MACBYTES"),
    ("crypto_box_curve25519xchacha20poly1305_", "crypto_box_curve25519xchacha20poly1305_MACBYTES"),
    ("crypto_box_curve25519xsalsa20poly1305_", "crypto_box_curve25519xsalsa20poly1305_MACBYTES"),
    ("crypto_box_", "crypto_box_MACBYTES"),
    ("crypto_secretstream_xchacha20poly1305_", None),   # ABYTES = 1 + MACBYTES: Poly1305 tag = 16
    ("crypto_auth_hmacsha256_", "crypto_auth_hmacsha256_BYTES"),
    ("crypto_auth_hmacsha512256_", "crypto_auth_hmacsha512256_BYTES"),
    ("crypto_auth_hmacsha512_", "crypto_auth_hmacsha512_BYTES"),
    ("crypto_auth_", "crypto_auth_BYTES"),
    ("crypto_onetimeauth_poly1305_", "crypto_onetimeauth_poly1305_BYTES"),
    ("crypto_onetimeauth_", "crypto_onetimeauth_BYTES"),
    ("crypto_sign_", None),                             # group equation, see SIGN core
]


def family_taglen(prog, name):
    for pre, macro in TAGLEN:
        if name.startswith(pre):
            if macro is None:
                if pre.startswith("crypto_secretstream"):
                    return prog.K("crypto_onetimeauth_poly1305_BYTES")
                return None
            return prog.K(macro)
    raise AnalysisBroken("C02: no tag-length row for entry %s" % name)


class Auth:
    """A(F, bindings): every success exit of F is dominated by a passed authenticator check"""

    def __init__(self, prog, chk):
        self.prog = prog
        self.chk = chk
        self.memo = {}
        self.cores = {}

    def summary(self, fn, bind=(), accept="Z"):
        """accept: which return values of fn mean "authentic" - 'Z' (status functions) or 'NZ'
        (boolean helpers returning true on a match)"""
        key = (fn.key, tuple(bind), accept)
        if key in self.memo:
            return self.memo[key]
        self.memo[key] = None     # recursion guard (library is recursion-free)
        s = self._analyse(fn, bind, accept)
        self.memo[key] = s
        return s

    def witness(self, fn, p, conj):
        """the event on path p that establishes authentication under the atoms conj, as
        (kind, compared lengths, tag parameter indices, event) or None"""
        prog = self.prog
        for e in p.calls():
            n = cm.comparator_len(e)
            if n is not None:
                if not cm.call_is_zero(p, e, conj):
                    continue
                roots = [T.root(a) for a in e.args[:2]]
                loc = [r for r in roots if r[0] == "alloca"]
                par = [r for r in roots if r[0] == "arg"]
                if len(loc) == 1 and len(par) == 1:
                    written = any(cm.writes_through(prog, p, e0, loc[0])
                                  for e0 in p.events[:e.idx] if e0.kind == "call")
                    if written:
                        return ("core", {n}, {par[0][1]}, e)
                if len(par) == 2 and par[0] != par[1] and fn.internal:
                    # a helper comparing two caller-supplied buffers (recomputed tag and stored tag are
                    # both parameters here; the caller's obligations are checked at its own level)
                    return ("core", {n}, {par[0][1], par[1][1]}, e)
                continue
            nm = e.callee_name()
            if nm == "ge25519_has_small_order" and fn.sname == "_crypto_sign_ed25519_verify_detached":
                # Ed25519: the final cofactored group-equation test (detailed in C06 R6.1)
                if cm.call_has_value(p, e, conj, 1):
                    return ("core", {"group-equation"}, {0}, e)
                continue
            tg, complete = cm.resolved_targets(prog, fn, e)
            if not tg or not complete or e.res is None:
                continue
            if cm.call_is_zero(p, e, conj):
                acc = "Z"
            elif p.facts.zeroness(e.res) == "NZ" or any(t == e.res and c == "NZ" for t, c in conj):
                acc = "NZ"
            else:
                continue
            subs = [self.summary(t, cm.const_bindings(e, t), acc) for t in tg]
            if all(s is not None and s["ok"] and s.get("nsucc", 0) > 0 for s in subs):
                tp = set()
                good = True
                for s in subs:
                    for i in s["tagp"]:
                        a = e.args[i] if i < len(e.args) else None
                        rp = cm.root_param(a) if a is not None else None
                        if rp is not None:
                            tp.add(rp)
                        elif a is None or T.root(a)[0] != "alloca":
                            good = False
                if good and (tp or acc == "Z"):
                    ln = set()
                    for s in subs:
                        ln |= s["lens"]
                    return ("wrapper", ln, tp, e)
        return None

    def _analyse(self, fn, bind, accept="Z"):
        prog = self.prog
        try:
            exits = list(cm.exits_returning(prog, fn, accept, assume=list(bind)))
        except AnalysisBroken as e:
            return {"ok": False, "why": [("", str(e), None)], "lens": set(), "tagp": set(), "kind": "?"}
        why = []
        lens = set()
        tagp = set()
        kinds = set()
        nsucc = 0
        for p, conj in exits:
            nsucc += 1
            wit = self.witness(fn, p, conj)
            if wit is None:
                why.append((fn.loc(p.end_iid), "exit may return %s without a passed authenticator "
                            "comparison on the path" % ("0" if accept == "Z" else "non-zero"), p))
            else:
                kinds.add(wit[0])
                lens |= wit[1]
                tagp |= wit[2]
        if nsucc == 0:
            # a function that can never succeed authenticates vacuously (e.g. unavailable-backend stub)
            kinds.add("never-succeeds")
        return {"ok": not why, "why": why, "lens": lens, "tagp": tagp,
                "kind": "+".join(sorted(kinds)), "nsucc": nsucc}


def entries(prog):
    out = []
    for fn in prog.functions():
        if fn.public and ENTRY_RE.match(fn.name) and not ENTRY_EXCLUDE.search(fn.name):
            out.append(fn)
    return sorted(out, key=lambda f: f.name)


def auth_closure(prog, auth, ents):
    """all functions whose success was shown to imply authentication (entries + discovered callees)"""
    out = {}
    for (key, bind, accept), s in auth.memo.items():
        if s is not None and s["ok"] and s.get("nsucc", 0) > 0 and accept == "Z":
            out.setdefault(key, []).append(bind)
    return out


ALSO_PORTABLE = True


def run(ctx, chk):
    prog = ctx.prog()
    cg = prog.callgraph()
    chk.configs.append("native -O0+mem2reg")
    chk.explanation = (
        "Path-sensitive analysis (E1) of every public open/decrypt/verify/pull entry point and every "
        "function it delegates to (direct calls and every function stored in the dispatch slot an "
        "indirect call reads). Decided for all inputs: success is only reachable through a passed "
        "full-length constant-time tag comparison (R2.1/R2.2/R2.6), shortened lengths never wrap "
        "(R2.3), the reported length is 0 on every failing exit (R2.4), and every data-dependent "
        "write to an output on a failing exit is followed by a constant fill (R2.5).")
    chk.not_decided = ("that modifying an input bit changes the recomputed tag (MAC/signature arithmetic); "
                       "assembly backends and non-x86 #if arms are not analysed.")
    chk.assumptions += [
        "clang-14 -O0 + mem2reg IR of each unit is a faithful control/data-flow model of the C source",
        "crypto_verify_16/32/64 and sodium_memcmp compare exactly the stated number of bytes (decided under C14)",
        "loops: each back edge followed at most once, loop-carried values havocked",
    ]
    ents = entries(prog)
    chk.floor("R2.1", "public authenticated-open entry points", len(ents), 45)
    analyse(prog, chk, ents)
    # R2.7: "truncating or extending the input makes the call fail" rests on the padding of the last MAC block: in the one-time
    # authenticator units no padding store may be overwritten before it is read (E13, peeled paths) - a 0x01 terminator that is
    # wiped by the zero fill makes M and M || 00 authenticate alike.
    from .. import deadstore
    deadstore.dead_store_rule(prog, chk, "R2.7", ("crypto_onetimeauth/",), floor=20)
    # R2.8: "changing any bit of the associated data / ciphertext makes the call fail" needs every byte to be absorbed: inside a
    # loop that walks an input buffer no read through that buffer may have a loop-invariant address (E15) - such a read takes
    # the bytes of the first iteration again and the bytes of the later iterations never reach the authenticator.
    seal_nonce_rule(prog, chk)
    # R2.10: "changing any bit of the header makes the call fail": the secretstream state after init depends on every header byte
    # (C09's R9.6 / R9.7 engine - byte provenance of the state - reported here for the header clause)
    from . import c09
    from .. import inline

    class _Renamed:
        def __init__(self, inner):
            self._c = inner

        def ob(self, rule, *a, **kw):
            if "key" in kw and kw["key"]:
                kw["key"] = "R2.10/" + kw["key"]
            return self._c.ob("R2.10/" + rule, *a, **kw)

        def floor(self, rule, *a, **kw):
            return self._c.floor("R2.10/" + rule, *a, **kw)

        def __getattr__(self, n):
            return getattr(self._c, n)
    c09.layout_rule(ctx, prog, _Renamed(chk), inline.inlined(prog, prog.need("crypto_secretstream_xchacha20poly1305_push", rule="R2.10")))
    # R2.11: the AEGIS tag covers both lengths: the software stand-in of _mm_set_epi64x(mlen << 3, adlen << 3) uses every bit of both
    # operands (C10's R10.6 engine) - with the AD length dropped, X and X || 00 authenticate alike on the portable backend
    from . import c10

    class _Renamed11(_Renamed):
        def ob(self, rule, *a, **kw):
            if "key" in kw and kw["key"]:
                kw["key"] = "R2.11/" + kw["key"]
            return self._c.ob("R2.11/" + rule, *a, **kw)

        def floor(self, rule, *a, **kw):
            return self._c.floor("R2.11/" + rule, *a, **kw)
    c10.softaes_rule(ctx, prog, _Renamed11(chk))
    # R2.12: "extending / truncating the associated data makes the call fail": the secretstream MAC covers the caller's adlen
    # (C09's R9.5 engine; with a rounded-up length X and X || 00 authenticate alike)

    class _Renamed12(_Renamed):
        def ob(self, rule, *a, **kw):
            if "key" in kw and kw["key"]:
                kw["key"] = "R2.12/" + kw["key"]
            return self._c.ob("R2.12/" + rule, *a, **kw)

        def floor(self, rule, *a, **kw):
            return self._c.floor("R2.12/" + rule, *a, **kw)
    c09.length_block_rule(prog, _Renamed12(chk),
                          inline.inlined(prog, prog.need("crypto_secretstream_xchacha20poly1305_push", rule="R2.12")),
                          inline.inlined(prog, prog.need("crypto_secretstream_xchacha20poly1305_pull", rule="R2.12")))
    from .. import loopinv
    loopinv.stuck_read_rule(prog, chk, "R2.8", ("crypto_aead/", "crypto_onetimeauth/", "crypto_auth/", "crypto_secretbox/",
                                                "crypto_box/", "crypto_secretstream/"), floor=20 if prog.config == "native" else 5)


def analyse(prog, chk, ents, prefix="R2", floors=True):
    """R2.1-R2.5 over the given entry points and everything they delegate to. `prefix` renames the
    rule ids when another property re-uses these rules on its own entry set."""
    cg = prog.callgraph()
    R = lambda s: s.replace("R2", prefix, 1) if prefix != "R2" else s
    _floor = chk.floor if floors else (lambda *a, **k: None)
    auth = Auth(prog, chk)

    # ---- R2.1 / R2.2 / R2.6 ---------------------------------------------------------------
    ncore = 0
    for fn in ents:
        s = auth.summary(fn)
        want = family_taglen(prog, fn.name)
        if s["ok"]:
            ok = True
            detail = "%s; compared length(s) %s; tag rooted at parameter(s) %s" % (
                s["kind"], sorted(map(str, s["lens"])), sorted(fn.params[i]["name"] for i in s["tagp"]))
            chk.ob(R("R2.1"), fn, "success exit => authenticator comparison passed", True, detail=detail)
            if want is not None and s.get("nsucc", 0) > 0:
                chk.ob(R("R2.1-len"), fn, "compared length == %d (header constant of the family)" % want,
                       s["lens"] == {want}, detail="compared %s" % sorted(map(str, s["lens"])),
                       key=R("R2.1-len %s") % fn.name)
        else:
            for loc, msg, p in s["why"][:3]:
                chk.ob(R("R2.1"), fn, "success exit => authenticator comparison passed", False, loc=loc,
                       detail=msg, path=p, key=R("R2.1 %s") % fn.name)
    # discovered callees that were needed and failed are reported through their callers above;
    # count distinct cores for the floor
    closure = auth_closure(prog, auth, ents)
    for (key, bind, accept), s in auth.memo.items():
        if s and s["ok"] and "core" in s["kind"]:
            ncore += 1
    _floor(R("R2.1"), "distinct authenticator cores (function x constant bindings)", ncore, 15)
    chk.analysed["functions shown to authenticate before success"] = len(closure)

    # ---- R2.3 / R2.4 / R2.5 over the closure --------------------------------------------------
    n23 = n24 = n25 = 0
    for key in sorted(closure, key=str):
        fn = cg.by_key[key]
        for bind in closure[key]:
            ps = cm.paths(prog, fn, assume=list(bind))
            lenptrs = [i for i, prm in enumerate(fn.params) if prm["ty"] == "i64*"]
            outptrs = [i for i in cg.writes_params(fn)
                       if fn.params[i]["ty"] == "i8*"]   # byte buffers; opaque state structs are C09's
            for p in ps:
                # R2.3: shortened lengths
                for e in p.calls():
                    tg, complete = cm.resolved_targets(prog, fn, e)
                    if not tg or not all((t.key in closure) for t in tg):
                        continue
                    for a in e.args:
                        if a[0] == "bin" and a[1] == "sub" and a[3][0] == "c" and a[2][0] != "c":
                            n23 += 1
                            fb = p.facts_before(e.idx)
                            ok = fb.truth(T.mk_icmp("uge", a[2], a[3])) is True
                            chk.ob(R("R2.3"), fn, "length %s passed to %s cannot wrap (input >= %d was tested)"
                                   % (T.show(a, fn), e.callee_name() or "slot", a[3][1]), ok,
                                   loc=fn.loc(e.iid), path=None if ok else p,
                                   key=R("R2.3 %s") % fn.name)
                if not p.may_return_nonzero():
                    continue
                fnz = p.facts.copy()
                fnz.add(T.mk_icmp("ne", p.ret, C(0, 32)), True)
                # R2.4
                for i in lenptrs:
                    root = ("arg", i)
                    last = None
                    for e in p.events:
                        if e.kind == "store" and e.addr == root:
                            last = e
                    n24 += 1
                    if last is None:
                        ok = p.facts.zeroness(root) == "Z" or not any(
                            e.kind == "store" and e.addr == root for q in ps for e in q.events)
                        # the function never stores through it at all => it is not a reported length
                        chk.ob(R("R2.4"), fn, "failing exit: *%s is 0 (or %s is NULL)" % (fn.params[i]["name"], fn.params[i]["name"]),
                               ok, loc=fn.loc(p.end_iid),
                               detail="pointer is NULL on this path" if ok else "no store on this path and pointer not known NULL",
                               path=None if ok else p, key=R("R2.4 %s") % fn.name)
                    else:
                        v = last.val
                        ok = fnz.zeroness(v) == "Z"
                        chk.ob(R("R2.4"), fn, "failing exit: last store to *%s is 0" % fn.params[i]["name"], ok,
                               loc=fn.loc(last.iid), detail="stored %s" % T.show(v, fn),
                               path=None if ok else p, key=R("R2.4 %s") % fn.name)
                # R2.5
                for i in outptrs:
                    root = ("arg", i)
                    dirty = None
                    for e in p.events:
                        if e.kind == "store" and T.root(e.addr) == root:
                            if e.val[0] != "c":
                                dirty = e
                        elif e.kind == "call":
                            if cm.is_const_fill(e, root):
                                dirty = None
                                continue
                            if not cm.writes_through(prog, p, e, root):
                                continue
                            tg, complete = cm.resolved_targets(prog, fn, e)
                            if tg and complete and all(t.key in closure for t in tg):
                                # authenticated callee: clean on its own failure (its R2.5); it only
                                # wrote data if it returned 0
                                if e.res is not None and fnz.zeroness(e.res) == "NZ":
                                    continue
                            dirty = e
                    n25 += 1
                    ok = dirty is None
                    chk.ob(R("R2.5"), fn, "failing exit: no data-dependent write to %s survives"
                           % fn.params[i]["name"], ok,
                           loc=fn.loc(dirty.iid) if dirty else fn.loc(p.end_iid),
                           detail="" if ok else "write at %s is not followed by a constant fill before the failing return"
                           % fn.loc(dirty.iid), path=None if ok else p, key=R("R2.5 %s") % fn.name)
    _floor(R("R2.3"), "shortened-length call sites", n23, 20)
    _floor(R("R2.4"), "failing exits with a length out-parameter", n24, 20)
    _floor(R("R2.5"), "failing exits x output parameters", n25, 60)


def seal_nonce_rule(prog, chk):
    """R2.9: nonce = H(ephemeral pk || recipient pk) in both sealed-box families"""
    n = 0
    for fn in sorted(prog.functions(), key=lambda f: (f.unit, f.name)):
        if not fn.sname.endswith("_seal_nonce") or not fn.unit.startswith("crypto_box/"):
            continue
        keys = [("arg", k) for k, q in enumerate(fn.params) if k > 0 and q["ty"].endswith("*")]
        for p in cm.paths(prog, fn):
            if p.kind != "ret":
                continue
            n += 1
            ups = [e for e in p.calls() if (e.callee_name() or "").endswith("_update")]
            fed = [(e.args[1], e.args[2]) for e in ups if len(e.args) >= 3]
            if not fed:
                # one-shot form: H(buffer) with buffer = memcpy(pk1) || memcpy(pk2)
                for e in p.calls("crypto_generichash", "crypto_generichash_blake2b"):
                    if len(e.args) < 4 or T.root(e.args[2])[0] != "alloca" or e.args[3][0] != "c":
                        continue
                    buf = T.root(e.args[2])
                    parts = []
                    for w in p.events[:e.idx]:
                        if w.kind == "call" and (w.callee_name() or "").startswith(("memcpy", "llvm.memcpy", "memmove")) and \
                                T.root(w.args[0]) == buf and w.args[2][0] == "c":
                            parts.append((T.linear(w.args[0])[1], w.args[1], w.args[2]))
                    parts.sort(key=lambda x: x[0])
                    pos, good = 0, True
                    for off, _src, ln in parts:
                        good = good and off == pos
                        pos += ln[1]
                    if good and pos == e.args[3][1]:
                        fed = [(src, ln) for _o, src, ln in parts]
            want = [(k, fed[i][1] if i < len(fed) else None) for i, k in enumerate(keys)]
            ok = len(fed) == len(keys) and all(fed[i][0] == keys[i] for i in range(len(keys))) and \
                all(ln[0] == "c" and ln[1] == 32 for _d, ln in fed)
            chk.ob("R2.9", fn, "the sealed-box nonce hashes (pk1, pk2), each once, 32 bytes, in this order", ok, loc=fn.loc(),
                   path=None if ok else p, detail="" if ok else "hash input on this path: %s" %
                   ", ".join("%s[0..%s)" % (T.show(d, fn), T.show(ln, fn)) for d, ln in fed), key="R2.9 %s transcript" % fn.sname)
        # callers: (nonce, ephemeral key, recipient key)
        for caller in prog.functions():
            if caller.unit != fn.unit:
                continue
            for p in cm.paths(prog, caller, inline_helpers=False):
                for e in p.calls(fn.sname):
                    pk = [("arg", k) for k, q in enumerate(caller.params) if q["name"] == "pk"]
                    second_ok = bool(pk) and e.args[2] == pk[0]
                    first = T.root(e.args[1])
                    first_ok = first[0] == "alloca" or (first[0] == "arg" and caller.params[first[1]]["name"] == "c" and e.args[1] == first)
                    n += 1
                    chk.ob("R2.9", caller, "the nonce helper receives (ephemeral public key, recipient public key)", first_ok and second_ok,
                           loc=caller.loc(e.iid), path=None if first_ok and second_ok else p, key="R2.9 %s call" % caller.sname)
    chk.floor("R2.9", "sealed-box nonce derivations and their call sites", n, 6)
