"""C13 — in-place / overlapping buffers: overlap is normalised before the first output write.

Decided clause:
  R13.1 in each overlap-tolerant detached secretbox function (XSalsa20 and XChaCha20 variants;
        the easy / box forms delegate to them) every path's first write through the output is
        preceded either by memmove(out, in, len) — after which the input is no longer read through
        its original pointer — or by branch facts excluding both overlap directions
        (out > in and out - in < len; in > out and in - out < len). Signing moves the message with
        memmove before anything else is written to the signed-message buffer; opening copies the
        message out with memmove only. The four secretbox functions agree (E7).
NOT decided: equality of outputs for every overlap offset (behavioural); read-after-write hazards
inside the stream / AEAD cores under in == out (the planned E8 rule was dropped: it could not be
validated both ways with a realistic breaking edit, see DESIGN.md); assembly cores.
"""
from .. import terms as T
from ..build import AnalysisBroken
from ..terms import C
from . import common as cm

ROWS = [  # (function, out index, in index, len index)
    ("crypto_secretbox_detached", 0, 2, 3),
    ("crypto_secretbox_open_detached", 0, 1, 3),
    ("crypto_secretbox_xchacha20poly1305_detached", 0, 2, 3),
    ("crypto_secretbox_xchacha20poly1305_open_detached", 0, 1, 3),
]


def no_overlap(fb, OUT, IN, LEN):
    def excluded(a, b):
        gt = fb.truth(T.mk_icmp("ugt", a, b))
        near = fb.truth(T.mk_icmp("ult", T.mk_bin("sub", a, b, 64), LEN))
        return gt is False or near is False
    return excluded(OUT, IN) and excluded(IN, OUT)


ALSO_PORTABLE = True


def run(ctx, chk):
    prog = ctx.prog()
    chk.configs.append("native -O0+mem2reg")
    chk.explanation = ("E1: on every path of the overlap-tolerant functions the first write through the output parameter is preceded by "
                       "the memmove normalisation (and the input pointer is rebound) or by facts excluding both overlap directions; "
                       "sign / open use memmove for the message; E7: the four secretbox siblings satisfy the same obligation.")
    chk.not_decided = "output equality for every overlap offset is behavioural; assembly cores are not analysed."
    n = 0
    for name, oi, ii, li in ROWS:
        fn = prog.need(name, rule="R13.1")
        OUT, IN, LEN = ("arg", oi), ("arg", ii), ("arg", li)
        for p in cm.paths(prog, fn):
            if p.kind != "ret":
                continue
            first = None
            for e in p.events:
                if e.kind in ("store", "call") and cm.writes_through(prog, p, e, OUT):
                    first = e
                    break
            if first is None:
                continue
            n += 1
            mm = [e for e in p.calls("memmove") if e.args[0] == OUT and e.args[1] == IN and e.args[2] == LEN]
            if mm and mm[0].idx <= first.idx:
                later_in = [e for e in p.events[mm[0].idx + 1:]
                            if (e.kind == "load" and T.root(e.addr) == IN) or
                               (e.kind == "call" and any(T.root(a) == IN for a in e.args))]
                ok = not later_in
                chk.ob("R13.1", fn, "after memmove(out, in, len) the input is read through the output buffer only", ok,
                       loc=fn.loc(later_in[0].iid) if later_in else fn.loc(mm[0].iid), path=None if ok else p,
                       key="R13.1 %s stale-input-after-move" % name)
            else:
                ok = no_overlap(p.facts_before(first.idx), OUT, IN, LEN)
                chk.ob("R13.1", fn, "first output write without memmove happens only when both overlap directions are excluded", ok,
                       loc=fn.loc(first.iid), path=None if ok else p, key="R13.1 %s unnormalised-overlap" % name)
    chk.floor("R13.1", "paths writing the output of the secretbox detached functions", n, 16)

    sg = prog.need("crypto_sign_ed25519", rule="R13.1")
    for p in cm.paths(prog, sg):
        wr = [e for e in p.events if e.kind in ("store", "call") and cm.writes_through(prog, p, e, ("arg", 0))]
        ok = bool(wr) and wr[0].kind == "call" and wr[0].callee_name() == "memmove" and \
            wr[0].args[0] == ("gep", ("arg", 0), prog.K("crypto_sign_ed25519_BYTES"), ()) and wr[0].args[1] == ("arg", 2) and wr[0].args[2] == ("arg", 3)
        chk.ob("R13.1", sg, "the message is moved to sm + 64 with memmove before anything else is written to sm", ok,
               loc=sg.loc(wr[0].iid) if wr else sg.loc(), path=None if ok else p, key="R13.1 crypto_sign_ed25519 move-first")
    so = prog.need("crypto_sign_ed25519_open", rule="R13.1")
    k = 0
    for p in cm.paths(prog, so):
        for e in p.events:
            if e.kind in ("store", "call") and cm.writes_through(prog, p, e, ("arg", 0)):
                k += 1
                ok = e.kind == "call" and (e.callee_name() == "memmove" or cm.is_const_fill(e, ("arg", 0)))
                chk.ob("R13.1", so, "the message buffer is written only by memmove (overlap-safe) or a constant fill", ok,
                       loc=so.loc(e.iid), path=None if ok else p, key="R13.1 crypto_sign_ed25519_open copy")
    chk.floor("R13.1", "writes to m in crypto_sign_ed25519_open", k, 2)
    # easy / box forms only delegate (no own data write before the detached call)
    for name, callee in (("crypto_secretbox_easy", "crypto_secretbox_detached"),
                         ("crypto_secretbox_open_easy", "crypto_secretbox_open_detached"),
                         ("crypto_secretbox_xchacha20poly1305_easy", "crypto_secretbox_xchacha20poly1305_detached"),
                         ("crypto_secretbox_xchacha20poly1305_open_easy", "crypto_secretbox_xchacha20poly1305_open_detached"),
                         ("crypto_box_detached_afternm", "crypto_secretbox_detached"),
                         ("crypto_box_open_detached_afternm", "crypto_secretbox_open_detached")):
        fn = prog.need(name, rule="R13.1")
        for p in cm.paths(prog, fn):
            wr = [e for e in p.events if e.kind in ("store", "call") and cm.writes_through(prog, p, e, ("arg", 0))]
            ok = all(e.kind == "call" and e.callee_name() == callee for e in wr)
            chk.ob("R13.1-deleg", fn, "output is written only by the overlap-normalising %s" % callee, ok,
                   loc=fn.loc(wr[0].iid) if wr else fn.loc(), path=None if ok else p, key="R13.1-deleg %s" % name)


