"""C13 — in-place / overlapping buffers: overlap is normalised before the first output write.

Decided clause:
  R13.1 in each overlap-tolerant detached secretbox function (XSalsa20 and XChaCha20 variants;
        the easy / box forms delegate to them) every path's first write through the output is
        preceded either by memmove(out, in, len) — after which the input is no longer read through
        its original pointer — or by branch facts excluding both overlap directions
        (out > in and out - in < len; in > out and in - out < len). Signing moves the message with
        memmove before anything else is written to the signed-message buffer; opening copies the
        message out with memmove only. The four secretbox functions agree (E7).
  R13.3 in the detached secretbox functions every read of the message precedes the first write through `mac` (a message overlapping only
        the tag area of the easy form is not moved).
  R13.2 (E8 + E9) no read-after-write hazard in the cores that are documented to work in place: in the
        AES-GCM generic encrypt / decrypt loops, their block helpers and the C stream-cipher cores,
        no read through the input pointer can follow - within one generation of the loop index - a
        write through the output pointer to an overlapping byte range (extents of the helpers from
        scalar evolution). With input == output such a read would see the function's own output.
NOT decided: equality of outputs for every overlap offset (behavioural); hazards in the assembly
cores and in accesses whose symbolic base cannot be put in linear form.
"""
from .. import terms as T
from ..build import AnalysisBroken
from ..terms import C
from . import common as cm

ROWS = [  # (function, out index, in index, len index)
    ("crypto_secretbox_detached", 0, 2, 3),
    ("crypto_secretbox_open_detached", 0, 1, 3),
    ("crypto_secretbox_xchacha20poly1305_detached", 0, 2, 3),
    ("crypto_secretbox_xchacha20poly1305_open_detached", 0, 1, 3),
]


def no_overlap(fb, OUT, IN, LEN):
    def excluded(a, b):
        gt = fb.truth(T.mk_icmp("ugt", a, b))
        near = fb.truth(T.mk_icmp("ult", T.mk_bin("sub", a, b, 64), LEN))
        return gt is False or near is False
    return excluded(OUT, IN) and excluded(IN, OUT)


ALSO_PORTABLE = True


def run(ctx, chk):
    prog = ctx.prog()
    chk.configs.append("native -O0+mem2reg")
    chk.explanation = ("E1: on every path of the overlap-tolerant functions the first write through the output parameter is preceded by "
                       "the memmove normalisation (and the input pointer is rebound) or by facts excluding both overlap directions; "
                       "sign / open use memmove for the message; E7: the four secretbox siblings satisfy the same obligation.")
    chk.not_decided = "output equality for every overlap offset is behavioural; assembly cores are not analysed."
    n = 0
    for name, oi, ii, li in ROWS:
        fn = prog.need(name, rule="R13.1")
        OUT, IN, LEN = ("arg", oi), ("arg", ii), ("arg", li)
        for p in cm.paths(prog, fn):
            if p.kind != "ret":
                continue
            first = None
            for e in p.events:
                if e.kind in ("store", "call") and cm.writes_through(prog, p, e, OUT):
                    first = e
                    break
            if first is None:
                continue
            n += 1
            mm = [e for e in p.calls("memmove") if e.args[0] == OUT and e.args[1] == IN and e.args[2] == LEN]
            if mm and mm[0].idx <= first.idx:
                later_in = [e for e in p.events[mm[0].idx + 1:]
                            if (e.kind == "load" and T.root(e.addr) == IN) or
                               (e.kind == "call" and any(T.root(a) == IN for a in e.args))]
                ok = not later_in
                chk.ob("R13.1", fn, "after memmove(out, in, len) the input is read through the output buffer only", ok,
                       loc=fn.loc(later_in[0].iid) if later_in else fn.loc(mm[0].iid), path=None if ok else p,
                       key="R13.1 %s stale-input-after-move" % name)
            else:
                ok = no_overlap(p.facts_before(first.idx), OUT, IN, LEN)
                chk.ob("R13.1", fn, "first output write without memmove happens only when both overlap directions are excluded", ok,
                       loc=fn.loc(first.iid), path=None if ok else p, key="R13.1 %s unnormalised-overlap" % name)
    chk.floor("R13.1", "paths writing the output of the secretbox detached functions", n, 16)

    sign_move_rule(prog, chk, "R13.1")
    so = prog.need("crypto_sign_ed25519_open", rule="R13.1")
    k = 0
    for p in cm.paths(prog, so):
        for e in p.events:
            if e.kind in ("store", "call") and cm.writes_through(prog, p, e, ("arg", 0)):
                k += 1
                ok = e.kind == "call" and (e.callee_name() == "memmove" or cm.is_const_fill(e, ("arg", 0)))
                chk.ob("R13.1", so, "the message buffer is written only by memmove (overlap-safe) or a constant fill", ok,
                       loc=so.loc(e.iid), path=None if ok else p, key="R13.1 crypto_sign_ed25519_open copy")
    chk.floor("R13.1", "writes to m in crypto_sign_ed25519_open", k, 2)
    # easy / box forms only delegate (no own data write before the detached call)
    for name, callee in (("crypto_secretbox_easy", "crypto_secretbox_detached"),
                         ("crypto_secretbox_open_easy", "crypto_secretbox_open_detached"),
                         ("crypto_secretbox_xchacha20poly1305_easy", "crypto_secretbox_xchacha20poly1305_detached"),
                         ("crypto_secretbox_xchacha20poly1305_open_easy", "crypto_secretbox_xchacha20poly1305_open_detached"),
                         ("crypto_box_detached_afternm", "crypto_secretbox_detached"),
                         ("crypto_box_open_detached_afternm", "crypto_secretbox_open_detached")):
        fn = prog.need(name, rule="R13.1")
        for p in cm.paths(prog, fn):
            wr = [e for e in p.events if e.kind in ("store", "call") and cm.writes_through(prog, p, e, ("arg", 0))]
            ok = all(e.kind == "call" and e.callee_name() == callee for e in wr)
            chk.ob("R13.1-deleg", fn, "output is written only by the overlap-normalising %s" % callee, ok,
                   loc=fn.loc(wr[0].iid) if wr else fn.loc(), path=None if ok else p, key="R13.1-deleg %s" % name)
    # R13.3: the easy forms lay the tag right in front of the ciphertext, so a message that only overlaps the *tag* area is not moved
    # by the normalisation of R13.1 - correct as long as the tag is the last thing written. In each detached secretbox function every
    # read of the message precedes the first write through `mac` (C05's R5.3 engine).
    from . import c05
    c05.inplace_rule(prog, chk, rule="R13.3", names=("crypto_secretbox_detached", "crypto_secretbox_xchacha20poly1305_detached"),
                     out=1, inputs=(2,), what="the message", floor=2)
    hazard_rule(ctx, prog, chk)


def sign_move_rule(prog, chk, rule):
    """combined-mode signing copies the message to sm + 64 (memmove) before anything else is written to sm, so that the detached signer
    reads a message no later write can disturb (shared by C13 R13.1 and C06 R6.4)"""
    sg = prog.need("crypto_sign_ed25519", rule=rule)
    for p in cm.paths(prog, sg):
        wr = [e for e in p.events if e.kind in ("store", "call") and cm.writes_through(prog, p, e, ("arg", 0))]
        ok = bool(wr) and wr[0].kind == "call" and wr[0].callee_name() == "memmove" and \
            wr[0].args[0] == ("gep", ("arg", 0), prog.K("crypto_sign_ed25519_BYTES"), ()) and wr[0].args[1] == ("arg", 2) and wr[0].args[2] == ("arg", 3)
        chk.ob(rule, sg, "the message is moved to sm + 64 with memmove before anything else is written to sm", ok,
               loc=sg.loc(wr[0].iid) if wr else sg.loc(), path=None if ok else p, key="%s crypto_sign_ed25519 move-first" % rule)
        if ok:
            det = [e for e in p.calls("crypto_sign_ed25519_detached")]
            ok2 = bool(det) and det[0].args[2] == wr[0].args[0] and det[0].args[0] == ("arg", 0)
            chk.ob(rule, sg, "the detached signer signs the moved copy (sm + 64), writing the signature to sm", ok2,
                   loc=sg.loc(det[0].iid) if det else sg.loc(), path=None if ok2 else p, key="%s crypto_sign_ed25519 signs-copy" % rule)


# (function, unit substring, name of the output pointer parameter, name of the input pointer parameter)
INPLACE_CORES = [
    ("aes_gcm_decrypt_generic", "aes256gcm/aesni", "dst", "src"), ("aes_gcm_encrypt_generic", "aes256gcm/aesni", "dst", "src"),
    ("encrypt_xor_wide", "aes256gcm/aesni", "dst", "src"), ("encrypt_xor_block", "aes256gcm/aesni", "dst", "src"),
    ("chacha20_encrypt_bytes", "chacha20/ref/", "c", "m"), ("chacha20_encrypt_bytes", "chacha20_dolbeau-ssse3", "c", "m"),
    ("chacha20_encrypt_bytes", "chacha20_dolbeau-avx2", "c", "m"), ("salsa20_encrypt_bytes", "salsa20_xmm6int-avx2", "c", "m"),
    ("salsa20_encrypt_bytes", "salsa20_xmm6int-sse2", "c", "m"), ("stream_ref_xor_ic", "salsa20/ref/", "c", "m"),
    # AEGIS block functions (every compiled backend includes the common header): dst is stored before the state update
    ("aegis128l_enc", "crypto_aead/aegis128l/", "dst", "src"), ("aegis128l_dec", "crypto_aead/aegis128l/", "dst", "src"),
    ("aegis256_enc", "crypto_aead/aegis256/", "dst", "src"), ("aegis256_dec", "crypto_aead/aegis256/", "dst", "src"),
]


def hazard_rule(ctx, prog, chk):
    from .. import hazard
    hz = hazard.Hazards(ctx, prog)
    nfn = nacc = 0
    cores = list(INPLACE_CORES)
    listed = {(n, u) for n, u, _d, _s in cores}
    # every other function of the stream-cipher units with a (c, m) pair of byte pointers is a documented in-place XOR as well
    for f in sorted(prog.functions(), key=lambda f: (f.unit, f.name)):
        if f.unit.startswith("crypto_stream/") and f.param_index("c") is not None and f.param_index("m") is not None and \
                not any(f.name == n and u in f.unit for n, u in listed):
            cores.append((f.name, f.unit, "c", "m"))
    # AEAD functions: decryption reads the ciphertext (MAC) and writes the message, encryption the other way round
    for f in sorted(prog.functions(), key=lambda f: (f.unit, f.name)):
        if f.unit.startswith("crypto_aead/") and f.param_index("c") is not None and f.param_index("m") is not None and \
                f.params[f.param_index("c")]["ty"] == "i8*" and f.params[f.param_index("m")]["ty"] == "i8*" and \
                not any(f.name == n and u in f.unit for n, u, _d, _s in cores):
            dec = f.param_index("m") < f.param_index("c")
            cores.append((f.name, f.unit, "m" if dec else "c", "c" if dec else "m"))
    for name, usub, dname, sname_ in cores:
      for fn in [f for f in prog.functions() if f.name == name and usub in f.unit and not f.decl]:
          dst, src = fn.param_index(dname), fn.param_index(sname_)
          if dst is None or src is None:
              raise AnalysisBroken("R13.2: %s has no parameters named %s / %s" % (name, dname, sname_))
          acc, bad = hz.hazards(fn, dst, src)
          nw = sum(1 for a in acc if a[1] == "W")
          nr = sum(1 for a in acc if a[1] == "R")
          if not nw or not nr:
              continue
          nfn += 1
          nacc += nw + nr
          for w, r in bad:
              chk.ob("R13.2", fn, "no input read follows an overlapping output write in the same loop generation", False,
                     loc=fn.loc(r[0]), detail="%s at %s writes out[%s%+d .. %+d); %s at %s then reads in[%s%+d ..%s): with in == out it "
                     "reads the function's own output" % (w[5], fn.loc(w[0]), _base(fn, w[2]), w[3], w[4], r[5], fn.loc(r[0]),
                                                           _base(fn, r[2]), r[3], "" if r[4] is None else " %+d" % r[4]),
                     key="R13.2 %s %s" % (name, fn.unit.split("/")[-1]))
          chk.ob("R13.2", fn, "%d output writes and %d input reads in linear form: no read-after-write hazard" % (nw, nr), not bad,
                 key="R13.2 %s %s summary" % (name, fn.unit.split("/")[-1]))
    chk.floor("R13.2", "in-place cores with linearised accesses", nfn, 4)
    chk.floor("R13.2", "linearised accesses", nacc, 30)


def _base(fn, base):
    return " + ".join("%s%s" % ("" if s == 1 else "%d*" % s, ("pos(+%d per round)" % v[2]) if isinstance(v, tuple) else
                                fn.insts[v].get("name", "v%d" % v)) for v, s in sorted(base, key=str)) or "0"
