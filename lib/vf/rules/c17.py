"""C17 — guarded allocation: layout, ordering, canary-checked free, overflow guards, protections.

Decided clauses:
  R17.1 (E10 affine layout) in _sodium_malloc: user_ptr + size == base + 2*page + R(16+size), the
        region handed to _mprotect_noaccess last is exactly that address for one page, the canary
        is copied to user_ptr - 16, the mapping is 3*page + R(16+size) bytes; _page_round is
        (x + page-1) & ~(page-1); sodium_free / _sodium_mprotect recompute base = unprotected - 2*page
        and use the stored size.
  R17.2 ordering: guard page protected and canary placed before the pointer is returned;
        sodium_malloc fills the region with a non-zero constant.
  R17.3 free: _free_aligned is reached only with sodium_memcmp(ptr-16, canary, 16) == 0; the
        mismatch arm cannot return.
  R17.4 overflow / oversize guards dominate the size arithmetic, failing with ENOMEM and NULL, and the
        oversize guard's margin covers everything added afterwards (canary, page rounding, extra
        pages), so the mapping size cannot wrap (R17.4-margin); each sodium_mprotect_* applies its
        own PROT_* constant to the stored region.
  R17.5 a protection change never touches the region: on every path of _sodium_mprotect the only memory access through the caller's
        pointer or the recomputed region start is the read of the size word in the header page (unprotected_ptr - 2 * page_size);
        the canary lies inside the region and may be inaccessible.
  R17.7 MAP_FAILED never leaves _alloc_aligned as a pointer: the mmap result is returned only under a `!= MAP_FAILED` fact.
  R17.6 detection terminates unconditionally: every path of _out_of_bounds() ends, without returning, in abort() itself and no
        function it calls can reach an indirect call (the misuse handler is application code and may not return).
NOT decided: that a protected page faults (OS), protection-transition histories.
"""
from .. import build
from .. import terms as T
from ..build import AnalysisBroken
from ..terms import C
from . import common as cm

M64 = (1 << 64) - 1


ALSO_PORTABLE = True


def run(ctx, chk):
    prog = ctx.prog()
    chk.configs.append("native -O0+mem2reg (HAVE_MMAP, HAVE_MPROTECT)")
    chk.explanation = (
        "Affine evaluation (E10) of the pointer/size arithmetic of _sodium_malloc, sodium_free and _sodium_mprotect over the symbols "
        "size, page_size, mapping base and R(x) = _page_round(x), with equalities between linear forms as obligations; E1 ordering, "
        "canary-comparison dominance of the release, guard facts before the size arithmetic, and the PROT_* constant of each "
        "sodium_mprotect_* read from the compiled system header.")
    chk.not_decided = "that the OS faults on the guard page and protection-transition histories are outside static reach."
    chk.assumptions += ["R(x) is a multiple of page_size with R(x) >= x (its body is checked to be (x + page-1) & ~(page-1); page_size is a power of two by the OS)",
                        "pointer arithmetic does not wrap once the oversize guard passed"]
    sm = prog.need("_sodium_malloc", rule="R17.1")
    pr = prog.need("_page_round", unit=sm.unit, rule="R17.1")
    PS_G = ("g", "page_size")
    CAN_G = ("g", "canary")

    def canon(p):
        """rewrite: loads of page_size -> PS symbol, _page_round(x) -> ('op','R',x)"""
        m = {}
        for e in p.events:
            if e.kind == "load" and e.addr == PS_G and e.res is not None:
                m[e.res] = ("op", "PS")
            if e.kind == "call" and e.callee_name() == "_page_round" and e.res is not None:
                m[e.res] = ("op", "R", sub(e.args[0], m))
        return m

    def sub(t, m):
        if t in m:
            return m[t]
        k = t[0]
        if k in ("c", "undef", "arg", "g", "alloca", "call", "load", "havoc"):
            return t
        if k == "gep":
            return ("gep", sub(t[1], m), t[2], tuple((sub(v, m), s) for v, s in t[3]))
        return tuple(sub(x, m) if isinstance(x, tuple) and x and isinstance(x[0], str) else x for x in t)

    def lin(t, m):
        return T.linear(sub(t, m))

    PS = ("op", "PS")
    SIZE = ("arg", 0)

    def sub_ps(p):
        """the term the path loaded page_size as (to ask the branch facts about its range)"""
        for e in p.events:
            if e.kind == "load" and e.addr == PS_G and e.res is not None:
                return e.res
        return None

    # ---- _page_round body --------------------------------------------------------------------
    for p in cm.paths(prog, pr):
        m = canon(p)
        r = sub(p.ret, m)
        ok = False
        if r[0] == "bin" and r[1] == "and":
            for x, y in ((r[2], r[3]), (r[3], r[2])):
                if T.linear(x) == ({("arg", 0): 1, PS: 1}, -1) and y[0] == "bin" and y[1] == "xor" \
                        and y[3] == C(M64, 64) and T.linear(y[2]) == ({PS: 1}, -1):
                    ok = True
        chk.ob("R17.1", pr, "_page_round(x) == (x + page_size - 1) & ~(page_size - 1)", ok, detail=T.show(p.ret, pr),
               key="R17.1 _page_round body")

    # ---- _sodium_malloc ------------------------------------------------------------------------
    nsucc = 0
    for p in cm.paths(prog, sm):
        if p.kind != "ret" or p.ret_zeroness() == "Z":
            continue
        m = canon(p)
        al = [e for e in p.calls("_alloc_aligned")]
        if len(al) != 1:
            continue
        nsucc += 1
        B = al[0].res
        Rsym = None
        for t in m.values():
            if t[0] == "op" and t[1] == "R" and T.linear(t[2]) == ({SIZE: 1}, 16):
                Rsym = t
        if Rsym is None:
            chk.ob("R17.1", sm, "the unprotected size is _page_round(16 + size)", False, path=p, key="R17.1 _sodium_malloc round-arg")
            continue
        user = lin(p.ret, m)
        want_user = ({B: 1, PS: 2, Rsym: 1, SIZE: -1}, 0)
        chk.ob("R17.1", sm, "user_ptr + size == base + 2*page_size + R(16+size) (last byte abuts the trailing page)",
               user == want_user, loc=sm.loc(p.end_iid), detail="user_ptr = %s" % fmt(user, sm), path=None if user == want_user else p,
               key="R17.1 _sodium_malloc user_ptr")
        tot = lin(al[0].args[0], m)
        chk.ob("R17.1", sm, "mapping size == 3*page_size + R(16+size)", tot == ({PS: 3, Rsym: 1}, 0), loc=sm.loc(al[0].iid),
               detail="total = %s" % fmt(tot, sm), key="R17.1 _sodium_malloc total_size")
        trail = ({B: 1, PS: 2, Rsym: 1}, 0)
        guards = [e for e in p.calls("_mprotect_noaccess") if lin(e.args[0], m) == trail and lin(e.args[1], m) == ({PS: 1}, 0)]
        chk.ob("R17.2", sm, "the page at user_ptr + size is made inaccessible (one page) before the pointer is returned",
               bool(guards), loc=sm.loc(p.end_iid), path=None if guards else p, key="R17.2 _sodium_malloc trailing-guard")
        can = [e for e in p.calls("memcpy") if lin(e.args[0], m) == ({B: 1, PS: 2, Rsym: 1, SIZE: -1}, -16)
               and e.args[1] == CAN_G and e.args[2] == C(16, 64)]
        chk.ob("R17.2", sm, "the 16-byte canary is copied to user_ptr - 16 before the pointer is returned", bool(can),
               loc=sm.loc(p.end_iid), path=None if can else p, key="R17.2 _sodium_malloc canary")
        hdr = [e for e in p.calls("memcpy") if lin(e.args[0], m) == ({B: 1}, 0) and e.args[2] == C(8, 64)]
        src_ok = False
        for e in hdr:
            # the stored value is R(16+size): the source local was last stored with it
            for s in p.events[:e.idx]:
                if s.kind == "store" and s.addr == e.args[1] and sub(s.val, m) == Rsym:
                    src_ok = True
        chk.ob("R17.1", sm, "the unprotected size R(16+size) is stored at the mapping base (read back by free/mprotect)", src_ok,
               loc=sm.loc(p.end_iid), path=None if src_ok else p, key="R17.1 _sodium_malloc stored-size")
        # R17.4: an oversize guard precedes the arithmetic, and its margin covers everything that is added afterwards.
        # With the guard  size < SIZE_MAX - k*page - c, the mapping size  m*page + R(c1 + size)  and  R(x) <= x + page - 1,
        # the total cannot wrap iff (m + 1 - k)*page + c1 - c - 2 <= 0 for every page size the function accepts. (A wrapped
        # total of 0 makes mmap fail with EINVAL, so the caller sees the wrong errno; a small non-zero one maps too little.)
        fb = p.facts_before(al[0].idx)
        guard = None
        for t, v in fb.items:
            if v and t[0] == "icmp" and t[1] == "ult" and t[2] == SIZE:
                co, k0 = lin(t[3], m)
                if set(co) <= {PS} and co.get(PS, 0) <= 0:
                    c = (-1 - k0) % (1 << 64)
                    if c < (1 << 32):
                        guard = (-co.get(PS, 0), c)
        # the other sound shape: a wrap test after each of the three growth steps (canary, page rounding, extra pages)
        steps = None
        if guard is None:
            xs = ({SIZE: 1}, 16 + 0)
            have = {"canary": False, "rounding": False, "pages": False}
            for t, v in fb.items:
                if not v or t[0] != "icmp" or t[1] not in ("uge", "ule", "ugt", "ult"):
                    continue
                big, small = (t[2], t[3]) if t[1] in ("uge", "ugt") else (t[3], t[2])
                lb, ls = lin(big, m), lin(small, m)
                if lb == xs and ls == ({SIZE: 1}, 0):
                    have["canary"] = True
                if lb == ({Rsym: 1}, 0) and ls == xs:
                    have["rounding"] = True
                if lb == tot and ls == ({Rsym: 1}, 0):
                    have["pages"] = True
            steps = have
        okg = guard is not None or (steps is not None and all(steps.values()))
        chk.ob("R17.4", sm, "an oversize guard (size < SIZE_MAX - k*page_size - c, or a wrap test after each growth step) is established "
               "before the mapping is requested", okg, loc=sm.loc(al[0].iid),
               detail="" if okg else "no margin guard; wrap tests present: %s" % steps, path=None if okg else p,
               key="R17.4 _sodium_malloc oversize-guard")
        if guard is not None and tot[0].get(Rsym, 0) == 1 and set(tot[0]) <= {PS, Rsym}:
            kq, cq = guard
            mq, c1 = tot[0].get(PS, 0), 16 + tot[1]
            pmin = max((fb.interval(sub_ps(p)) or (1, 0))[0], 1) if sub_ps(p) is not None else 1
            slope, off = mq + 1 - kq, c1 - cq - 2
            ok = (slope < 0 and slope * pmin + off <= 0) or (slope == 0 and off <= 0)
            nbad = off + 1 if slope == 0 and off > 0 else None
            chk.ob("R17.4-margin", sm, "the guard's margin (%d*page + %d) covers the canary, the page rounding and the %d extra pages: "
                   "the mapping size cannot wrap" % (kq, cq, mq), ok, loc=sm.loc(al[0].iid),
                   detail="" if ok else "(m + 1 - k)*page + c1 - c - 2 = %d*page %+d > 0%s" % (
                       slope, off, "" if nbad is None else ": the %d sizes SIZE_MAX - %d*page - %d .. SIZE_MAX - %d*page - %d pass the guard "
                       "and wrap the total to 0 (mmap fails with EINVAL instead of ENOMEM)" % (nbad - 1, kq, cq + nbad - 1, kq, cq + 1)),
                   path=None if ok else p, key="R17.4-margin _sodium_malloc")
    chk.floor("R17.1", "success paths of _sodium_malloc", nsucc, 1)
    # refusing arm: ENOMEM + NULL, nothing allocated
    ke = build.sys_constants(ctx.wd, "errno.h", ["ENOMEM"])
    kp = build.sys_constants(ctx.wd, "sys/mman.h", ["PROT_NONE", "PROT_READ", "PROT_WRITE"])
    nref = 0
    for fname, cond_has in (("_sodium_malloc", None), ("sodium_allocarray", None)):
        fn = prog.need(fname, rule="R17.4")
        for p in cm.paths(prog, fn):
            if p.kind != "ret" or p.ret_zeroness() != "Z":
                continue
            if any(True for _ in p.calls("_alloc_aligned", "sodium_malloc", "_sodium_malloc")):
                continue
            nref += 1
            en = [e for e in p.events if e.kind == "store" and e.val == C(ke["ENOMEM"], 32) and T.root(e.addr)[0] == "call"]
            chk.ob("R17.4", fn, "refused request returns NULL with errno = ENOMEM and allocates nothing", bool(en),
                   loc=fn.loc(p.end_iid), path=None if en else p, key="R17.4 %s refusal" % fname)
    chk.floor("R17.4", "refusing paths of _sodium_malloc / sodium_allocarray", nref, 2)
    # sodium_allocarray: multiplication guarded
    aa = prog.need("sodium_allocarray", rule="R17.4")
    COUNT, ESZ = ("arg", 0), ("arg", 1)
    nmul = 0
    for p in cm.paths(prog, aa):
        for e in p.calls("sodium_malloc", "_sodium_malloc"):
            nmul += 1
            fb = p.facts_before(e.idx)
            a = e.args[0]
            if a[0] == "c":
                continue                   # a constant request (the empty array): nothing is multiplied
            ismul = a[0] == "bin" and a[1] == "mul" and {a[2], a[3]} == {COUNT, ESZ}
            safe = fb.zeroness(COUNT) == "Z" or fb.zeroness(ESZ) == "Z" or \
                fb.truth(("icmp", "ult", ESZ, ("bin", "udiv", C(M64, 64), COUNT, 64))) is True
            chk.ob("R17.4", aa, "count * size is formed only when count == 0 or size < SIZE_MAX / count", ismul and safe,
                   loc=aa.loc(e.iid), detail="argument %s" % T.show(a, aa), path=None if (ismul and safe) else p,
                   key="R17.4 sodium_allocarray overflow-guard")
    chk.floor("R17.4", "sodium_malloc calls in sodium_allocarray", nmul, 1)

    # ---- sodium_malloc fill -----------------------------------------------------------------------
    # every function of the unit that hands out the result of _sodium_malloc(n) (sodium_malloc, and sodium_allocarray should it stop
    # delegating) fills exactly those n bytes
    prog.need("sodium_malloc", rule="R17.2")
    nfill = 0
    for smal in sorted((f for f in prog.functions() if not f.decl and f.unit == sm.unit), key=lambda f: f.name):
        if not any(i["op"] == "call" and i.get("callee") and i["callee"][0] == "g" and i["callee"][1] == "_sodium_malloc" for i in smal.insts):
            continue
        for p in cm.paths(prog, smal):
            if p.kind != "ret" or p.ret is None or p.ret_zeroness() == "Z":
                continue
            inner = [e for e in p.calls("_sodium_malloc") if e.res == p.ret]
            if not inner:
                continue
            nfill += 1
            fills = [e for e in p.calls("memset") if e.args[0] == inner[0].res and e.args[1][0] == "c"
                     and (e.args[1][1] & 0xFF) != 0 and e.args[2] == inner[0].args[0]]
            ok = bool(fills)
            # ... and the region is laid out for the caller's own request: size, count * size, or a constant (the empty array) -
            # not for a value "adjusted" on the way (a zero request rounded up to 1 moves the user pointer off the guard page)
            req = inner[0].args[0]
            if len(smal.params) == 1:
                exact = req == ("arg", 0)
            else:
                exact = req[0] == "c" or (req[0] == "bin" and req[1] == "mul" and {req[2], req[3]} == {("arg", 0), ("arg", 1)})
            chk.ob("R17.2", smal, "the guarded region is laid out for exactly the size the caller asked for", exact, loc=smal.loc(inner[0].iid),
                   detail="" if exact else "_sodium_malloc is handed %s, not the caller's request: the region's last byte is no longer the last "
                   "byte the caller may use" % T.show(req, smal), path=None if exact else p, key="R17.2 %s fill" % smal.sname)
            chk.ob("R17.2", smal, "returned region is filled with a non-zero constant over exactly the requested number of bytes", ok,
                   loc=smal.loc(p.end_iid), detail="" if ok else "no memset(result, non-zero constant, n) with n == %s, the size handed to "
                   "_sodium_malloc: part of the user region keeps the zeros of the fresh mapping" % T.show(inner[0].args[0], smal),
                   path=None if ok else p, key="R17.2 %s fill" % smal.sname)
    chk.floor("R17.2", "paths returning a fresh guarded region", nfill, 1)

    # ---- sodium_free --------------------------------------------------------------------------------
    fr = prog.need("sodium_free", rule="R17.3")
    nfree = 0
    for p in cm.paths(prog, fr):
        m = canon(p)
        rel = [e for e in p.calls("_free_aligned")]
        cmpz = [e for e in p.calls("sodium_memcmp") if lin(e.args[0], m) == ({("arg", 0): 1}, -16) and e.args[1] == CAN_G
                and e.args[2] == C(16, 64)]
        for e in rel:
            nfree += 1
            ok = any(c.idx < e.idx and p.facts.zeroness(c.res) == "Z" for c in cmpz)
            chk.ob("R17.3", fr, "_free_aligned is reached only after sodium_memcmp(ptr - 16, canary, 16) == 0", ok,
                   loc=fr.loc(e.iid), path=None if ok else p, key="R17.3 sodium_free canary-check")
            U = [c for c in p.calls("_unprotected_ptr_from_user_ptr") if c.args[0] == ("arg", 0)]
            okb = bool(U) and lin(e.args[0], m) == ({U[0].res: 1, PS: -2}, 0)
            chk.ob("R17.1", fr, "released mapping starts at unprotected_ptr - 2*page_size", okb, loc=fr.loc(e.iid),
                   detail=fmt(lin(e.args[0], m), fr), path=None if okb else p, key="R17.1 sodium_free base")
        for c in cmpz:
            if p.facts.zeroness(c.res) == "NZ":
                chk.ob("R17.3", fr, "canary mismatch cannot return (terminates the process)", p.kind == "noreturn",
                       loc=fr.loc(p.end_iid), path=None if p.kind == "noreturn" else p, key="R17.3 sodium_free mismatch-returns")
    chk.floor("R17.3", "paths of sodium_free reaching _free_aligned", nfree, 1)
    # whatever the mismatch arm calls last must itself have no returning path
    enders = set()
    for p in cm.paths(prog, fr):
        if p.kind == "noreturn" and p.events and p.events[-1].kind == "call" and p.events[-1].callee[0] == "fn":
            enders.add(p.events[-1].callee[1])
    for oob in sorted(enders, key=lambda f: f.name):
        for p in cm.paths(prog, oob):
            chk.ob("R17.3", oob, "%s has no returning path" % oob.sname, p.kind == "noreturn", loc=oob.loc(p.end_iid),
                   path=None if p.kind == "noreturn" else p, key="R17.3 %s returns" % oob.sname)
    up = prog.need("_unprotected_ptr_from_user_ptr", unit=fr.unit, rule="R17.1")
    for p in cm.paths(prog, up):
        if p.kind != "ret":
            continue
        m = canon(p)
        r = sub(p.ret, m)
        ok = False
        if r[0] == "bin" and r[1] == "and":
            for x, y in ((r[2], r[3]), (r[3], r[2])):
                if T.linear(x) == ({("arg", 0): 1}, -16) and y[0] == "bin" and y[1] == "xor" and y[3] == C(M64, 64) \
                        and T.linear(y[2]) == ({PS: 1}, -1):
                    ok = True
        chk.ob("R17.1", up, "unprotected_ptr == (user_ptr - 16) & ~(page_size - 1)", ok, detail=T.show(p.ret, up),
               key="R17.1 _unprotected_ptr_from_user_ptr")

    # ---- protections ---------------------------------------------------------------------------------
    mp = prog.need("_sodium_mprotect", unit=fr.unit, rule="R17.4")
    for p in cm.paths(prog, mp):
        if p.kind != "ret":
            continue
        m = canon(p)
        cbs = [e for e in p.calls() if e.callee[0] == "ind" and e.callee[1] == ("arg", 1)]
        U = [c for c in p.calls("_unprotected_ptr_from_user_ptr") if c.args[0] == ("arg", 0)]
        ok = len(cbs) == 1 and bool(U) and cbs[0].args[0] == U[0].res and p.ret == cbs[0].res
        if ok:
            # size = 8 bytes read from unprotected_ptr - 2*page_size
            src = [e for e in p.calls("memcpy") if lin(e.args[1], m) == ({U[0].res: 1, PS: -2}, 0) and e.args[2] == C(8, 64)]
            ld = [e for e in p.events if e.kind == "load" and e.res == cbs[0].args[1]]
            ok = bool(src) and bool(ld) and ld[0].addr == src[0].args[0]
            if not ok and ld:
                # the size word read with a typed load instead of memcpy
                ok = ld[0].size == 8 and lin(ld[0].addr, m) == ({U[0].res: 1, PS: -2}, 0)
        chk.ob("R17.4", mp, "protection callback is applied to (unprotected_ptr, stored unprotected_size) and its status returned", ok,
               loc=mp.loc(p.end_iid), path=None if ok else p, key="R17.4 _sodium_mprotect region")
    # ---- R17.6 detection terminates unconditionally -----------------------------------------------------------------------------
    # _out_of_bounds() never returns, and after raising the signal it ends in abort() itself: nothing it calls on the way may run
    # application code (a misuse handler that longjmps would keep a process alive whose guard was overwritten).
    oob = prog.need("_out_of_bounds", unit=fr.unit, rule="R17.6")
    cg = prog.callgraph()
    n176 = 0
    for p in cm.paths(prog, oob):
        n176 += 1
        calls = list(p.calls())
        last = calls[-1] if calls else None
        ok = p.kind != "ret" and last is not None and last.callee_name() == "abort"
        indirect = []
        for e in calls:
            if e.callee[0] == "fn":
                reach = cg.reachable([e.callee[1]])
                for k in reach:
                    g = cg.by_key[k]
                    if any(i["op"] == "call" and i.get("callee") and i["callee"][0] == "v" for i in g.insts):
                        indirect.append("%s (through %s)" % (e.callee[1].sname, g.sname))
            elif e.callee[0] == "ind":
                indirect.append("an indirect call")
        ok = ok and not indirect
        chk.ob("R17.6", oob, "_out_of_bounds() ends in abort() and runs no application-installable code", ok, loc=oob.loc(p.end_iid),
               path=None if ok else p, detail="" if ok else ("the path %s" % ("returns" if p.kind == "ret" else "ends in %s" %
                                                                             (last.callee_name() if last else "nothing")) +
                                                              ("; it calls %s, which can run a handler installed by the application" %
                                                               ", ".join(sorted(set(indirect))[:2]) if indirect else "")),
               key="R17.6 _out_of_bounds")
    chk.floor("R17.6", "paths of _out_of_bounds", n176, 1)
    # ---- R17.7 a refused mapping is reported as NULL ("oversized requests fail with ENOMEM"): C20's forwarding rule on this unit ---
    from . import c20
    c20.mmap_escape_rule(prog, chk, "R17.7", ("sodium/utils.c",), floor=1)
    # ---- R17.5 changing the protection never touches the region itself --------------------------------------------------------
    # The user region (with its canary) may be PROT_NONE when a protection call arrives; the only memory _sodium_mprotect may
    # read is the size word in the read-only header page two pages below. Any other access through the caller's pointer or
    # through the recomputed region start faults on a region that was made inaccessible - "reversible in any order" is lost.
    n175 = 0
    for p in cm.paths(prog, mp):
        if p.kind != "ret":
            continue
        m = canon(p)
        U = [c for c in p.calls("_unprotected_ptr_from_user_ptr") if c.args[0] == ("arg", 0)]
        ures = U[0].res if U else None
        for e in p.events:
            tgt = []
            if e.kind in ("load", "store"):
                tgt.append(e.addr)
            elif e.kind == "call":
                if e.callee_name() == "_unprotected_ptr_from_user_ptr" or (e.callee[0] == "ind" and e.callee[1] == ("arg", 1)):
                    continue
                tgt += [a for a in e.args if isinstance(a, tuple)]
            for a in tgt:
                r = T.root(a)
                if r == ("arg", 0):
                    bad = True
                elif ures is not None and r == ures:
                    bad = lin(a, m) != ({ures: 1, PS: -2}, 0)
                else:
                    continue
                n175 += 1
                chk.ob("R17.5", mp, "a protection change reads nothing but the size word of the header page", not bad, loc=mp.loc(e.iid),
                       path=p if bad else None, detail="" if not bad else "%s at %s goes through %s: the region (canary included) may be "
                       "PROT_NONE at this point" % ((e.callee_name() or "call") if e.kind == "call" else e.kind, mp.loc(e.iid), T.show(a, mp)),
                       key="R17.5 _sodium_mprotect touches-region")
    chk.floor("R17.5", "memory accesses of _sodium_mprotect relative to the region", n175, 1)
    want = {"sodium_mprotect_noaccess": ("_mprotect_noaccess", kp["PROT_NONE"]),
            "sodium_mprotect_readonly": ("_mprotect_readonly", kp["PROT_READ"]),
            "sodium_mprotect_readwrite": ("_mprotect_readwrite", kp["PROT_READ"] | kp["PROT_WRITE"])}
    for api, (cb, flag) in want.items():
        fn = prog.need(api, rule="R17.4")
        for p in cm.paths(prog, fn):
            ev = [e for e in p.calls("_sodium_mprotect")]
            ok = len(ev) == 1 and ev[0].args[0] == ("arg", 0) and ev[0].args[1] == ("g", cb) and p.ret == ev[0].res
            chk.ob("R17.4", fn, "%s passes its own callback %s for the caller's pointer" % (api, cb), ok, loc=fn.loc(p.end_iid),
                   path=None if ok else p, key="R17.4 %s callback" % api)
        cf = prog.need(cb, unit=fr.unit, rule="R17.4")
        for p in cm.paths(prog, cf):
            ev = [e for e in p.calls("mprotect")]
            ok = len(ev) == 1 and ev[0].args[0] == ("arg", 0) and ev[0].args[1] == ("arg", 1) and ev[0].args[2] == C(flag, 32) \
                and p.ret == ev[0].res
            chk.ob("R17.4", cf, "%s calls mprotect(ptr, size, %d) on the whole region and returns its status" % (cb, flag), ok,
                   loc=cf.loc(p.end_iid), path=None if ok else p, key="R17.4 %s flag" % cb)


def fmt(lf, fn):
    co, k = lf
    parts = ["%+d*%s" % (n, T.show(a, fn)) for a, n in co.items()]
    return " ".join(parts) + (" %+d" % k if k else "")
