"""C19 — initialisation happens once under the lock; no API operation stores to process-global state.

Decided clauses:
  R19.1 once-init under the lock (E1 typestate on sodium_init): every path that acquired the lock
        releases it before returning; every initialisation step and the store initialized = 1 lie
        between acquire and release, the store being the last of them; the already-initialised
        path performs none of them and returns 1. In sodium_crit_enter/leave the `locked` flag is
        only written while the mutex is held.
  R19.2 global-state ownership (E2): the inventory of mutable (non-const, non-thread-local)
        globals is enumerated from the IR; every public API function other than sodium_init and
        the named lifecycle APIs stores to none of them, except through a lazy-initialisation gate
        whose writes are dominated by the "not yet initialised" test of a flag that sodium_init
        sets (so that after initialisation the store is unreachable), and except the lock's own
        bookkeeping written while the lock is held.
  R19.5 randombytes_close() on the default generator resets the stream state only after it really closed the
        /dev/urandom descriptor; on the getrandom() path the state (and with it the lock-free lazy initialiser) is
        left alone.
  R19.6 the selectable randombytes_internal backend probes its entropy source once per process: a function of that unit is
        "unguarded" when it stores to a process-global (non-thread-local) object, or calls an unguarded function of the unit,
        outside a zero-test of a *process-global* flag; no function stored in the backend's vtable may be unguarded. (A gate keyed
        on the thread-local stream state re-runs the probe, unlocked, on every thread's first use.) One named exception:
        storing the result of getpid() (same value in every thread).
  R19.7 what sodium_init() sets up is visible to every thread: a thread-local object that is written only by functions that run as
        part of sodium_init() (all their callers are sodium_init or such functions) but is read by other functions stays
        uninitialised in every other thread (a thread-local canary: guard bytes of zero, cross-thread sodium_free() aborts).
NOT decided: absence of races inside libc / the OS; results equal to sequential runs (follows
from R19.2 for distinct buffers, but is not separately proved).
"""
from .. import terms as T
from ..build import AnalysisBroken
from ..terms import C
from . import common as cm

INIT_STEPS = ["_sodium_runtime_get_cpu_features", "randombytes_stir", "_sodium_alloc_init",
              "_crypto_pwhash_argon2_pick_best_implementation", "_crypto_generichash_blake2b_pick_best_implementation",
              "_crypto_onetimeauth_poly1305_pick_best_implementation", "_crypto_scalarmult_curve25519_pick_best_implementation",
              "_crypto_stream_chacha20_pick_best_implementation", "_crypto_stream_salsa20_pick_best_implementation",
              "_crypto_aead_aegis128l_pick_best_implementation", "_crypto_aead_aegis256_pick_best_implementation"]
LIFECYCLE = {
    "sodium_init": "the initialiser itself (R19.1: under the lock, once)",
    "randombytes_set_implementation": "documented to be called before sodium_init / while no other thread uses the library",
    "randombytes_close": "lifecycle API without data buffers; documented as not thread-safe with concurrent generation",
    "randombytes_stir": "lifecycle API (re-seed); no-op store pattern after init for the default generator",
    "sodium_set_misuse_handler": "stores under sodium_crit_enter (class c)",
}
# lazy-initialisation gates: function -> (flag global key suffix, field byte offset or None)
GATES = {"randombytes_init_if_needed": ("randombytes/randombytes.c::implementation", None),
         "randombytes_sysrandom_stir": ("randombytes/sysrandom/randombytes_sysrandom.c::stream", 4)}
LOCK_INTERNAL = {"sodium/core.c::locked", "sodium/core.c::_sodium_lock"}


ALSO_PORTABLE = True


def _ret_by_leave(p, lev, want):
    """the return value as a function of sodium_crit_leave()'s result: `want` when the lock was
    released, non-zero otherwise. The path may or may not have branched on that result (a
    conditional expression leaves a select in the returned term), so both cases are decided
    under the corresponding assumption."""
    if p.ret is None:
        return False
    if not lev:
        return p.ret_zeroness() == "NZ"
    r = lev[0].res
    lz = p.facts.zeroness(r)
    ok = True
    for z in ("Z", "NZ"):
        if lz is not None and lz != z:
            continue
        f = p.facts.copy()
        f.add(("icmp", "eq", r, C(0, 32)), z == "Z")
        if z == "Z":
            ok = ok and f.interval(p.ret) == (want, want)
        else:
            ok = ok and f.zeroness(p.ret) == "NZ"
    return ok


def run(ctx, chk):
    prog = ctx.prog()
    cg = prog.callgraph()
    chk.configs.append("native -O0+mem2reg (pthread mutex variant of the critical section)")
    chk.explanation = (
        "E1 typestate on sodium_init / sodium_crit_enter / sodium_crit_leave (lock held around all initialisation steps and the "
        "initialized flag, released on every exit); E2 whole-library global-store analysis: inventory of every mutable global from "
        "the IR, transitive store sets per public API function with lazy-initialisation gates cut out and verified separately.")
    chk.not_decided = "data races inside libc/OS primitives and result equality with sequential runs are not separately proved."
    chk.assumptions += ["lifecycle APIs listed in the evidence are outside 'operations on distinct buffers' (reasons given per symbol)",
                        "stores through pointers derived from parameters write caller-owned (per-thread) buffers"]
    init = prog.need("sodium_init", rule="R19.1")
    ps = cm.paths(prog, init)
    nfirst = nagain = 0
    step_set = set(INIT_STEPS)
    for p in ps:
        if p.kind != "ret":
            continue
        ent = [e for e in p.calls("sodium_crit_enter")]
        lev = [e for e in p.calls("sodium_crit_leave")]
        steps = [e for e in p.calls() if e.callee_name() in step_set]
        flag = [e for e in p.events if e.kind == "store" and e.addr == ("g", "initialized")]
        if not ent:
            chk.ob("R19.1", init, "every path starts by entering the critical section", False, loc=init.loc(p.end_iid), path=p,
                   key="R19.1 sodium_init no-enter")
            if not steps and not flag:
                nagain += 1
            else:
                nfirst += 1
            continue
        locked_ok = p.facts.zeroness(ent[0].res) == "Z"
        if not locked_ok:
            # lock not acquired: must fail without touching anything
            ok = not steps and not flag and p.ret_zeroness() == "NZ"
            chk.ob("R19.1", init, "lock not acquired => nothing initialised, failure returned", ok, loc=init.loc(p.end_iid),
                   path=None if ok else p, key="R19.1 sodium_init unlocked-work")
            continue
        ok = len(lev) == 1 and all(ent[0].idx < e.idx < lev[0].idx for e in steps + flag)
        chk.ob("R19.1", init, "lock acquired => released exactly once before returning, all initialisation inside", ok,
               loc=init.loc(p.end_iid), path=None if ok else p, key="R19.1 sodium_init lock-pairing")
        if steps or flag:
            nfirst += 1
            names = [e.callee_name() for e in steps]
            ok = set(names) == step_set and len(flag) == 1 and flag[0].val == C(1, 32) and flag[0].idx > max(e.idx for e in steps)
            chk.ob("R19.1", init, "first initialisation runs every step and sets initialized = 1 last", ok, loc=init.loc(p.end_iid),
                   detail="missing: %s" % sorted(step_set - set(names)), path=None if ok else p, key="R19.1 sodium_init order")
            okr = _ret_by_leave(p, lev, 0)
            chk.ob("R19.1", init, "initialising thread returns 0 (or -1 if the lock cannot be released)", okr, loc=init.loc(p.end_iid),
                   path=None if okr else p, key="R19.1 sodium_init first-return")
        else:
            nagain += 1
            okr = _ret_by_leave(p, lev, 1)
            chk.ob("R19.1", init, "already initialised => no initialisation work, returns 1", okr, loc=init.loc(p.end_iid),
                   path=None if okr else p, key="R19.1 sodium_init again-return")
    chk.floor("R19.1", "first-initialisation paths", nfirst, 1)
    chk.floor("R19.1", "already-initialised paths", nagain, 1)
    # the skip is decided by the flag read under the lock
    for p in ps:
        ent = [e for e in p.calls("sodium_crit_enter")]
        for e in p.events:
            if e.kind == "load" and e.addr == ("g", "initialized"):
                ok = bool(ent) and ent[0].idx < e.idx and p.facts.zeroness(ent[0].res) == "Z"
                chk.ob("R19.1", init, "the initialized flag is read only while the lock is held", ok, loc=init.loc(e.iid),
                       path=None if ok else p, key="R19.1 sodium_init flag-read-unlocked")
    # crit_enter / crit_leave
    ce = prog.need("sodium_crit_enter", rule="R19.1")
    for p in cm.paths(prog, ce):
        st = [e for e in p.events if e.kind == "store" and e.addr == ("g", "locked")]
        lk = [e for e in p.calls("pthread_mutex_lock")]
        for s in st:
            ok = bool(lk) and lk[0].idx < s.idx and p.facts.zeroness(lk[0].res) == "Z"
            chk.ob("R19.1", ce, "`locked` is set only after the mutex was acquired", ok, loc=ce.loc(s.iid), path=None if ok else p,
                   key="R19.1 sodium_crit_enter")
        if p.kind == "ret" and p.ret_zeroness() == "Z":
            ok = bool(lk) and p.facts.zeroness(lk[0].res) == "Z"
            chk.ob("R19.1", ce, "sodium_crit_enter reports success only with the mutex held", ok, loc=ce.loc(p.end_iid),
                   path=None if ok else p, key="R19.1 sodium_crit_enter success")
    cl = prog.need("sodium_crit_leave", rule="R19.1")
    for p in cm.paths(prog, cl):
        st = [e for e in p.events if e.kind == "store" and e.addr == ("g", "locked")]
        ul = [e for e in p.calls("pthread_mutex_unlock")]
        for s in st:
            ok = bool(ul) and s.idx < ul[0].idx
            chk.ob("R19.1", cl, "`locked` is cleared before the mutex is released", ok, loc=cl.loc(s.iid), path=None if ok else p,
                   key="R19.1 sodium_crit_leave")

    # ---- R19.2 --------------------------------------------------------------------------------------
    inv = {}
    for m in prog.modules.values():
        for g in m.globals.values():
            if g["decl"] or g["const"] or g["tls"]:
                continue
            if g["name"].startswith(".str") or g["name"].startswith("__"):
                continue
            inv[cg.gkey(m.unit, g["name"])] = (m.unit, g)
    chk.floor("R19.2", "mutable process-global objects in the library", len(inv), 30)
    chk.analysed["R19.2 inventory"] = sorted(inv)
    gate_fns = {prog.need(n, rule="R19.2").key: n for n in GATES}
    # gates: every global write is dominated by the "flag is unset" test, and the flag is set by sodium_init
    init_w = cg.globals_written_from(init)
    for gk_fn, gname in gate_fns.items():
        gf = cg.by_key[gk_fn]
        flagkey, off = GATES[gname]
        chk.ob("R19.2-gate", gf, "the gate's flag %s is written during sodium_init" % flagkey, flagkey in init_w,
               detail=" -> ".join(init_w.get(flagkey, [])), key="R19.2-gate %s flag-not-set-by-init" % gname)
        flag_addr = ("g", flagkey.split("::")[-1])
        if off:
            flag_addr = ("gep", flag_addr, off, ())
        for p in cm.paths(prog, gf):
            unset = None
            for e in p.events:
                if e.kind == "load" and e.addr == flag_addr and p.facts.zeroness(e.res) == "Z":
                    unset = e if unset is None else unset
            for e in p.events:
                w = False
                if e.kind == "store" and T.root(e.addr)[0] == "g":
                    w = True
                elif e.kind == "call":
                    tg, _c = cm.resolved_targets(prog, gf, e)
                    w = any(set(cg.globals_written_from(t)) - LOCK_INTERNAL for t in tg)
                if w:
                    ok = unset is not None and unset.idx < e.idx
                    chk.ob("R19.2-gate", gf, "global write at %s happens only when the flag says 'not initialised'" % gf.loc(e.iid), ok,
                           loc=gf.loc(e.iid), path=None if ok else p, key="R19.2-gate %s unguarded-write" % gname)
    # the default generator: the struct installed by the lazy gate; functions that only sit in other
    # randombytes_implementation structs (the non-default "internal" backend) are not the default generator
    rgate = prog.need("randombytes_init_if_needed", rule="R19.2")
    default_struct = None
    for ins in rgate.insts:
        if ins["op"] == "store" and ins["ops"][1] == ["g", "implementation"] and ins["ops"][0][0] == "g":
            default_struct = ins["ops"][0][1]
    if default_struct is None:
        raise AnalysisBroken("R19.2: cannot identify the default randombytes implementation installed by the gate")
    default_fns, other_fns = set(), set()
    for (unit, gname), paths_ in cg.global_fnptr.items():
        g = prog.modules[unit].globals[gname]
        if g["ty"] != "%struct.randombytes_implementation":
            continue
        for fname in paths_.values():
            t = prog.fn(fname, unit)
            if t is not None:
                (default_fns if gname == default_struct else other_fns).add(t.key)
    nondefault = other_fns - default_fns
    chk.suppress("R19.2", "functions stored only in non-default randombytes_implementation structs (%d)" % len(nondefault),
                 "the property speaks of the default generator (%s); another backend is installed only by the lifecycle API "
                 "randombytes_set_implementation" % default_struct)
    cut = set(gate_fns) | nondefault
    # every other public function
    npub = nwr = 0
    for f in sorted(prog.functions(), key=lambda f: f.name):
        if not f.public:
            continue
        npub += 1
        if f.sname in LIFECYCLE:
            chk.suppress("R19.2", f.sname, LIFECYCLE[f.sname])
            continue
        wr = cg.globals_written_from(f, cut=cut)
        bad = {g: ch for g, ch in wr.items() if g in inv and g not in LOCK_INTERNAL}
        # the non-default randombytes_internal generator is reached only through its own vtable
        ok = not bad
        if bad:
            nwr += 1
        chk.ob("R19.2", f, "API function stores to no process-global object", ok,
               detail="; ".join("%s via %s" % (g, " -> ".join(ch)) for g, ch in sorted(bad.items()))[:600],
               key="R19.2 %s writes-global" % f.sname)
    chk.floor("R19.2", "public API functions examined", npub, 500)
    # positive fixture: the detector sees the writes of the initialiser
    chk.floor("R19.2", "fixture: globals written from sodium_init (detector is live)", len([g for g in init_w if g in inv]), 12)
    # non-default generator: informational
    ri = [f for f in prog.functions() if f.unit.startswith("randombytes/internal/")]
    w = set()
    for f in ri:
        w |= set(cg.globals_written_at(f))
    chk.note("non-default randombytes_internal backend (not the default generator the property speaks of) writes: %s" % sorted(w))
    internal_backend_rule(prog, chk, cg)
    tls_init_rule(prog, chk, cg, init)
    # ---- R19.5 closing the default generator does not re-arm its (unsynchronised) lazy initialiser -------------------------
    # randombytes_sysrandom_stir_if_needed() runs the initialiser whenever stream.initialized == 0, without a lock; that is
    # safe only because the flag is set once inside sodium_init(). randombytes_close() may therefore reset the stream state
    # only on the path on which it really closed the /dev/urandom descriptor (the documented non-thread-safe fallback); on the
    # getrandom() path - the default on Linux - it must leave the state alone.
    cl = prog.fn("randombytes_sysrandom_close", "randombytes/sysrandom/randombytes_sysrandom.c")
    if cl is None:
        if not chk.relaxed:
            raise AnalysisBroken("R19.5: randombytes_sysrandom_close not found")
    else:
        n5 = 0
        for p in cm.paths(prog, cl):
            closes = [e for e in p.calls("close")]
            for e in p.stores():
                if T.root(e.addr) != ("g", "stream"):
                    continue
                n5 += 1
                okc = any(c.idx < e.idx and p.facts.zeroness(c.res) == "Z" for c in closes)
                chk.ob("R19.5", cl, "the stream state is reset only after close(fd) on the descriptor succeeded", okc, loc=cl.loc(e.iid),
                       detail="" if okc else "store to %s on a path without a successful close(): on the getrandom() path this re-arms "
                       "the lock-free lazy initialiser for concurrent callers" % T.show(e.addr, cl), path=None if okc else p,
                       key="R19.5 randombytes_sysrandom_close")
        chk.floor("R19.5", "stores to the stream state in randombytes_sysrandom_close", n5, 2)


def internal_backend_rule(prog, chk, cg):
    """R19.6: process-global state of the internal generator is written only under a process-global once-flag"""
    fns = [f for f in prog.functions() if f.unit.startswith("randombytes/internal/")]
    if not fns:
        if chk.relaxed:
            return
        raise AnalysisBroken("R19.6: no function of randombytes/internal/ in the build")

    def is_tls(f, name):
        g = prog.global_def(f, name)
        return g is None or bool(g[1].get("tls")) or bool(g[1].get("const"))
    paths = {f.key: cm.paths(prog, f) for f in fns}
    unguarded = {}
    changed = True
    rounds = 0
    while changed and rounds < 6:
        changed = False
        rounds += 1
        for f in fns:
            if f.key in unguarded:
                continue
            why = None
            for p in paths[f.key]:
                for e in p.events:
                    hit = None
                    if e.kind == "store":
                        r = T.root(e.addr)
                        if r[0] == "g" and not is_tls(f, r[1]):
                            if e.val[0] == "call" and any(c.res == e.val and c.callee_name() == "getpid" for c in p.calls("getpid")):
                                continue          # the process id: the same value from every thread
                            hit = "stores to the process-global `%s` at %s" % (r[1], f.loc(e.iid))
                    elif e.kind == "call" and e.callee[0] == "fn" and e.callee[1].key in unguarded:
                        hit = "calls %s at %s" % (e.callee[1].sname, f.loc(e.iid))
                    if hit is None:
                        continue
                    guard = [x for x in p.events[:e.idx] if x.kind == "load" and T.root(x.addr)[0] == "g" and
                             not is_tls(f, T.root(x.addr)[1]) and p.facts.zeroness(x.res) == "Z"]
                    if not guard:
                        why = hit
                        break
                if why:
                    break
            if why:
                unguarded[f.key] = why
                changed = True
    chk.analysed["R19.6: unguarded writers of process-global state in randombytes/internal"] = sorted(
        "%s: %s" % (cg.by_key[k].sname, w) for k, w in unguarded.items())
    n = 0
    for (unit, gname), slots in cg.global_fnptr.items():
        if not unit.startswith("randombytes/internal/"):
            continue
        for fname in slots.values():
            t = prog.fn(fname, unit)
            if t is None:
                continue
            n += 1
            ok = t.key not in unguarded
            chk.ob("R19.6", t, "backend entry point writes process-global generator state only under the process-wide once-flag", ok,
                   detail="" if ok else "%s %s without a preceding zero-test of a process-global flag: every thread's first use re-runs "
                   "the entropy-source probe concurrently" % (t.sname, unguarded[t.key]), key="R19.6 %s" % t.sname)
    chk.floor("R19.6", "entry points of the randombytes_internal backend", n, 5)


def tls_init_rule(prog, chk, cg, init):
    """R19.7: no thread-local object is initialised only under sodium_init() and used elsewhere"""
    from ..model import inst_operands, walk_const
    callers = {}
    for k, outs in cg.edges.items():
        for o in outs:
            callers.setdefault(o, set()).add(k)
    fns = {f.key: f for f in prog.functions()}
    once = {init.key}
    changed = True
    while changed:
        changed = False
        for k, f in fns.items():
            if k in once or f.public:
                continue
            cs = callers.get(k)
            if cs and all(c in once for c in cs):
                once.add(k)
                changed = True
    n = 0
    for m in prog.modules.values():
        for g in m.globals.values():
            if g["decl"] or g["const"] or not g["tls"]:
                continue
            n += 1
            writers, readers = set(), set()
            for f in m.functions.values():
                if f.decl:
                    continue
                for ins in f.insts:
                    refs = []
                    for o in inst_operands(ins):
                        if o[0] == "g" and o[1] == g["name"]:
                            refs.append(o)
                        elif o[0] in ("ce", "agg") and any(c[0] == "g" and c[1] == g["name"] for c in walk_const(o)):
                            refs.append(o)
                    if not refs:
                        continue
                    if ins["op"] == "store" and any(r == ins["ops"][1] for r in refs):
                        writers.add(f.key)
                    elif ins["op"] == "call":
                        from ..callgraph import ext_writes
                        r0 = prog.resolve_callee(f, ins["callee"])
                        for k, o in enumerate(ins.get("ops", [])):
                            if o not in refs:
                                continue
                            if r0[0] == "fn":
                                w = k in cg.writes_params(r0[1])
                            elif r0[0] == "ext":
                                nm = r0[1]
                                if nm.startswith(("llvm.memcpy", "llvm.memmove", "memcpy", "memmove", "llvm.memset", "memset")):
                                    w = k == 0
                                else:
                                    ew = ext_writes(nm)
                                    w = True if ew is None else k in ew
                            else:
                                w = True
                            (writers if w else readers).add(f.key)
                    else:
                        readers.add(f.key)
            outside = sorted(fns[k].sname for k in readers if k not in once)
            ok = not writers or not writers <= once or not outside
            chk.ob("R19.7", "%s::%s" % (m.unit, g["name"]), "a thread-local object set up under sodium_init() is not relied on by other threads", ok,
                   detail="" if ok else "thread-local `%s` is written only by %s (run once, in the initialising thread) and read by %s: every "
                   "other thread sees it zero-initialised" % (g["name"], sorted(fns[k].sname for k in writers), outside[:4]),
                   key="R19.7 %s" % g["name"])
    chk.floor("R19.7", "thread-local objects examined", n, 1)
