"""C16 — padding: fails without writing; unpadding reads only the final block.

Decided clauses:
  R16.1 sodium_pad: no store through `buf` or `padded_buflen_p` on any failing path; every such
        store is preceded by blocksize != 0, by the no-wrap test of unpadded_buflen + xpadlen and
        by (index of the marker) < max_buflen; the reported length is that index + 1.
  R16.2 sodium_unpad: every load through `buf` is preceded by padded_buflen >= blocksize and
        blocksize != 0, and its address is buf + padded_buflen - 1 - i with i < blocksize
        (affine form), i.e. inside the final block.
  R16.3 (E11 bit-flow on the -O2 IR, value source) the constant-time position test is not narrowed:
        every bit (below bit 48) of the loop-position comparison (i ^ xpadlen in sodium_pad, and any
        such xor in sodium_unpad) can influence the stored padding bytes / the verdict - a comparison
        truncated to 32 bits treats positions that differ only above bit 31 as equal.
  R16.4 (E11, influence within one iteration) the marker test of sodium_unpad depends on all 8 bits of the
        scanned byte: each bit can influence the verdict accumulator in its own iteration (a test of bit 7 alone
        accepts 0x81..0xff as the marker).
  R16.5 (E11, per-iteration flows) sodium_unpad remembers what it scanned: a loop-carried value other than the verdict receives bit k
        of every scanned byte in its bit k (an OR-accumulator) and each of its bits can influence the verdict of a later
        iteration - the structural part of "the marker is followed only by zeros".
  R16.7 (E12) no 64-bit quantity of the padding arithmetic is narrowed unless the dropped bits are known zero.
  R16.6 (E16) sodium_pad / sodium_unpad write no static object (re-entrancy).
NOT decided: position of the 0x80 marker, round-trip, the rest of the rejection set (value-level).
"""
from .. import terms as T
from ..build import AnalysisBroken
from ..terms import C
from . import common as cm


ALSO_PORTABLE = True


def run(ctx, chk):
    prog = ctx.prog()
    chk.configs.append("native -O0+mem2reg")
    chk.explanation = ("E1 on sodium_pad / sodium_unpad: stores and loads through the buffer are enumerated on every path and "
                       "must be preceded by the guarding facts (R16.1, R16.2); the address of every unpad load is evaluated to "
                       "an affine form over the parameters and the loop variable.")
    chk.not_decided = "marker position, round-trip equality and the exact rejection set are value-level."
    chk.assumptions.append("index casts do not wrap (size_t arithmetic on 64-bit)")
    pad = prog.need("sodium_pad", rule="R16.1")
    unpad = prog.need("sodium_unpad", rule="R16.2")
    LENP, BUF, UNP, BS, MAXL = (("arg", i) for i in range(5))
    M64 = (1 << 64) - 1

    ps = cm.paths(prog, pad)
    nst = nfail = 0
    for p in ps:
        if p.kind != "ret":
            continue
        sts = [e for e in p.events if e.kind == "store" and T.root(e.addr) in (BUF, LENP)] + \
              [e for e in p.events if e.kind == "call" and (cm.writes_through(prog, p, e, BUF) or cm.writes_through(prog, p, e, LENP))]
        if p.may_return_nonzero():
            nfail += 1
            chk.ob("R16.1", pad, "failing exit: nothing was written through buf / padded_buflen_p", not sts,
                   loc=pad.loc(sts[0].iid) if sts else pad.loc(p.end_iid), path=p if sts else None,
                   key="R16.1 sodium_pad write-on-failure")
        for e in sts:
            nst += 1
            fb = p.facts_before(e.idx)
            why = []
            if fb.zeroness(BS) != "NZ":
                why.append("blocksize != 0 not established")
            cand = []
            if e.kind == "store" and T.root(e.addr) == BUF and e.addr[0] == "gep":
                cand = [v for v, sc in e.addr[3] if sc == 1]
            elif e.kind == "store" and e.addr == LENP:
                co, k = T.linear(e.val)
                # reported length = X + 1 for the X that was compared with max_buflen
                cand = [x for t, v in fb.items if t[0] == "icmp" for x in (t[2], t[3]) if T.linear(x) == (co, k - 1)]
            guarded = [x for x in cand if fb.truth(T.mk_icmp("ult", x, MAXL)) is True]
            if not guarded:
                why.append("no fact (marker index < max_buflen) before the write")
            else:
                x = guarded[0]
                nowrap = False
                if x[0] == "bin" and x[1] == "add":
                    a, b = x[2], x[3]
                    for u, v in ((a, b), (b, a)):
                        if fb.truth(("icmp", "ugt", ("bin", "sub", C(M64, 64), u, 64), v)) is True:
                            nowrap = True
                if not nowrap:
                    why.append("unpadded_buflen + xpadlen is not protected by an overflow test")
            chk.ob("R16.1-guard", pad, "write at %s is preceded by blocksize != 0, the overflow test and index < max_buflen"
                   % pad.loc(e.iid), not why, loc=pad.loc(e.iid), detail="; ".join(why), path=p if why else None,
                   key="R16.1-guard sodium_pad")
    chk.floor("R16.1", "failing exits of sodium_pad", nfail, 2)
    chk.floor("R16.1-guard", "writes through buf / padded_buflen_p on sodium_pad paths", nst, 4)

    ps = cm.paths(prog, unpad)
    nld = 0
    BUFU, PLEN, BSU = ("arg", 1), ("arg", 2), ("arg", 3)
    for p in ps:
        for e in p.events:
            if e.kind != "load" or T.root(e.addr) != BUFU:
                continue
            nld += 1
            fb = p.facts_before(e.idx)
            why = []
            if fb.truth(T.mk_icmp("uge", PLEN, BSU)) is not True:
                why.append("padded_buflen >= blocksize not established")
            if fb.zeroness(BSU) != "NZ":
                why.append("blocksize != 0 not established")
            co, k = T.linear(e.addr)
            co = dict(co)
            ok_form = co.pop(BUFU, 0) == 1 and co.pop(PLEN, 0) == 1 and k == -1 and len(co) == 1
            if ok_form:
                (iv, n), = co.items()
                ok_form = n == -1 and fb.truth(T.mk_icmp("ult", iv, BSU)) is True
            if not ok_form:
                why.append("address is not buf + padded_buflen - 1 - i with i < blocksize (got %s %+d)"
                           % ({T.show(a, unpad): n for a, n in T.linear(e.addr)[0].items()}, k))
            chk.ob("R16.2", unpad, "load at %s reads inside the final block" % unpad.loc(e.iid), not why,
                   loc=unpad.loc(e.iid), detail="; ".join(why), path=p if why else None, key="R16.2 sodium_unpad")
    chk.floor("R16.2", "loads through buf on sodium_unpad paths", nld, 1)
    # failing exits of unpad for an impossible geometry come before any read
    for p in ps:
        if p.kind == "ret" and p.facts.truth(T.mk_icmp("ult", PLEN, BSU)) is True:
            rd = [e for e in p.events if e.kind == "load" and T.root(e.addr) == BUFU]
            chk.ob("R16.2", unpad, "padded_buflen < blocksize: rejected without reading", not rd and p.ret_zeroness() == "NZ",
                   loc=unpad.loc(p.end_iid), path=p if rd else None, key="R16.2 sodium_unpad short")
    width_rule(ctx, prog, chk)
    # R16.6: "for every schedule": padding keeps no state in static storage (E16) - a file-scope mask shared by two threads that pad
    # unrelated buffers clears data bytes / keeps stale ones
    from .. import staticstate
    staticstate.static_state_rule(prog, chk, "R16.6", ("sodium/utils.c",), floor=2, only_functions=("sodium_pad", "sodium_unpad"))
    # R16.7: "for every block size": no size_t quantity of the padding arithmetic is narrowed with loss (E12). A `blocksize - 1` kept
    # in an unsigned char pads correctly up to 256-byte blocks and to the wrong length beyond.
    from .. import knownbits
    n167 = 0
    for name in ("sodium_pad", "sodium_unpad"):
        f = prog.need(name, rule="R16.7")
        zero = knownbits.analyse(f)
        for i, ins in enumerate(f.insts):
            if ins["op"] != "trunc" or ins.get("srcbits") != 64:
                continue
            n167 += 1
            db = int(ins["ty"][1:])
            dropped = ((1 << 64) - 1) & ~((1 << db) - 1)
            src = ins["ops"][0]
            z = zero.get(src[1], 0) if src[0] == "v" else (~src[1] & ((1 << 64) - 1) if src[0] == "i" else 0)
            ok = (z & dropped) == dropped
            chk.ob("R16.7", f, "narrowing of a size_t value to %d bits at %s drops only bits that are always zero" % (db, f.loc(i)), ok, loc=f.loc(i),
                   detail="" if ok else "the high %d bits of the operand are not known to be zero: block sizes / lengths above %d are "
                   "silently reduced modulo 2^%d" % (64 - db, (1 << db) - 1, db), key="R16.7 %s trunc" % name)
    chk.floor("R16.7", "narrowings of 64-bit values in sodium_pad / sodium_unpad", n167, 2)


def width_rule(ctx, prog, chk):
    """R16.3: the position comparison is not narrowed"""
    from .. import bitflow, e9
    pad = prog.need("sodium_pad", rule="R16.3")
    bf = bitflow.BitFlow(e9.O2Unit(ctx, pad.unit))
    n = 0
    for fname, sinks, what in (("sodium_pad", ("stores",), "the stored padding bytes"),
                               ("sodium_unpad", ("stores", "ret", "branches"), "the verdict / reported length")):
        f = prog.need(fname, rule="R16.3")
        if f.name not in bf.unit.fns:
            raise AnalysisBroken("R16.3: %s vanished from the -O2 IR" % fname)
        jf = bf.unit.fns[f.name]
        insts = jf["insts"]
        hdr_phis = {i for i, ins in enumerate(insts) if ins["op"] == "phi" and jf["blocks"][ins["b"]].get("loophdr")
                    and ins["ty"] in ("i64", "i32")}
        # position comparisons: xor of the loop position with another length-typed value, inside the loop
        cmps = [i for i, ins in enumerate(insts) if ins["op"] == "xor" and ins["ty"] == "i64" and
                any(o[0] == "v" and o[1] in hdr_phis for o in ins["ops"]) and not any(o[0] == "i" for o in ins["ops"])]
        if fname == "sodium_pad" and not cmps:
            raise AnalysisBroken("R16.3: no position comparison (i ^ xpadlen) found in sodium_pad")
        for c in cmps:
            blind = []
            for bit in range(48):
                r = bf.analyse_value(f.name, c, bit)
                n += 1
                if not any(r[k] for k in sinks):
                    blind.append(bit)
            chk.ob("R16.3", f, "every bit (0..47) of the position comparison at %s can influence %s" % (f.loc(), what), not blind,
                   detail="bits %s of (position ^ marker position) are dropped before the mask is formed: positions that differ only "
                   "there are treated as equal" % blind[:6] if blind else "", key="R16.3 %s" % fname)
    chk.floor("R16.3", "(position comparison, bit) flows analysed", n, 48)
    marker_rule(ctx, prog, chk)


def marker_rule(ctx, prog, chk):
    """R16.4: the marker test of sodium_unpad looks at the whole byte"""
    from .. import bitflow, e9
    f = prog.need("sodium_unpad", rule="R16.4")
    bf = bitflow.BitFlow(e9.O2Unit(ctx, f.unit))
    if f.name not in bf.unit.fns:
        raise AnalysisBroken("R16.4: sodium_unpad vanished from the -O2 IR")
    jf = bf.unit.fns[f.name]
    insts, blocks = jf["insts"], jf["blocks"]
    bidx = f.param_index("buf")
    loads = [i for i, ins in enumerate(insts) if ins["op"] == "load" and ins["ty"] == "i8" and ("%buf" in ins.get("scev", ""))
             and blocks[ins["b"]].get("loopdepth", 0) >= 1]
    if len(loads) != 1 or bidx is None:
        raise AnalysisBroken("R16.4: expected one byte load from buf in the scan loop of sodium_unpad (found %d)" % len(loads))
    L = loads[0]
    # the loop-carried value that decides the verdict: the header phi from which the returned value is computed
    rets = [ins["ops"][0] for ins in insts if ins["op"] == "ret" and ins.get("ops")]
    hdr_phis = [i for i, ins in enumerate(insts) if ins["op"] == "phi" and blocks[ins["b"]].get("loophdr")]
    verdict = None
    for hp in hdr_phis:
        for v, _b in insts[hp]["inc"]:
            if v[0] != "v":
                continue
            # v (the next value of hp) must reach the return value through pure operations
            seen, stack = set(), [r[1] for r in rets if r[0] == "v"]
            while stack:
                x = stack.pop()
                if x in seen:
                    continue
                seen.add(x)
                if x == v[1]:
                    verdict = (hp, v[1])
                    break
                xi = insts[x]
                if xi["op"] in ("load", "call"):
                    continue
                stack.extend(o[1] for o in xi.get("ops", ()) if o[0] == "v")
                if not (xi["op"] == "phi" and blocks[xi["b"]].get("loophdr")):
                    stack.extend(o[1] for o, _b2 in xi.get("inc", ()) if o[0] == "v")       # not around the loop
            if verdict is not None:
                break
        if verdict is not None:
            break
    if verdict is None:
        raise AnalysisBroken("R16.4: no loop-carried verdict value found in sodium_unpad")
    blind = []
    for bit in range(8):
        r = bf.analyse_value(f.name, L, bit, cut_phis=True)
        if not r["masks"].get(verdict[1], 0):
            blind.append(bit)
    chk.ob("R16.4", f, "each of the 8 bits of the scanned byte can influence, within its own iteration, the verdict accumulator "
           "(%%%s): the marker test is `byte == 0x80`, not a test of some of its bits" % insts[verdict[0]].get("name", "valid"), not blind,
           detail="bits %s of the byte do not reach it" % blind if blind else "", key="R16.4 sodium_unpad marker-byte")
    chk.floor("R16.4", "bits of the scanned byte analysed", 8, 8)
    # ---- R16.5 the bytes scanned before the marker is found are remembered ----------------------------------------------------
    # "not followed only by zeros" needs state: some loop-carried value other than the verdict must take every bit of every
    # scanned byte (bit k of the byte reaches bit k of its next value: an OR-accumulator, not a predicate), and every bit of
    # that value must in turn be able to influence the verdict of a later iteration.
    acc = None
    why5 = "no loop-carried value collects the scanned bytes"
    for hp in hdr_phis:
        if hp == verdict[0] or insts[hp]["ty"] not in ("i8", "i16", "i32", "i64"):
            continue
        nxt = [v[1] for v, _b in insts[hp]["inc"] if v[0] == "v" and blocks[insts[v[1]]["b"]].get("loopdepth", 0) >= 1]
        if not nxt:
            continue
        takes = all(bf.analyse_value(f.name, L, bit, cut_phis=True)["masks"].get(nxt[0], 0) & (1 << bit) for bit in range(8))
        if not takes:
            continue
        gates = all(bf.analyse_value(f.name, hp, bit, cut_phis=True)["masks"].get(verdict[1], 0) for bit in range(8))
        if gates:
            acc = hp
            break
        why5 = "%%%s collects the scanned bytes but some of its bits cannot influence the verdict" % insts[hp].get("name", hp)
    chk.ob("R16.5", f, "a loop-carried accumulator takes every bit of every scanned byte and gates the marker test of later iterations "
           "(bytes after the marker must all be zero)", acc is not None, detail="" if acc is not None else why5 +
           ": a final block like 80 00 05 is accepted", key="R16.5 sodium_unpad zero-tail")
    chk.floor("R16.5", "accumulator candidates examined", len(hdr_phis), 2)
